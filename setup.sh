#!/bin/sh
# Build the Lean model, proofs and driver from files on disk only (offline).
set -e
cd "$(dirname "$0")/lean/PyresampleModel"
lake build 2>&1 | grep -v "conda.cli.condarc" | tail -5
test -x .lake/build/bin/driver
echo ping | .lake/build/bin/driver | grep -q pong
echo "setup ok"
