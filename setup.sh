#!/bin/sh
# Build the Lean model, proofs and per-property drivers from files on disk only (offline).
set -e
cd "$(dirname "$0")/lean/PyresampleModel"
python3 ../../harness/py2lean.py || true
lake build 2>&1 | grep -v "conda.cli.condarc" | tail -3
DRIVERS=""
for f in ../../meta/C*.json; do
  id=$(basename "$f" .json)
  if grep -q '"claimed": true' "$f"; then DRIVERS="$DRIVERS driver_$id"; fi
done
lake build $DRIVERS 2>&1 | grep -v "conda.cli.condarc" | tail -3
for d in $DRIVERS; do
  echo ping | .lake/build/bin/$d | grep -q pong
done
echo "setup ok:$DRIVERS"
