"""Shared machinery of the verification harness (see DESIGN.md §2).

One check run = proof obligations (lake build + axiom audit + forbidden-token scan)
              + correspondence (real code vs Lean model through the line-protocol driver)
              + property oracle on the real code's own outputs
              + verdict / evidence / replay.
"""
from __future__ import annotations

import fcntl
import hashlib
import json
import os
import random
import re
import subprocess
import sys
import time
from fractions import Fraction
from pathlib import Path

VERIF = Path(__file__).resolve().parent.parent
LEAN = VERIF / "lean" / "PyresampleModel"
REPO = Path(os.environ.get("PYRESAMPLE_REPO", "/repo"))
ALLOWED_AXIOMS = {"propext", "Classical.choice", "Quot.sound"}
FORBIDDEN = re.compile(
    r"\b(sorry|admit|native_decide|bv_decide|implemented_by|unsafe)\b|^\s*axiom\s|maxHeartbeats\s+0\b")

TRUSTED_BASE = [
    "Lean 4.33 kernel; axioms limited to propext, Classical.choice, Quot.sound (audited per theorem each run)",
    "hand-written Lean model says what the code does: checked only by the correspondence runs (sampling)",
    "Python harness: generators, canonicalisers, driver client, Driver.lean parser, known-findings matcher",
    "numpy / pyproj / pykdtree / dask / shapely behave as documented (model parameters, see DESIGN.md §4)",
    "where a translator tie exists (coverage.translator_tie): harness/py2lean.py renders the named /repo functions into Lean "
    "faithfully (restricted Python subset; // % floored, round half-even, int() truncating, float literals exact, / exact)",
]


class Infra(Exception):
    """Infrastructure failure: exit 2, never a VIOLATION."""


def _run(cmd, cwd=None, timeout=3600, env=None):
    p = subprocess.run(cmd, cwd=cwd, capture_output=True, text=True, timeout=timeout, env=env)
    out = "\n".join(l for l in (p.stdout + p.stderr).splitlines() if "conda.cli.condarc" not in l)
    return p.returncode, out


# ---------------------------------------------------------------------------------------------
# Lean side
# ---------------------------------------------------------------------------------------------

def strip_comments(text: str) -> str:
    """Remove Lean block comments (nested) and line comments."""
    out = []
    i, depth, n = 0, 0, len(text)
    while i < n:
        if text.startswith("/-", i):
            depth += 1
            i += 2
        elif depth and text.startswith("-/", i):
            depth -= 1
            i += 2
        elif depth:
            if text[i] == "\n":
                out.append("\n")
            i += 1
        elif text.startswith("--", i):
            while i < n and text[i] != "\n":
                i += 1
        else:
            out.append(text[i])
            i += 1
    return "".join(out)


def lean_build(targets):
    """lake build under an exclusive lock (several checks may run at once)."""
    lock = open(LEAN / ".build.lock", "w")
    fcntl.flock(lock, fcntl.LOCK_EX)
    try:
        rc, out = _run(["lake", "build"] + list(targets), cwd=LEAN, timeout=3000)
    finally:
        fcntl.flock(lock, fcntl.LOCK_UN)
        lock.close()
    return rc == 0, out


def lean_scan(files):
    hits = []
    for f in files:
        txt = strip_comments(Path(f).read_text())
        for ln, line in enumerate(txt.splitlines(), 1):
            if FORBIDDEN.search(line):
                hits.append(f"{Path(f).name}:{ln}: {line.strip()[:80]}")
    return hits


def lean_audit(pid, theorems, module=None, namespace=None):
    """`#print axioms` for every obligation; returns {theorem: [axioms] | None if missing}."""
    if not theorems:
        return {}, ""
    module = module or f"Props.{pid}"
    namespace = namespace or pid
    scratch = LEAN / ".lake" / f"audit_{pid}_{namespace}_{os.getpid()}.lean"
    body = [f"import PyresampleModel.{module}"]
    for t in theorems:
        body.append(f"#print axioms PyresampleModel.{namespace}.{t}")
    scratch.write_text("\n".join(body) + "\n")
    try:
        rc, out = _run(["lake", "env", "lean", str(scratch)], cwd=LEAN, timeout=1200)
    finally:
        scratch.unlink(missing_ok=True)
    res = {t: None for t in theorems}
    # output blocks: "'Name' depends on axioms: [a, b]" or "'Name' does not depend on any axioms"
    flat = re.sub(r"\s+", " ", out)
    for t in theorems:
        full = f"PyresampleModel.{namespace}.{t}"
        m = re.search(r"'" + re.escape(full) + r"' depends on axioms: \[([^\]]*)\]", flat)
        if m:
            res[t] = [a.strip() for a in m.group(1).split(",") if a.strip()]
        elif re.search(r"'" + re.escape(full) + r"' does not depend on any axioms", flat):
            res[t] = []
    return res, out


class Driver:
    """Line-protocol client for the compiled Lean model driver."""

    def __init__(self, pid):
        exe = LEAN / ".lake" / "build" / "bin" / f"driver_{pid}"
        if not exe.exists():
            raise Infra(f"driver executable missing: {exe}")
        self.pid = pid
        self.p = subprocess.Popen([str(exe)], stdin=subprocess.PIPE, stdout=subprocess.PIPE,
                                  text=True, bufsize=1)
        self.requests = 0
        if self._ask_raw("ping") != "pong":
            raise Infra("driver does not answer ping")

    def _ask_raw(self, line):
        try:
            self.p.stdin.write(line + "\n")
            self.p.stdin.flush()
            rep = self.p.stdout.readline()
        except (BrokenPipeError, OSError) as e:
            raise Infra(f"driver died: {e}")
        if not rep:
            raise Infra(f"driver closed its output on request: {line[:200]}")
        return rep.rstrip("\n")

    def ask(self, *parts):
        """Send `<op> <args…>`; parts are stringified (Fractions as n/d, lists length-prefixed)."""
        self.requests += 1
        line = " ".join(w(p) for p in parts)
        rep = self._ask_raw(line)
        if rep == "bad-op":
            raise Infra(f"model does not understand request: {line[:300]}")
        return rep

    def close(self):
        try:
            self.p.stdin.close()
            self.p.wait(timeout=5)
        except Exception:
            self.p.kill()


def w(x):
    """wire encoding of scalars / flat lists"""
    if isinstance(x, str):
        return x
    if isinstance(x, bool):
        return "1" if x else "0"
    if x is None:
        return "none"
    if isinstance(x, int):
        return str(x)
    if isinstance(x, Fraction):
        return str(x.numerator) if x.denominator == 1 else f"{x.numerator}/{x.denominator}"
    if isinstance(x, float):
        return w(Fraction(x))
    if isinstance(x, (list, tuple)):
        return " ".join([str(len(x))] + [w(v) for v in x])
    try:
        import numpy as np
        if isinstance(x, np.integer):
            return str(int(x))
        if isinstance(x, np.floating):
            return w(Fraction(float(x)))
        if isinstance(x, np.bool_):
            return "1" if x else "0"
    except ImportError:
        pass
    raise TypeError(f"cannot encode {type(x)}")


def frac(s):
    """parse a model rational"""
    return Fraction(s)


# ---------------------------------------------------------------------------------------------
# known findings
# ---------------------------------------------------------------------------------------------

def load_findings():
    """known_findings.json (committed, authoritative) + per-property proposals in meta/Cxx.json."""
    out = []
    p = VERIF / "known_findings.json"
    if p.exists():
        out += json.loads(p.read_text())["findings"]
    for m in sorted((VERIF / "meta").glob("C*.json")):
        out += json.loads(m.read_text()).get("findings", [])
    return out


def match_finding(findings, pid, site, tags):
    for f in findings:
        if f.get("status") != "known" or f["property"] != pid or f["site"] != site:
            continue
        if all((tags.get(k) in v) if isinstance(v, list) else (tags.get(k) == v) for k, v in f.get("match", {}).items()):
            return f
    return None


# ---------------------------------------------------------------------------------------------
# context
# ---------------------------------------------------------------------------------------------

def jsonable(x):
    if isinstance(x, Fraction):
        return w(x)
    if isinstance(x, (list, tuple)):
        return [jsonable(v) for v in x]
    if isinstance(x, dict):
        return {str(k): jsonable(v) for k, v in x.items()}
    if isinstance(x, (str, int, float, bool)) or x is None:
        return x
    try:
        import numpy as np
        if isinstance(x, np.ndarray):
            return jsonable(x.tolist())
        if isinstance(x, np.generic):
            return x.item()
    except ImportError:
        pass
    if isinstance(x, slice):
        return f"slice({x.start},{x.stop},{x.step})"
    return repr(x)


class Ctx:
    def __init__(self, pid, tier, seed):
        self.pid, self.tier, self.seed = pid, tier, seed
        self.rng = random.Random(f"{pid}-{seed}")
        self.t0 = time.time()
        self.evaluations = 0
        self.nontrivial_keys = set()
        self.suites = {}            # suite -> {"cases": n, "nontrivial": n}
        self.counters = {}          # distribution counters
        self.samples = []
        self.disagreements = []     # impl ≠ model
        self.failures = []          # property fails on the real code
        self.notes = []
        self.M = None
        self.findings = load_findings()
        self.exhaustive = {}

    @property
    def quick(self):
        return self.tier == "quick"

    def count(self, key, n=1):
        self.counters[key] = self.counters.get(key, 0) + n

    def case(self, suite, key, nontrivial=True, sample=None):
        """Record one evaluated case. `key` identifies the case for distinctness."""
        self.evaluations += 1
        s = self.suites.setdefault(suite, {"cases": 0, "nontrivial": 0})
        s["cases"] += 1
        if nontrivial:
            h = hashlib.blake2b(repr((suite, key)).encode(), digest_size=8).digest()
            if h not in self.nontrivial_keys:
                self.nontrivial_keys.add(h)
                s["nontrivial"] += 1
        if sample is not None and sum(1 for x in self.samples if x.get("suite") == suite) < 3:
            self.samples.append({"suite": suite, **jsonable(sample)})

    def disagree(self, suite, input_, impl, model, note=""):
        """implementation and model differ on this input"""
        self.disagreements.append({"suite": suite, "input": jsonable(input_), "impl": jsonable(impl),
                                   "model": jsonable(model), "note": note})

    def fail(self, site, what, input_, observed=None, tags=None, size=None):
        """the property itself fails on the real code for this input"""
        tags = tags or {}
        known = match_finding(self.findings, self.pid, site, tags)
        self.failures.append({"site": site, "what": what, "input": jsonable(input_),
                              "observed": jsonable(observed), "tags": jsonable(tags),
                              "known": known["id"] if known else None,
                              "size": size if size is not None else len(json.dumps(jsonable(input_)))})

    def note(self, s):
        self.notes.append(s)


# ---------------------------------------------------------------------------------------------
# main entry
# ---------------------------------------------------------------------------------------------

def prop_meta(pid):
    p = VERIF / "meta" / f"{pid}.json"
    return json.loads(p.read_text()) if p.exists() else {}


def check_obligations(pid, thorough):
    idx = prop_meta(pid)
    theorems = idx.get("theorems", [])
    modules = [f"PyresampleModel.Model.{pid}", f"PyresampleModel.Props.{pid}"] + \
        [f"PyresampleModel.{m}" for m in idx.get("extra_modules", [])]
    ob = {"theorems": theorems, "broken": [], "axioms": {}, "build_ok": False, "scan_hits": []}
    ok, out = lean_build(modules + [f"driver_{pid}"])
    ob["build_ok"] = ok
    if not ok:
        ob["broken"].append("lake build failed: " + out[-1500:])
        return ob
    files = [LEAN / (m.replace(".", "/") + ".lean") for m in modules] + \
        [LEAN / "PyresampleModel" / "Model" / "Core.lean", LEAN / "Drivers" / f"{pid}.lean"]
    ob["scan_hits"] = lean_scan([f for f in files if f.exists()])
    if ob["scan_hits"]:
        ob["broken"].append("forbidden tokens: " + "; ".join(ob["scan_hits"][:5]))
    axioms, raw = lean_audit(pid, theorems)
    ob["axioms"] = axioms
    for t, ax in axioms.items():
        if ax is None:
            ob["broken"].append(f"theorem {t} not found / audit failed")
        elif not set(ax) <= ALLOWED_AXIOMS:
            ob["broken"].append(f"theorem {t} uses axioms {sorted(set(ax) - ALLOWED_AXIOMS)}")
    tie = idx.get("tie")
    if tie:
        check_tie(pid, tie, ob, modules, thorough)
    if thorough and not ob["broken"]:
        rc, out = _run(["lake", "env", "leanchecker"] + modules, cwd=LEAN, timeout=3000)
        ob["leanchecker"] = "ok" if rc == 0 else out[-800:]
        if rc != 0:
            ob["broken"].append("leanchecker rejected the compiled modules: " + out[-400:])
    return ob


def regenerate_translation():
    """Gen/Src.lean from /repo's working tree (harness/py2lean.py), under the build lock. -> report"""
    sys.path.insert(0, str(VERIF / "harness"))
    import py2lean
    lock = open(LEAN / ".build.lock", "w")
    fcntl.flock(lock, fcntl.LOCK_EX)
    try:
        src, report = py2lean.generate(REPO)
        out = py2lean.OUT
        if not out.exists() or out.read_text() != src:
            out.write_text(src)
        (out.parent / "report.json").write_text(json.dumps(report, indent=1))
    finally:
        fcntl.flock(lock, fcntl.LOCK_UN)
        lock.close()
    return report


def translator_selftest():
    """harness/py2lean_selftest.py: the translator's rendering of every supported construct against CPython / numpy"""
    rc, out = _run(["/venv/bin/python", str(VERIF / "harness" / "py2lean_selftest.py"), "--n", "25"], cwd=VERIF, timeout=900)
    line = [l for l in out.splitlines() if l.startswith("py2lean self-test")]
    return rc, (line[-1] if line else out[-300:])


def check_tie(pid, tie, ob, modules, thorough=False):
    """Translator tie (DESIGN.md §13): regenerate the Lean translation of /repo's scalar helpers, rebuild the tie module,
    audit the tie theorems.  Anything that no longer checks is a broken obligation of this property."""
    ob["tie"] = {"module": tie["module"], "functions": {}, "theorems": tie["theorems"]}
    try:
        report = regenerate_translation()
    except Exception as e:  # noqa
        ob["broken"].append(f"tie: translator failed: {type(e).__name__}: {e}")
        return
    for fn in tie["functions"]:
        r = report.get(fn, {"ok": False, "error": "not in the translator's table"})
        ob["tie"]["functions"][fn] = {k: r.get(k) for k in ("ok", "source", "sha", "error")}
        if not r["ok"]:
            ob["broken"].append(f"tie: {r.get('source', fn)} can no longer be translated to Lean ({r.get('error')}); "
                                f"theorems {tie['theorems']} of {tie['module']} are not established for the current source")
    mod = f"PyresampleModel.{tie['module']}"
    ok, out = lean_build([mod])
    if not ok:
        errs = [l for l in out.splitlines() if "error" in l][:6]
        # name the theorems whose proofs fail: last `theorem X` at or before each reported line
        src_lines = (LEAN / (mod.replace(".", "/") + ".lean")).read_text().splitlines()
        failing = []
        for l in errs:
            m = re.search(r"\.lean:(\d+):\d+: error", l)
            if m:
                for k in range(min(int(m.group(1)), len(src_lines)) - 1, -1, -1):
                    mm = re.match(r"\s*theorem\s+(\S+)", src_lines[k])
                    if mm:
                        if mm.group(1) not in failing:
                            failing.append(mm.group(1))
                        break
        ob["tie"]["failing_theorems"] = failing
        ob["broken"].append(f"tie: theorem(s) {failing} of {mod} no longer check against the definitions generated from the "
                            f"current source (Gen/Src.lean): " + " | ".join(errs)[-700:])
        for t in tie["theorems"]:
            ob["axioms"]["Tie." + t] = None
        ob["theorems"] = ob["theorems"] + ["Tie." + t for t in tie["theorems"]]
        return
    files = [LEAN / "PyresampleModel" / "Gen" / "Prelude.lean", LEAN / "PyresampleModel" / "Gen" / "Src.lean"]
    todo, tie_mods = [mod], []
    while todo:                                   # the tie module and the tie modules it imports
        m = todo.pop()
        if m in tie_mods:
            continue
        tie_mods.append(m)
        f = LEAN / (m.replace(".", "/") + ".lean")
        files.append(f)
        todo += re.findall(r"^import (PyresampleModel\.Props\.(?:Tie|Code)\w*)", f.read_text(), flags=re.M)
    hits = lean_scan(files)
    if hits:
        ob["scan_hits"] += hits
        ob["broken"].append("forbidden tokens: " + "; ".join(hits[:5]))
    axioms, _ = lean_audit(pid, tie["theorems"], module=tie["module"], namespace="Tie")
    ob["theorems"] = ob["theorems"] + ["Tie." + t for t in tie["theorems"]]
    for t, ax in axioms.items():
        ob["axioms"]["Tie." + t] = ax
        if ax is None:
            ob["broken"].append(f"tie theorem {t} not found / audit failed")
        elif not set(ax) <= ALLOWED_AXIOMS:
            ob["broken"].append(f"tie theorem {t} uses axioms {sorted(set(ax) - ALLOWED_AXIOMS)}")
    modules.extend(tie_mods)
    modules.append("PyresampleModel.Gen.Src")
    if thorough:
        rc, line = translator_selftest()
        ob["tie"]["translator_selftest"] = line
        if rc != 0:
            ob["broken"].append("tie: the translator's self-test against CPython / numpy fails: " + line)


def write_replay(pid, seed, k, rec):
    d = VERIF / "replay"
    d.mkdir(exist_ok=True)
    p = d / f"{pid}-{seed}-{k}.json"
    rec = dict(rec)
    rec["property"] = pid
    rec["replay_cmd"] = f"./vcheck {pid} --replay replay/{p.name}"
    p.write_text(json.dumps(jsonable(rec), indent=1))
    return f"replay/{p.name}"


def main(argv=None):
    import argparse
    import importlib
    ap = argparse.ArgumentParser()
    ap.add_argument("pid")
    ap.add_argument("--tier", default=os.environ.get("VERIF_TIER", "quick"), choices=["quick", "thorough"])
    ap.add_argument("--replay")
    ap.add_argument("--no-proof", action="store_true", help="development only: skip obligations")
    a = ap.parse_args(argv)
    pid = a.pid
    seed = int(os.environ.get("VERIF_SEED", "0") or 0)
    sys.path.insert(0, str(VERIF / "harness"))
    sys.path.insert(0, str(REPO))
    os.environ.setdefault("PYRESAMPLE_VERIF", "1")
    ctx = Ctx(pid, a.tier, seed)
    try:
        mod = importlib.import_module(f"props.{pid.lower()}")
        if a.no_proof:
            ok, out = lean_build([f"driver_{pid}"])
            ob = {"theorems": [], "broken": [] if ok else [out[-800:]], "axioms": {}, "build_ok": ok, "dev": True}
        else:
            ob = check_obligations(pid, a.tier == "thorough")
        if not ob["build_ok"]:
            # without a model there is no correspondence either; still run the oracle on real code
            ctx.M = None
        else:
            ctx.M = Driver(pid)
        if not a.replay:
            for old in (VERIF / "replay").glob(f"{pid}-{seed}-*.json"):
                old.unlink()
        if a.replay:
            rec = json.loads(Path(a.replay).read_text())
            rc = mod.replay(ctx, rec) if hasattr(mod, "replay") else (print(json.dumps(rec, indent=1)) or 0)
            return rc
        try:
            mod.run(ctx)
        except Infra:
            raise
        except Exception as e:  # noqa: a harness crash (typically on a changed /repo) must not hide what was found so far
            import traceback
            tb = traceback.format_exc()
            ctx.note("harness exception: " + tb[-1500:])
            if not (ctx.failures or ctx.disagreements):
                # nothing recorded yet: the real code raised where it never does on the unchanged tree
                ctx.disagree("harness-crash", {"exception": f"{type(e).__name__}: {e}"}, "exception while driving the real code", "no exception",
                             note=tb[-600:])
        if (ctx.disagreements or ob["broken"]) and hasattr(mod, "search"):
            try:
                mod.search(ctx)
            except Exception as e:  # noqa
                ctx.note(f"search raised {type(e).__name__}: {e}")
    except Infra as e:
        print(f"INFRA property={pid}: {e}", file=sys.stderr)
        return 2
    finally:
        if ctx.M:
            ctx.M.close()
    return finish(ctx, ob, getattr(mod, "META", {}))


def finish(ctx, ob, meta):
    pid = ctx.pid
    unknown = [f for f in ctx.failures if not f["known"]]
    known = [f for f in ctx.failures if f["known"]]
    violations = 0
    lines = []
    replay_k = 0
    if unknown:
        # one VIOLATION per distinct site, smallest input first
        by_site = {}
        for f in sorted(unknown, key=lambda f: f["size"]):
            by_site.setdefault(f["site"], f)
        for site, f in by_site.items():
            path = write_replay(pid, ctx.seed, replay_k, {"kind": "property-fails-on-real-code", **f})
            replay_k += 1
            violations += 1
            lines.append(f"VIOLATION property={pid} replay={path}")
    elif ctx.disagreements or ob["broken"]:
        rec = {"kind": "correspondence-or-proof-broken",
               "broken_obligations": ob["broken"],
               "disagreements": ctx.disagreements[:5],
               "n_disagreements": len(ctx.disagreements),
               "searched": "property oracle run on every generated case and on the targeted stream "
                           "around each disagreement; no input violating the property was found",
               "names": ([f"theorem(s): {ob['broken']}"] if ob["broken"] else []) +
                        [f"correspondence suite: {d['suite']}" for d in ctx.disagreements[:5]]}
        path = write_replay(pid, ctx.seed, replay_k, rec)
        violations += 1
        lines.append(f"VIOLATION property={pid} replay={path} no-failing-input-found")
    seen = set()
    static = {f.get("id"): f for f in ctx.findings}
    for f in known:
        if f["known"] not in seen:
            seen.add(f["known"])
            desc = static.get(f["known"], {}).get("what", f["what"])
            lines.append(f"KNOWN-FINDING: property={pid} {f['known']} at {f['site']}: {desc[:400]}")
    n_ob = len(ob.get("theorems", []))
    discharged = sum(1 for t, ax in ob.get("axioms", {}).items()
                     if ax is not None and set(ax) <= ALLOWED_AXIOMS) if ob["build_ok"] and not ob.get("scan_hits") else 0
    ev = {
        "property_id": pid, "tier": ctx.tier, "seed": ctx.seed, "level": "proof",
        "coverage": {
            "obligations": n_ob, "discharged": discharged,
            "checker_cmd": f"cd lean/PyresampleModel && lake build PyresampleModel.Props.{pid} && "
                           f"lake env lean <generated '#print axioms' file for the theorems listed in meta/{pid}.json>"
                           + (" && lake env leanchecker <modules>" if ctx.tier == "thorough" else ""),
            "trusted_base": TRUSTED_BASE + meta.get("trusted_base", []),
            "theorems": ob.get("axioms", {}),
            "translator_tie": ob.get("tie", "none for this property"),
            "broken_obligations": ob["broken"],
            "leanchecker": ob.get("leanchecker", "not run (quick tier)"),
            "evaluations": ctx.evaluations,
            "distinct_nontrivial": len(ctx.nontrivial_keys),
            "rule": meta.get("rule", ""),
            "suites": ctx.suites,
            "distribution": ctx.counters,
            "model_requests": ctx.M.requests if ctx.M else 0,
            "samples": ctx.samples[:40],
            "exhaustive_suites": ctx.exhaustive,
            "disagreements": len(ctx.disagreements),
            "property_failures_on_real_code": len(ctx.failures),
            "known_findings_hit": sorted(seen),
            "notes": ctx.notes,
        },
        "assumptions": meta.get("assumptions", []),
        "wall_s": round(time.time() - ctx.t0, 2),
        "violations": violations,
    }
    # development runs (--no-proof) skip the obligations: their record is not evidence and goes to an ignored directory
    evdir = VERIF / "evidence" / "_dev" if ob.get("dev") else VERIF / "evidence"
    evdir.mkdir(parents=True, exist_ok=True)
    (evdir / f"{pid}.json").write_text(json.dumps(jsonable(ev), indent=1))
    for l in lines:
        print(l)
    print(f"{pid} {ctx.tier} seed={ctx.seed}: obligations {discharged}/{n_ob}, "
          f"{ctx.evaluations} cases ({len(ctx.nontrivial_keys)} distinct non-trivial), "
          f"{len(ctx.disagreements)} disagreements, {len(unknown)} new failures, "
          f"{len(known)} known-finding hits, {ev['wall_s']}s")
    return 1 if violations else 0


if __name__ == "__main__":
    sys.exit(main())
