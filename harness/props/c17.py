"""C17 — spherical polygon area and set operations obey the laws of area."""
import math
import warnings
from fractions import Fraction

import numpy as np

META = {
    "rule": "area: one case = (simple clockwise polygon, transformation): SphPolygon.area against the model's angle-sum skeleton fed with interior "
            "angles computed independently (tangent vectors), and the laws on the real code: cyclic relabelling, rotation of the sphere, radius^2, "
            "split along a diagonal, area(P) + area(inverse P) = 4 pi r^2. Polygons: convex and star-shaped non-convex, 3..12 vertices, at the "
            "equator, mid latitudes, around either pole, across the antimeridian, of sizes 1e-3..1.2 rad. set operations: one case = ordered pair of "
            "convex polygons (< hemisphere, general position: no vertex within 1e-3 rad of the other's boundary) that overlap partially, are "
            "disjoint, or nested: commutativity in area, <= min, inclusion-exclusion, an independent hemisphere-clipping oracle for the intersection "
            "area, None for disjoint, the inner polygon for nested; radius 1 and 6371. dispatch: the no-crossing decision table of _bool_oper vs the "
            "model. Non-trivial: non-convex or pole/antimeridian placement, or a partially overlapping pair. Distinct = distinct vertices. "
            "setops.small: the same laws for pairs whose common part is tiny: polygons 2e-5..6e-4 rad across (overlapping, nested, disjoint) and big "
            "polygons sharing a sliver 4e-5..2e-4 rad deep; areas by a planar (gnomonic) oracle, tolerances 1e-6 x smaller area + 5e-15 / size; radius "
            "1, 0.5, 6371. area.sequence: one case = (polygon, radius, calls before invert()): area / invert / area on one object vs inverse(), a "
            "freshly built reversed polygon and the independent angle sum; radius 0.1..7000.",
    "assumptions": ["trigonometry is not modelled: the Lean model is the combinatorial skeleton (cyclic triples, (sum - (n-2) pi) r^2, dispatch table) over an "
                    "arbitrary field with the angle function as a parameter; the laws that need geometry (rotation invariance, angle additivity at a "
                    "diagonal, b-p-a = 2 pi - a-p-b) are hypotheses of the theorems and are checked numerically on the real code",
                    "tolerances: 1e-9 relative on areas for the area laws (1e-7 for polygons smaller than 1e-3 rad), 1e-7 for set operations",
                    "general position is enforced by the generator (margins of 1e-3 rad); degenerate pairs are outside the property's quantifier",
                    "setops.small: the library compares points with np.allclose on lon/lat (SCoordinate.__eq__, 1e-8 + 1e-5 |value| rad, i.e. up to 3.5e-5 rad): "
                    "pairs with two distinct vertices / crossing points, a vertex and the other polygon's boundary, or a vertex and the great circle of the "
                    "other polygon's first edge closer than twice that resolution are not generated (below it the unchanged library returns wrong polygons "
                    "or does not terminate); area() carries an absolute error of a few 1e-16 / edge length, polygons below 2e-5 rad across are not generated"],
}

F = Fraction


def fr(x):
    return F(float(x))


# -----------------------------------------------------------------------------------------------------------------------
# geometry helpers (independent of pyresample)
# -----------------------------------------------------------------------------------------------------------------------

def ll2v(lon, lat):
    return np.stack([np.cos(lat) * np.cos(lon), np.cos(lat) * np.sin(lon), np.sin(lat)], -1)


def v2ll(v):
    v = v / np.linalg.norm(v, axis=-1, keepdims=True)
    return np.stack([np.arctan2(v[..., 1], v[..., 0]), np.arcsin(np.clip(v[..., 2], -1, 1))], -1)


def rot(rng):
    """random rotation matrix"""
    q = np.array([rng.gauss(0, 1) for _ in range(4)])
    q /= np.linalg.norm(q)
    a, b, c, d = q
    return np.array([[a * a + b * b - c * c - d * d, 2 * (b * c - a * d), 2 * (b * d + a * c)],
                     [2 * (b * c + a * d), a * a - b * b + c * c - d * d, 2 * (c * d - a * b)],
                     [2 * (b * d - a * c), 2 * (c * d + a * b), a * a - b * b - c * c + d * d]])


def interior_angles(V):
    """interior angle at each vertex of a clockwise (seen from outside the sphere) polygon, from tangent vectors; entry i is the angle at V[i]"""
    n = len(V)
    out = []
    for i in range(n):
        a, p, b = V[i - 1], V[i], V[(i + 1) % n]
        ta = a - np.dot(a, p) * p
        tb = b - np.dot(b, p) * p
        ang = math.atan2(np.dot(p, np.cross(ta, tb)), np.dot(ta, tb))        # from prev-direction to next-direction, counter-clockwise about p
        out.append(ang % (2 * math.pi))
    return out


def area_ref(V, radius=1.0):
    al = interior_angles(V)
    return (sum(al) - (len(V) - 2) * math.pi) * radius ** 2


def make_polygon(rng, kind, n, size, centre):
    """clockwise simple polygon: vertices on a 'star' around the centre at angles decreasing (clockwise seen from outside)"""
    c = ll2v(*centre)
    # local frame
    ref = np.array([0.0, 0.0, 1.0]) if abs(c[2]) < 0.9 else np.array([1.0, 0.0, 0.0])
    e1 = np.cross(ref, c)
    e1 /= np.linalg.norm(e1)
    e2 = np.cross(c, e1)
    angs = sorted((rng.uniform(0, 2 * math.pi) for _ in range(n)), reverse=True)
    # keep gaps reasonable so that the star polygon is simple and convex when asked
    angs = [2 * math.pi * (n - k) / n + rng.uniform(-0.25, 0.25) * 2 * math.pi / n for k in range(n)]
    V = []
    for k, th in enumerate(angs):
        rad = size if kind == "convex" else size * rng.uniform(0.45, 1.0)
        d = math.cos(rad) * c + math.sin(rad) * (math.cos(th) * e1 + math.sin(th) * e2)
        V.append(d / np.linalg.norm(d))
    V = np.array(V)
    # orientation: clockwise when seen from outside = the angle-sum area is the small one
    return V


def is_convex_cw(V):
    n = len(V)
    for i in range(n):
        a, p, b = V[i - 1], V[i], V[(i + 1) % n]
        if np.dot(np.cross(a, p), b) > -1e-12:      # for clockwise polygons every next vertex lies to the right of the edge
            return False
    return True


def clip_area(VA, VB):
    """area of the intersection of two convex clockwise polygons (< hemisphere): clip A by the half-spaces of B's edges"""
    poly = [v for v in VA]
    n = len(VB)
    for i in range(n):
        p, q = VB[i], VB[(i + 1) % n]
        nrm = np.cross(q, p)                         # inside of a clockwise polygon: nrm . x > 0
        nrm /= np.linalg.norm(nrm)
        new = []
        for k in range(len(poly)):
            cur, nxt = poly[k], poly[(k + 1) % len(poly)]
            dc, dn = np.dot(nrm, cur), np.dot(nrm, nxt)
            if dc >= 0:
                new.append(cur)
            if (dc >= 0) != (dn >= 0):
                x = np.cross(np.cross(cur, nxt), nrm)
                x /= np.linalg.norm(x)
                if np.dot(x, cur + nxt) < 0:
                    x = -x
                new.append(x)
        poly = new
        if len(poly) < 3:
            return 0.0
    return area_ref(np.array(poly))


def min_boundary_distance(VA, VB):
    """smallest angular distance of a vertex of A to the boundary (edges) of B"""
    best = 10.0
    n = len(VB)
    for a in VA:
        for i in range(n):
            p, q = VB[i], VB[(i + 1) % n]
            nrm = np.cross(p, q)
            nrm /= np.linalg.norm(nrm)
            # distance to the great circle, or to the end points when the foot is outside the arc
            foot = a - np.dot(a, nrm) * nrm
            foot /= np.linalg.norm(foot)
            if np.dot(np.cross(p, foot), nrm) >= 0 and np.dot(np.cross(foot, q), nrm) >= 0:
                d = abs(math.asin(max(-1, min(1, np.dot(a, nrm)))))
            else:
                d = min(math.acos(max(-1, min(1, np.dot(a, p)))), math.acos(max(-1, min(1, np.dot(a, q)))))
            best = min(best, d)
    return best


def inside_convex(x, V):
    n = len(V)
    return all(np.dot(np.cross(V[(i + 1) % n], V[i]), x) > 0 for i in range(n))


PLACES = [("equator", (0.3, 0.05)), ("mid-lat", (0.9, 0.8)), ("north-pole", (1.0, math.pi / 2 - 0.02)), ("on-north-pole", (0.0, math.pi / 2)),
          ("south-pole", (-2.0, -math.pi / 2 + 0.05)), ("antimeridian", (math.pi - 0.01, 0.4)), ("antimeridian-south", (-math.pi + 0.02, -0.9)),
          ("near-equator-antimeridian", (math.pi, 0.001))]


def _sph(V, radius=1):
    from pyresample.spherical import SphPolygon
    ll = v2ll(np.asarray(V))
    return SphPolygon(ll.copy(), radius=radius)


# -----------------------------------------------------------------------------------------------------------------------
# suites
# -----------------------------------------------------------------------------------------------------------------------

def suite_area(ctx):
    rng = ctx.rng
    n_cases = 60 if ctx.quick else 500
    for it in range(n_cases):
        place, centre = rng.choice(PLACES)
        kind = rng.choice(["convex", "star"])
        n = rng.randint(3, 12)
        size = rng.choice([1e-3, 0.02, 0.2, 0.7, 1.2])
        V = make_polygon(rng, kind, n, size, centre)
        ll = v2ll(V)
        inp = {"place": place, "kind": kind, "n": n, "size": size, "vertices_lonlat_rad": ll.tolist()}
        tol = (1e-7 if size <= 1e-3 else 1e-9)
        with warnings.catch_warnings(), np.errstate(all="ignore"):
            warnings.simplefilter("ignore")
            A = float(_sph(V).area())
        ctx.case("area", ll.tobytes(), nontrivial=kind == "star" or place not in ("equator", "mid-lat"),
                 sample={"place": place, "kind": kind, "n": n, "size": size})
        ctx.count(f"area.place.{place}")
        ctx.count(f"area.kind.{kind}")
        # 1. model: angle-sum skeleton with independent angles (entry i of the model = angle at vertex i+1, as in the code: cyclic shift is invisible)
        al = interior_angles(V)
        rep = ctx.M.ask("area", fr(1.0), fr(math.pi), n, *[fr(a) for a in al])
        mA = float(F(rep))
        scale = max(A, mA, 1e-12)
        if abs(A - mA) > max(tol * 4 * math.pi, 1e-6 * scale) and abs(A - mA) > 1e-13:
            # decide on the real code: is the area the enclosed one?  (reference: the same skeleton, so a difference = the code's angles are wrong)
            ctx.fail("spherical.SphPolygon.area", f"{kind} polygon with {n} vertices at {place}: area() = {A!r} but the angle sum of its interior angles gives {mA!r}",
                     inp, {"area": A, "reference": mA}, tags={"cause": "area-value", "place": place}, size=n)
            continue
        if not (0 < A < 2 * math.pi + 1e-9):
            ctx.fail("spherical.SphPolygon.area", f"clockwise polygon smaller than a hemisphere has area {A}", inp, None, tags={"cause": "area-sign"}, size=n)
        # 2. laws on the real code
        k = rng.randint(1, n - 1)
        with warnings.catch_warnings(), np.errstate(all="ignore"):
            warnings.simplefilter("ignore")
            A_cyc = float(_sph(np.roll(V, -k, axis=0)).area())
            Rm = rot(rng)
            A_rot = float(_sph(V @ Rm.T).area())
            rad = rng.choice([2.0, 6371.0, 0.5])
            A_rad = float(_sph(V, radius=rad).area())
            P = _sph(V)
            A_inv = float(P.inverse().area())
        if abs(A_cyc - A) > tol * (1 + A):
            ctx.fail("spherical.SphPolygon.area", f"area changes under cyclic relabelling by {k}: {A!r} -> {A_cyc!r}", {**inp, "shift": k}, None, tags={"cause": "cyclic"}, size=n)
        if abs(A_rot - A) > max(tol, 1e-9) * (1 + A) * 10:
            ctx.fail("spherical.SphPolygon.area", f"area changes under a rotation of the sphere: {A!r} -> {A_rot!r}", {**inp, "rotation": Rm.tolist()}, None, tags={"cause": "rotation", "place": place}, size=n)
        if abs(A_rad - A * rad ** 2) > 1e-12 * rad ** 2 * (1 + A) + 1e-9 * A * rad ** 2:
            ctx.fail("spherical.SphPolygon.area", f"radius {rad}: area {A_rad!r} is not radius^2 x {A!r}", {**inp, "radius": rad}, None, tags={"cause": "radius"}, size=n)
        if abs(A + A_inv - 4 * math.pi) > 1e-9:
            ctx.fail("spherical.SphPolygon.inverse", f"area(P) + area(inverse P) = {A + A_inv!r}, not 4 pi", inp, None, tags={"cause": "inverse"}, size=n)
        # 2b. the same polygon handed over as a float32 vertex array (e.g. the contour of a float32 swath): the polygon IS the rounded one
        ll32 = ll.astype(np.float32)
        V32 = ll2v(ll32[:, 0].astype(np.float64), ll32[:, 1].astype(np.float64))
        if size >= 0.02:
            from pyresample.spherical import SphPolygon
            with warnings.catch_warnings(), np.errstate(all="ignore"):
                warnings.simplefilter("ignore")
                A32 = float(SphPolygon(ll32.copy()).area())
            ref32 = area_ref(V32)
            if abs(A32 - ref32) > 1e-9 * (1 + ref32):
                ctx.fail("spherical.SphPolygon.area", f"float32 vertex array: area() = {A32!r} but the polygon with exactly these (rounded) vertices encloses {ref32!r}",
                         {**inp, "dtype": "float32"}, None, tags={"cause": "float32-vertices"}, size=n)
            ctx.count("area.float32")
        # 3. split along a diagonal (convex polygons: every diagonal is inside)
        if kind == "convex" and n >= 4:
            k = rng.randint(2, n - 2)
            P1, P2 = V[:k + 1], np.vstack([V[k:], V[:1]])
            with warnings.catch_warnings(), np.errstate(all="ignore"):
                warnings.simplefilter("ignore")
                A1, A2 = float(_sph(P1).area()), float(_sph(P2).area())
            if abs(A1 + A2 - A) > max(tol, 1e-9) * (1 + A) * 10:
                ctx.fail("spherical.SphPolygon.area", f"split along the diagonal 0-{k}: {A1!r} + {A2!r} != {A!r}", {**inp, "diagonal": k}, None, tags={"cause": "additivity"}, size=n)
            ctx.count("area.split")


def _pair(rng, relation):
    place, centre = rng.choice(PLACES)
    n1, n2 = rng.randint(3, 8), rng.randint(3, 8)
    s1 = rng.choice([0.05, 0.3, 0.8, 1.25])            # (1.25 rad: two such polygons can have a union larger than a hemisphere)
    if s1 > 1.0:
        n1, n2 = rng.randint(8, 12), rng.randint(8, 12)
    c1 = ll2v(*centre)
    A = make_polygon(rng, "convex", n1, s1, centre)
    if relation == "overlap":
        s2 = min(1.3, s1 * rng.uniform(0.6, 1.4))
        shift = rng.uniform(0.4, 1.3) * max(s1, s2)
    elif relation == "far":
        # disjoint and far apart (the other side of the globe)
        s1 = rng.choice([0.05, 0.3])
        A = make_polygon(rng, "convex", n1, s1, centre)
        s2 = s1 * rng.uniform(0.5, 1.5)
        shift = rng.uniform(2.0, 3.1)
    elif relation == "disjoint":
        s2 = s1 * rng.uniform(0.5, 1.2)
        shift = min(3.0, (s1 + s2) * rng.uniform(1.3, 2.0))
    else:   # nested: B well inside A
        s2 = s1 * rng.uniform(0.15, 0.4)
        shift = s1 * rng.uniform(0.0, 0.2)
    Rm = rot(rng)
    axis = np.cross(c1, Rm[0])
    axis /= np.linalg.norm(axis)
    # rotate the centre by `shift` about `axis`
    c2 = c1 * math.cos(shift) + np.cross(axis, c1) * math.sin(shift) + axis * np.dot(axis, c1) * (1 - math.cos(shift))
    ll2 = v2ll(c2)
    B = make_polygon(rng, "convex", n2, min(s2, 1.3), (float(ll2[0]), float(ll2[1])))
    return place, A, B


def _shallow_pair(rng):
    """two convex polygons one of whose edge pairs crosses at a very small angle (0.05 - 0.2 degrees), both edges heading the same way;
    every vertex stays more than 5e-5 rad away from the other polygon's boundary"""
    place, centre = rng.choice(PLACES)
    A = make_polygon(rng, "convex", rng.randint(4, 7), 0.3, centre)
    i = rng.randrange(len(A))
    P, Q = A[i], A[(i + 1) % len(A)]
    f = rng.uniform(0.35, 0.65)
    M = P * (1 - f) + Q * f
    M /= np.linalg.norm(M)
    nrm = np.cross(P, Q)
    t = np.cross(nrm, M)
    t /= np.linalg.norm(t)
    eps = math.radians(rng.choice([0.05, 0.1, 0.2])) * rng.choice([-1, 1])
    t2 = t * math.cos(eps) + np.cross(M, t) * math.sin(eps)
    right = np.cross(t2, M)
    half, depth = rng.uniform(0.2, 0.3), rng.uniform(0.2, 0.35)
    B0 = M * math.cos(half) - t2 * math.sin(half)
    B1 = M * math.cos(half) + t2 * math.sin(half)
    B2 = B1 * math.cos(depth) + right * math.sin(depth)
    B3 = B0 * math.cos(depth) + right * math.sin(depth)
    B = np.array([v / np.linalg.norm(v) for v in (B0, B1, B2, B3)])
    return place, A, B


def suite_setops(ctx):
    rng = ctx.rng
    n_cases = 60 if ctx.quick else 500
    done = 0
    attempts = 0
    while done < n_cases and attempts < n_cases * 20:
        attempts += 1
        relation = rng.choice(["overlap", "overlap", "overlap", "disjoint", "nested", "shallow", "far"])
        place, VA, VB = _shallow_pair(rng) if relation == "shallow" else _pair(rng, relation)
        if not (is_convex_cw(VA) and is_convex_cw(VB)):
            continue
        # general position
        if min(min_boundary_distance(VA, VB), min_boundary_distance(VB, VA)) < (5e-5 if relation == "shallow" else 1e-3):
            continue
        if relation == "shallow":
            ctx.count("setops.shallow_crossing")
        a_in_b = [inside_convex(a, VB) for a in VA]
        b_in_a = [inside_convex(b, VA) for b in VB]
        ref_inter = clip_area(VA, VB)
        true_rel = ("nested-b-in-a" if all(b_in_a) and not any(a_in_b) and abs(ref_inter - area_ref(VB)) < 1e-9 else
                    "nested-a-in-b" if all(a_in_b) and not any(b_in_a) and abs(ref_inter - area_ref(VA)) < 1e-9 else
                    "disjoint" if ref_inter == 0.0 and not any(a_in_b) and not any(b_in_a) else
                    "overlap" if ref_inter > 1e-9 else "unclear")
        if true_rel == "unclear":
            continue
        done += 1
        radius = rng.choice([1, 1, 6371.0])
        inp = {"place": place, "relation": true_rel, "radius": radius, "A_lonlat_rad": v2ll(VA).tolist(), "B_lonlat_rad": v2ll(VB).tolist()}
        r2 = radius ** 2
        ctx.case("setops", (v2ll(VA).tobytes(), v2ll(VB).tobytes(), radius), nontrivial=true_rel == "overlap", sample={"place": place, "relation": true_rel})
        ctx.count(f"setops.relation.{true_rel}")
        ctx.count(f"setops.place.{place}")
        res = {}
        crashed = None
        for name, fn in (("A&B", lambda a, b: a.intersection(b)), ("B&A", lambda a, b: b.intersection(a)), ("A|B", lambda a, b: a.union(b)), ("B|A", lambda a, b: b.union(a))):
            try:
                with warnings.catch_warnings(), np.errstate(all="ignore"):
                    warnings.simplefilter("ignore")
                    r = fn(_sph(VA, radius), _sph(VB, radius))
                    res[name] = None if r is None else float(r.area())
            except Exception as e:  # noqa
                crashed = (name, f"{type(e).__name__}: {e}")
                break
        aA, aB = area_ref(VA) * r2, area_ref(VB) * r2
        tol = 1e-7 * (aA + aB)
        tags0 = {"relation": true_rel}
        if crashed:
            ctx.fail("spherical.SphPolygon._bool_oper", f"{crashed[0]} of two convex polygons in general position ({true_rel}) raised {crashed[1]}", inp, None,
                     tags={**tags0, "cause": "exception"}, size=len(VA) + len(VB))
            continue
        if true_rel == "disjoint":
            if res["A&B"] is not None or res["B&A"] is not None:
                ctx.fail("spherical.SphPolygon.intersection", f"disjoint polygons have an intersection of area {res['A&B']} / {res['B&A']}", inp, res, tags={**tags0, "cause": "disjoint-intersection"}, size=len(VA) + len(VB))
            continue
        exp_i, exp_u = ref_inter * r2, aA + aB - ref_inter * r2
        bad = []
        if res["A&B"] is None or res["B&A"] is None:
            bad.append(f"no intersection returned ({res['A&B']}, {res['B&A']}) although the polygons share an area of {exp_i:.6g}")
        else:
            if abs(res["A&B"] - res["B&A"]) > tol:
                bad.append(f"intersection not commutative in area: {res['A&B']!r} vs {res['B&A']!r}")
            if res["A&B"] > min(aA, aB) + tol:
                bad.append(f"area(A & B) = {res['A&B']!r} exceeds min(area A, area B) = {min(aA, aB)!r}")
            if abs(res["A&B"] - exp_i) > tol:
                bad.append(f"area(A & B) = {res['A&B']!r}, independent clipping gives {exp_i!r}")
        if res["A|B"] is None or res["B|A"] is None:
            bad.append(f"no union returned ({res['A|B']}, {res['B|A']})")
        else:
            if abs(res["A|B"] - res["B|A"]) > tol:
                bad.append(f"union not commutative in area: {res['A|B']!r} vs {res['B|A']!r}")
            if res["A&B"] is not None and abs(res["A|B"] - (aA + aB - res["A&B"])) > tol:
                bad.append(f"area(A | B) = {res['A|B']!r} but area A + area B - area(A & B) = {aA + aB - res['A&B']!r}")
            if abs(res["A|B"] - exp_u) > tol:
                bad.append(f"area(A | B) = {res['A|B']!r}, expected {exp_u!r}")
        if true_rel.startswith("nested") and res["A&B"] is not None:
            inner = aB if true_rel == "nested-b-in-a" else aA
            if abs(res["A&B"] - inner) > tol:
                bad.append(f"contained polygon is not its own intersection: {res['A&B']!r} vs {inner!r}")
        if bad:
            ctx.fail("spherical.SphPolygon._bool_oper", f"{true_rel} pair at {place} (radius {radius}): " + "; ".join(bad[:3]), inp, res,
                     tags={**tags0, "cause": "law"}, size=len(VA) + len(VB))


def suite_far_disjoint(ctx):
    """many pairs of small polygons far apart (up to the antipodes): no intersection and, by the library's convention, no union"""
    rng = ctx.rng
    n_pairs = 200 if ctx.quick else 2000
    for _ in range(n_pairs):
        place, VA, VB = _pair(rng, "far")
        if rng.random() < 0.6:
            # the containment test of the library shoots a ray along the great circle of a polygon's FIRST edge: put the other polygon on it
            nrm = np.cross(VA[0], VA[1])
            nrm /= np.linalg.norm(nrm)
            t = np.cross(nrm, VA[0])
            th = rng.uniform(2.0, 3.1) * rng.choice([-1, 1])
            cB = VA[0] * math.cos(th) + t * math.sin(th)
            llB = v2ll(cB)
            VB = make_polygon(rng, "convex", rng.randint(3, 8), rng.choice([0.05, 0.15, 0.3]), (float(llB[0]), float(llB[1])))
            VB = np.roll(VB, rng.randrange(len(VB)), axis=0)
            if rng.random() < 0.5:
                VA, VB = VB, VA
            ctx.count("setops.far_disjoint.on_first_edge_circle")
        if not (is_convex_cw(VA) and is_convex_cw(VB)):
            continue
        if clip_area(VA, VB) != 0.0 or any(inside_convex(a, VB) for a in VA) or any(inside_convex(b, VA) for b in VB) or min(min_boundary_distance(VA, VB), min_boundary_distance(VB, VA)) < 0.5:
            continue
        inp = {"place": place, "relation": "far-disjoint", "A_lonlat_rad": v2ll(VA).tolist(), "B_lonlat_rad": v2ll(VB).tolist()}
        ctx.case("far-disjoint", (v2ll(VA).tobytes(), v2ll(VB).tobytes()), nontrivial=True)
        ctx.count("setops.far_disjoint")
        try:
            with warnings.catch_warnings(), np.errstate(all="ignore"):
                warnings.simplefilter("ignore")
                a, b = _sph(VA), _sph(VB)
                res = {"A&B": a.intersection(b), "B&A": b.intersection(a), "A|B": a.union(b), "B|A": b.union(a)}
        except Exception as e:  # noqa
            ctx.fail("spherical.SphPolygon._bool_oper", f"set operation on two far-apart polygons raised {type(e).__name__}: {e}", inp, None, tags={"relation": "far-disjoint", "cause": "exception"}, size=len(VA) + len(VB))
            continue
        got = {k: (None if v is None else float(v.area())) for k, v in res.items()}
        if any(v is not None for v in got.values()):
            ctx.fail("spherical.SphPolygon.intersection", f"polygons far apart (nearest boundary points more than 0.5 rad apart) at {place}: " +
                     ", ".join(f"{k} has area {v:.6g}" for k, v in got.items() if v is not None) + " instead of no result", inp, got,
                     tags={"relation": "far-disjoint", "cause": "law"}, size=len(VA) + len(VB))


# -----------------------------------------------------------------------------------------------------------------------
# small polygons and thin overlaps: the laws do not depend on the size of the polygons
# -----------------------------------------------------------------------------------------------------------------------

def gnomonic(V, c):
    """central projection onto the plane tangent at c: great-circle arcs become straight segments"""
    ref = np.array([0.0, 0.0, 1.0]) if abs(c[2]) < 0.9 else np.array([1.0, 0.0, 0.0])
    e1 = np.cross(ref, c)
    e1 /= np.linalg.norm(e1)
    e2 = np.cross(c, e1)
    d = V @ c
    return np.stack([(V @ e1) / d, (V @ e2) / d], -1)


def area_planar(V):
    """area of a SMALL clockwise polygon (< 1e-3 rad across): shoelace formula in the gnomonic plane at its centroid (relative error
    of the order of size^2; unlike an angle sum it loses nothing to cancellation when the polygon is tiny)"""
    c = V.mean(axis=0)
    c /= np.linalg.norm(c)
    P = gnomonic(V, c)
    x, y = P[:, 0], P[:, 1]
    return -0.5 * float(np.sum(x * np.roll(y, -1) - np.roll(x, -1) * y))


def clip_vertices(VA, VB):
    """vertices of the intersection of two convex clockwise polygons (A clipped by the half-spaces of B's edges), or None"""
    poly = [v for v in VA]
    n = len(VB)
    for i in range(n):
        p, q = VB[i], VB[(i + 1) % n]
        nrm = np.cross(q, p)
        nrm /= np.linalg.norm(nrm)
        new = []
        for k in range(len(poly)):
            cur, nxt = poly[k], poly[(k + 1) % len(poly)]
            dc, dn = np.dot(nrm, cur), np.dot(nrm, nxt)
            if dc >= 0:
                new.append(cur)
            if (dc >= 0) != (dn >= 0):
                x = np.cross(np.cross(cur, nxt), nrm)
                x /= np.linalg.norm(x)
                if np.dot(x, cur + nxt) < 0:
                    x = -x
                new.append(x)
        poly = new
        if len(poly) < 3:
            return None
    return np.array(poly)


def point_resolution(*Vs):
    """The library compares points with np.allclose on (lon, lat) in radians (SCoordinate.__eq__: |d| <= 1e-8 + 1e-5 |value|): two
    points closer than this (angular distance) can be taken for one and the same.  'General position' has to mean: further apart."""
    ll = np.vstack([v2ll(V) for V in Vs])
    t_lat = 1e-8 + 1e-5 * float(np.abs(ll[:, 1]).max())
    t_lon = (1e-8 + 1e-5 * float(np.abs(ll[:, 0]).max())) * math.cos(float(np.abs(ll[:, 1]).min()))
    return math.hypot(t_lat, t_lon)


def min_separation(P):
    d = np.linalg.norm(P[:, None, :] - P[None, :, :], axis=-1)
    d[np.diag_indices(len(P))] = 9.0
    return float(d.min())


SMALL_PLACES = PLACES + [("greenwich-equator", (0.02, 0.01)), ("greenwich-mid-lat", (-0.03, 0.7))]


def _move(rng, c1, shift):
    Rm = rot(rng)
    axis = np.cross(c1, Rm[0])
    axis /= np.linalg.norm(axis)
    c2 = c1 * math.cos(shift) + np.cross(axis, c1) * math.sin(shift) + axis * np.dot(axis, c1) * (1 - math.cos(shift))
    ll2 = v2ll(c2)
    return float(ll2[0]), float(ll2[1])


def _small_pair(rng, relation):
    """two convex polygons 2e-5 .. 6e-4 rad across (log-uniform; not smaller than what the library's point comparison can resolve there)"""
    place, centre = rng.choice(SMALL_PLACES)
    res = point_resolution(make_polygon(rng, "convex", 4, 3e-4, centre))
    lo = min(3e-4, max(1e-5, 6 * res))
    s1 = math.exp(rng.uniform(math.log(lo), math.log(3e-4)))
    n1, n2 = rng.randint(3, 8), rng.randint(3, 8)
    A = make_polygon(rng, "convex", n1, s1, centre)
    if relation == "overlap":
        s2 = min(3e-4, s1 * rng.uniform(0.6, 1.4))
        shift = rng.uniform(0.4, 1.3) * max(s1, s2)
    elif relation == "disjoint":
        s2 = min(3e-4, s1 * rng.uniform(0.5, 1.2))
        shift = (s1 + s2) * rng.uniform(1.2, 2.0)
    else:
        s2 = s1 * rng.uniform(0.2, 0.45)
        shift = s1 * rng.uniform(0.0, 0.2)
    B = make_polygon(rng, "convex", n2, s2, _move(rng, ll2v(*centre), shift))
    return place, A, B, min(s1, s2)


def _sliver_pair(rng):
    """two big convex polygons that share only a thin sliver: one corner of B reaches 4e-5 .. 2e-4 rad across an edge of A"""
    place, centre = rng.choice(PLACES)
    c = ll2v(*centre)
    A = make_polygon(rng, "convex", rng.randint(4, 8), rng.choice([0.1, 0.3, 0.6]), centre)
    i = rng.randrange(len(A))
    P, Q = A[i], A[(i + 1) % len(A)]
    f = rng.uniform(0.3, 0.7)
    M = P * (1 - f) + Q * f
    M /= np.linalg.norm(M)
    n_in = np.cross(Q, P)
    n_in /= np.linalg.norm(n_in)                     # the inside of a clockwise polygon is where n_in . x > 0
    depth = math.exp(rng.uniform(math.log(4e-5), math.log(2e-4)))
    T = M * math.cos(depth) + n_in * math.sin(depth)
    B0 = make_polygon(rng, "convex", rng.randint(3, 7), rng.choice([0.05, 0.2, 0.4]), centre)
    # rigid motion that puts B0's first vertex on T, with B0's centre on the outer side of A's edge
    b = B0[0]
    t1 = c - np.dot(c, b) * b
    t1 /= np.linalg.norm(t1)
    out = -n_in + np.dot(n_in, T) * T
    out /= np.linalg.norm(out)
    phi = rng.uniform(-0.3, 0.3)
    out = out * math.cos(phi) + np.cross(T, out) * math.sin(phi)
    R = np.outer(T, b) + np.outer(out, t1) + np.outer(np.cross(T, out), np.cross(b, t1))
    B = B0 @ R.T
    B = B / np.linalg.norm(B, axis=1, keepdims=True)
    B = np.roll(B, rng.randrange(len(B)), axis=0)
    return place, A, B, depth


def _first_edge_circle_distance(VX, VY):
    """smallest angular distance of a vertex of Y to the great circle through the first edge of X"""
    nrm = np.cross(VX[0], VX[1])
    nrm /= np.linalg.norm(nrm)
    return float(np.abs(np.arcsin(np.clip(VY @ nrm, -1, 1))).min())


class _Timeout(Exception):
    pass


def _with_alarm(seconds, fn):
    """run fn(); a set operation that does not come back is a failure, not a reason to hang the check"""
    import signal
    import threading
    if threading.current_thread() is not threading.main_thread():
        return fn()

    def handler(signum, frame):
        raise _Timeout()
    old = signal.signal(signal.SIGALRM, handler)
    signal.setitimer(signal.ITIMER_REAL, seconds)
    try:
        return fn()
    finally:
        signal.setitimer(signal.ITIMER_REAL, 0)
        signal.signal(signal.SIGALRM, old)


def suite_small_setops(ctx):
    """the set-operation laws for pairs whose common part is tiny (far below 1e-7 sr on the unit sphere): polygons the size of a pixel
    footprint, and big polygons that overlap in a thin sliver.  Tolerances follow the size of the polygons."""
    rng = ctx.rng
    n_cases = 45 if ctx.quick else 400
    done = attempts = 0
    while done < n_cases and attempts < n_cases * 40:
        attempts += 1
        family = rng.choice(["small", "small", "sliver"])
        if family == "small":
            relation = rng.choice(["overlap", "overlap", "nested", "disjoint"])
            place, VA, VB, smin = _small_pair(rng, relation)
        else:
            place, VA, VB, smin = _sliver_pair(rng)
        if not (is_convex_cw(VA) and is_convex_cw(VB)):
            continue
        res = point_resolution(VA, VB)
        margin = max(1e-6, 2 * res)                     # the property's general position, and what the library can tell apart
        if min(min_boundary_distance(VA, VB), min_boundary_distance(VB, VA)) < margin:
            continue
        VI = clip_vertices(VA, VB)
        a_in_b = [inside_convex(a, VB) for a in VA]
        b_in_a = [inside_convex(b, VA) for b in VB]
        nodes = [v for v in VA] + [v for v in VB]
        for v in (VI if VI is not None else []):
            if not any(np.linalg.norm(v - u) < 1e-13 for u in nodes):
                nodes.append(v)
        if min_separation(np.array(nodes)) < 2 * res:
            continue
        # ... and no vertex within that resolution of the great circle through the other polygon's first edge: the library decides
        # containment by looking along that circle, and a crossing it cannot tell from an edge's end point is dropped
        if min(_first_edge_circle_distance(VA, VB), _first_edge_circle_distance(VB, VA)) < 2 * res:
            ctx.count("setops.small.skipped.vertex_on_first_edge_circle")
            continue
        small = family == "small"
        aA = area_planar(VA) if small else area_ref(VA)
        aB = area_planar(VB) if small else area_ref(VB)
        ref_inter = 0.0 if VI is None else area_planar(VI)
        true_rel = ("nested-b-in-a" if all(b_in_a) and not any(a_in_b) and abs(ref_inter - aB) <= 1e-6 * aB else
                    "nested-a-in-b" if all(a_in_b) and not any(b_in_a) and abs(ref_inter - aA) <= 1e-6 * aA else
                    "disjoint" if VI is None and not any(a_in_b) and not any(b_in_a) else
                    "overlap" if VI is not None and ref_inter > 1e-3 * min(aA, aB) * (1 if small else 0) + 1e-12 else "unclear")
        if true_rel == "unclear" or (family == "sliver" and (true_rel != "overlap" or ref_inter > 3e-7)):
            continue
        done += 1
        radius = rng.choice([1, 1, 1, 0.5, 6371.0])
        r2 = radius ** 2
        inp = {"family": family, "place": place, "relation": true_rel, "radius": radius, "smallest_polygon_radius_rad" if small else "sliver_depth_rad": smin,
               "common_area_unit_sphere": ref_inter, "A_lonlat_rad": v2ll(VA).tolist(), "B_lonlat_rad": v2ll(VB).tolist()}
        ctx.case("setops.small", (v2ll(VA).tobytes(), v2ll(VB).tobytes(), radius), nontrivial=true_rel != "disjoint",
                 sample={"family": family, "place": place, "relation": true_rel, "common_area_unit_sphere": ref_inter})
        ctx.count(f"setops.small.{family}.{true_rel}")
        ctx.count("setops.small.common_area." + ("below_1e-7" if 0 < ref_inter * r2 < 1e-7 else "zero" if ref_inter == 0 else "above_1e-7"))
        res_, polys, crashed = {}, {}, None
        for name, fn in (("A&B", lambda a, b: a.intersection(b)), ("B&A", lambda a, b: b.intersection(a)), ("A|B", lambda a, b: a.union(b)), ("B|A", lambda a, b: b.union(a))):
            try:
                with warnings.catch_warnings(), np.errstate(all="ignore"):
                    warnings.simplefilter("ignore")
                    r = _with_alarm(20.0, lambda: fn(_sph(VA, radius), _sph(VB, radius)))
                    polys[name] = r
                    res_[name] = None if r is None else float(r.area())
            except _Timeout:
                crashed = (name, "did not return within 20 s")
                break
            except Exception as e:  # noqa
                crashed = (name, f"raised {type(e).__name__}: {e}")
                break
        tags0 = {"relation": true_rel, "family": family}
        if crashed:
            ctx.fail("spherical.SphPolygon._bool_oper", f"{crashed[0]} of two convex polygons in general position ({family}, {true_rel}) {crashed[1]}", inp, None,
                     tags={**tags0, "cause": "exception"}, size=len(VA) + len(VB))
            continue
        if true_rel == "disjoint":
            if res_["A&B"] is not None or res_["B&A"] is not None:
                ctx.fail("spherical.SphPolygon.intersection", f"disjoint small polygons have an intersection of area {res_['A&B']} / {res_['B&A']}", inp, res_,
                         tags={**tags0, "cause": "disjoint-intersection"}, size=len(VA) + len(VB))
            continue
        # area() of a polygon with edges of length s carries an absolute error of a few 1e-16 / s (measured: < 4e-16 / s): allow 5e-15 / s
        with warnings.catch_warnings(), np.errstate(all="ignore"):
            warnings.simplefilter("ignore")
            lA, lB = float(_sph(VA, radius).area()), float(_sph(VB, radius).area())
        tol = (1e-6 * min(aA, aB) + 5e-15 / smin) * r2 if small else (1e-3 * ref_inter + 1e-12) * r2
        exp_i, exp_u = ref_inter * r2, (aA + aB - ref_inter) * r2
        bad = []
        if res_["A&B"] is None or res_["B&A"] is None:
            bad.append(f"no intersection returned (A&B: {res_['A&B']}, B&A: {res_['B&A']}) although the polygons share an area of {exp_i:.6g}")
        else:
            if abs(res_["A&B"] - res_["B&A"]) > tol:
                bad.append(f"intersection not commutative in area: {res_['A&B']!r} vs {res_['B&A']!r}")
            if res_["A&B"] > min(lA, lB) + tol:
                bad.append(f"area(A & B) = {res_['A&B']!r} exceeds min(area A, area B) = {min(lA, lB)!r}")
            if abs(res_["A&B"] - exp_i) > tol:
                bad.append(f"area(A & B) = {res_['A&B']!r}, independent clipping gives {exp_i!r}")
        if res_["A|B"] is None or res_["B|A"] is None:
            bad.append(f"no union returned ({res_['A|B']}, {res_['B|A']})")
        else:
            if abs(res_["A|B"] - res_["B|A"]) > tol:
                bad.append(f"union not commutative in area: {res_['A|B']!r} vs {res_['B|A']!r}")
            i_lib = res_["A&B"] if res_["A&B"] is not None else 0.0
            if abs(res_["A|B"] - (lA + lB - i_lib)) > tol:
                bad.append(f"area(A | B) = {res_['A|B']!r} but area A + area B - area(A & B) = {lA + lB - i_lib!r}"
                           + (" (no intersection returned: counted as 0)" if res_["A&B"] is None else ""))
            if abs(res_["A|B"] - exp_u) > tol + 1e-9 * exp_u:
                bad.append(f"area(A | B) = {res_['A|B']!r}, expected {exp_u!r}")
        if true_rel.startswith("nested"):
            Vin, l_in = (VB, lB) if true_rel == "nested-b-in-a" else (VA, lA)
            for name in ("A&B", "B&A"):
                r = polys[name]
                if r is None:
                    continue
                if abs(res_[name] - l_in) > tol:
                    bad.append(f"contained polygon is not its own intersection ({name}): area {res_[name]!r} vs {l_in!r}")
                else:
                    got, want = np.asarray(r.vertices, float), v2ll(Vin)
                    dlon = np.abs(got[:, None, 0] - want[None, :, 0]) % (2 * math.pi)
                    same = (np.minimum(dlon, 2 * math.pi - dlon) < 1e-12) & (np.abs(got[:, None, 1] - want[None, :, 1]) < 1e-12)
                    if got.shape != want.shape or not (same.any(axis=1).all() and same.any(axis=0).all()):
                        bad.append(f"{name} of a contained polygon does not have the contained polygon's vertices")
        if bad:
            ctx.fail("spherical.SphPolygon._bool_oper" if res_["A&B"] is not None and res_["B&A"] is not None else "spherical.SphPolygon.intersection",
                     f"{family} pair, {true_rel}, at {place} (radius {radius}, common area {exp_i:.4g}): " + "; ".join(bad[:3]), inp, res_,
                     tags={**tags0, "cause": "law"}, size=len(VA) + len(VB))


def suite_area_sequences(ctx):
    """area laws along call sequences on ONE polygon object, on spheres of any radius: area(); invert(); area() - the in-place inverse
    must be the complement on that sphere, equal to inverse() and to a polygon freshly built from the reversed vertices; earlier
    requests (area, set operations, invert twice) do not change what area() returns"""
    from pyresample.spherical import SphPolygon
    rng = ctx.rng
    n_cases = 60 if ctx.quick else 500
    for it in range(n_cases):
        place, centre = rng.choice(PLACES)
        kind = rng.choice(["convex", "star"])
        n = rng.randint(3, 12)
        size = rng.choice([0.02, 0.2, 0.7, 1.2])
        V = make_polygon(rng, kind, n, size, centre)
        ll = v2ll(V)
        radius = rng.choice([1, 0.5, 2.0, 100.0, 6371.0, rng.uniform(0.1, 7000.0)])
        r2 = radius ** 2
        sphere = 4 * math.pi * r2
        tol = 1e-9 * sphere
        ref = area_ref(V, radius)
        history = rng.choice(["area", "area", "area-twice", "set-operation", "invert-twice", "none"])
        inp = {"place": place, "kind": kind, "n": n, "size": size, "radius": radius, "calls_before_invert": history, "vertices_lonlat_rad": ll.tolist()}
        ctx.case("area.sequence", (ll.tobytes(), radius, history), nontrivial=radius != 1 and history != "none",
                 sample={"place": place, "kind": kind, "n": n, "radius": radius, "history": history})
        ctx.count(f"area.sequence.history.{history}")
        ctx.count("area.sequence.radius." + ("unit" if radius == 1 else "other"))
        try:
            with warnings.catch_warnings(), np.errstate(all="ignore"):
                warnings.simplefilter("ignore")
                P = SphPolygon(ll.copy(), radius=radius)
                a1 = None
                if history in ("area", "area-twice"):
                    a1 = float(P.area())
                    if history == "area-twice":
                        a1 = float(P.area())
                elif history == "set-operation":
                    # containment tests fall back on area() internally
                    other = make_polygon(rng, "convex", 5, 0.1, _move(rng, ll2v(*centre), rng.uniform(1.8, 2.6)))
                    Q = SphPolygon(v2ll(other).copy(), radius=radius)
                    P.intersection(Q), Q.intersection(P), P.union(Q)
                elif history == "invert-twice":
                    a1 = float(P.area())
                    P.invert()
                    P.area()
                    P.invert()
                P.invert()
                a2 = float(P.area())
                a_inverse = float(SphPolygon(ll.copy(), radius=radius).inverse().area())
                a_fresh = float(SphPolygon(ll[::-1].copy(), radius=radius).area())
                P.invert()
                a3 = float(P.area())
        except Exception as e:  # noqa
            ctx.fail("spherical.SphPolygon.invert", f"area / invert sequence raised {type(e).__name__}: {e}", inp, None, tags={"cause": "exception"}, size=n)
            continue
        obs = {"area_before": a1, "area_after_invert": a2, "inverse()": a_inverse, "fresh_reversed": a_fresh, "after_second_invert": a3, "sphere": sphere,
               "independent_area": ref}
        bad = []
        if a1 is not None and abs(a1 - ref) > tol:
            bad.append(f"area() = {a1!r}, angle sum of the interior angles gives {ref!r}")
        if abs(a2 - (sphere - ref)) > tol:
            bad.append(f"area(P) + area(P after invert()) = {ref + a2!r} (area after invert() {a2!r}), the sphere of radius {radius} has {sphere!r}")
        if abs(a2 - a_inverse) > tol:
            bad.append(f"invert() and inverse() disagree: {a2!r} vs {a_inverse!r}")
        if abs(a2 - a_fresh) > tol:
            bad.append(f"area after invert() {a2!r}, the same reversed vertices built afresh give {a_fresh!r}")
        if abs(a3 - ref) > tol:
            bad.append(f"invert() twice does not restore the area: {a3!r} vs {ref!r}")
        if bad:
            ctx.fail("spherical.SphPolygon.invert", f"{kind} polygon with {n} vertices at {place}, radius {radius}, after {history}: " + "; ".join(bad[:3]), inp, obs,
                     tags={"cause": "invert-sequence", "history": history, "unit_radius": radius == 1}, size=n)


def suite_dispatch(ctx):
    """the no-crossing branch of the real _bool_oper (edges that cross nothing, stubbed containment tests) vs the model's decision table"""
    from pyresample.spherical import SphPolygon

    class NoCrossArc:
        end = None

        def get_next_intersection(self, arcs, known_inter=None):
            return None, None

    class Stub(SphPolygon):
        def __init__(self, name, inside):
            self.name, self._inside = name, inside
            self.radius = 1

        def aedges(self):
            return iter([NoCrossArc()])

        def _is_inside(self, other):
            return self._inside

    for self_in_other in (False, True):
        for other_in_self in (False, True):
            for sign in (1, -1):
                a, b = Stub("self", self_in_other), Stub("other", other_in_self)
                got = a._bool_oper(b, sign)
                rep = ctx.M.ask("dispatch", sign, self_in_other, other_in_self)
                ctx.case("dispatch", (self_in_other, other_in_self, sign), nontrivial=True)
                name = "none" if got is None else got.name
                if name != rep:
                    ctx.disagree("dispatch", {"self_in_other": self_in_other, "other_in_self": other_in_self, "sign": sign}, name, rep, "decision table differs")


def run(ctx):
    import traceback
    for suite in (suite_area, suite_setops, suite_far_disjoint, suite_dispatch, suite_small_setops, suite_area_sequences):
        try:
            suite(ctx)
        except Exception as e:  # noqa
            from core import Infra
            if isinstance(e, Infra):
                raise
            ctx.disagree(suite.__name__, {"exception": f"{type(e).__name__}: {e}"}, "exception while driving the real code", "no exception",
                         note=traceback.format_exc()[-1200:])
