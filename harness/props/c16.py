"""C16 — a geometry's boundary is a closed, clockwise ring of its own edge pixels."""
import math
import warnings

import numpy as np

from . import kdcommon as kc

META = {
    "rule": "one case = (geometry, orientation, vertices_per_side). Index level: every shape H,W in 2..20(40) x vertices_per_side in "
            "None, 2..max(H,W)+5 through _get_bbox_slices (model decides goodness, contour, reversal). Geometry level: areas (laea, "
            "stere, merc, eqc, longlat; north-up and flipped in x / y / both) and synthetic swaths (8 orientations: flips and "
            "transposes of ascending / descending passes), vertices_per_side in None, 2, 3, 5, side, side+3, 50: sides chain, ring "
            "closed, vertices are edge pixels, no repeats, clockwise footprint (own spherical-area and point-in-polygon oracle). "
            "Geostationary: full disk and sub-areas. Non-trivial: vertices_per_side given, or orientation not north-up. "
            "Distinct = distinct canonical input. appended: swaths put together from 2-4 granules with append() (in place; with and without "
            "boundary requests in between), concatenate() or directly, 8 orientations: the ring is judged against the CURRENT arrays (sides chain, "
            "begin at the four corner pixels, advance monotonically along one outer row / column, vertex counts, no repeats, boundary() = the same "
            "ring, clockwise footprint). call-sequence: swaths and areas of every orientation after 1-3 earlier requests on the same object "
            "(plain outline, other vertex counts, the same request): the same judgement, and the plain outline asked afterwards is still in array order.",
    "assumptions": ["footprint / orientation clauses are floating-point spherical geometry: decided by an independent oracle, not proved",
                    "np.linspace(..., dtype=int) selections are data for the model (their goodness is decided by the model per case)"],
}


# ---------------------------------------------------------------------------------------------
# independent spherical helpers
# ---------------------------------------------------------------------------------------------

def _unit(lon, lat):
    lo, la = np.radians(lon), np.radians(lat)
    return np.stack([np.cos(la) * np.cos(lo), np.cos(la) * np.sin(lo), np.sin(la)], axis=-1)


def _signed_area(lons, lats):
    """signed area (unit sphere) of the polygon: fan of signed triangle excesses from the centroid.
    positive = counter-clockwise seen from outside the sphere."""
    v = _unit(np.asarray(lons, float), np.asarray(lats, float))
    c = v.mean(axis=0)
    c /= np.linalg.norm(c)
    tot = 0.0
    n = len(v)
    for i in range(n):
        a, b = v[i], v[(i + 1) % n]
        num = np.dot(c, np.cross(a, b))
        den = 1 + np.dot(c, a) + np.dot(a, b) + np.dot(b, c)
        tot += 2 * math.atan2(num, den)
    return tot, c


def _inside(lons, lats, plon, plat):
    """winding-number test in the gnomonic projection centred on the polygon's centroid (footprints < hemisphere)"""
    v = _unit(np.asarray(lons, float), np.asarray(lats, float))
    c = v.mean(axis=0)
    c /= np.linalg.norm(c)
    e1 = np.cross([0, 0, 1.0], c)
    if np.linalg.norm(e1) < 1e-9:
        e1 = np.array([1.0, 0, 0])
    e1 /= np.linalg.norm(e1)
    e2 = np.cross(c, e1)

    def proj(u):
        d = u @ c
        return (u @ e1) / d, (u @ e2) / d
    px, py = proj(v)
    p = _unit(plon, plat)
    if p @ c <= 0 or (v @ c <= 0).any():
        return None
    qx, qy = proj(p)
    wn = 0.0
    n = len(px)
    for i in range(n):
        x1, y1, x2, y2 = px[i] - qx, py[i] - qy, px[(i + 1) % n] - qx, py[(i + 1) % n] - qy
        wn += math.atan2(x1 * y2 - x2 * y1, x1 * x2 + y1 * y2)
    return abs(wn) > math.pi


# ---------------------------------------------------------------------------------------------

def suite_indices(ctx):
    from pyresample.geometry import SwathDefinition
    nmax = 16 if ctx.quick else 40
    for H in range(2, nmax + 1):
        for W in range(2, nmax + 1):
            if ctx.quick and (H * 7 + W * 3) % 5:
                continue
            sw = SwathDefinition(np.zeros((H, W)), np.zeros((H, W)))
            for k in [None] + list(range(2, max(H, W) + 6)):
                sl = sw._get_bbox_slices(k)
                selT, selR, selB, selL = (np.asarray(sl[0][1]).tolist(), np.asarray(sl[1][0]).tolist(),
                                          np.asarray(sl[2][1]).tolist(), np.asarray(sl[3][0]).tolist())
                inp = {"shape": [H, W], "vertices_per_side": k}
                fixed = (sl[0][0] == 0 and sl[1][1] == -1 and sl[2][0] == -1 and sl[3][1] == 0)
                # oracle (model-free): good selections
                def good(sel, n):
                    return sel[0] == 0 and sel[-1] == n - 1 and all(a < b for a, b in zip(sel, sel[1:]))
                if not (fixed and good(selT, W) and good(selR, H) and good(selB[::-1], W) and good(selL[::-1], H)):
                    ctx.fail("BaseDefinition._get_bbox_slices", "side indices are not strictly monotone from one corner to the other "
                             "(repeated or missing corner vertices)", inp, {"top": selT, "right": selR, "bottom": selB, "left": selL},
                             tags={"k_gt_side": k is not None and k > min(H, W)}, size=H + W)
                if ctx.M:
                    rep = ctx.M.ask("ring", H, W, selT, selR, selB, selL)
                    flags, cont, rcont = rep.split(" | ")
                    ring = [(0, c) for c in selT[:-1]] + [(r, W - 1) for r in selR[:-1]] + [(H - 1, c) for c in selB[:-1]] + [(r, 0) for r in selL[:-1]]
                    if [tuple(int(v) for v in t.split(",")) for t in cont.split()] != ring:
                        ctx.disagree("ring", inp, ring, cont)
                    if flags != "1 1 1 1" and k is not None and k <= min(H, W):
                        ctx.disagree("ring.good", inp, "numpy selection", flags)
                ctx.case("indices", (H, W, k), nontrivial=k is not None, sample={"input": inp, "top": selT} if (k == 5 and H == 7) else None)
    ctx.exhaustive["indices"] = f"shapes 2..{nmax} (quick: 1 in 5) x vertices_per_side None, 2..max(H,W)+5"


def _orientations(lon, lat):
    out = []
    for nm, f in (("as_is", lambda a: a), ("flip_rows", lambda a: a[::-1]), ("flip_cols", lambda a: a[:, ::-1]), ("flip_both", lambda a: a[::-1, ::-1]),
                  ("transposed", lambda a: a.T), ("transposed_flip_rows", lambda a: a.T[::-1]), ("transposed_flip_cols", lambda a: a.T[:, ::-1]),
                  ("transposed_flip_both", lambda a: a.T[::-1, ::-1])):
        out.append((nm, np.ascontiguousarray(f(lon)), np.ascontiguousarray(f(lat))))
    return out


def check_geometry(ctx, geo, name, orient, k, is_area):
    H, W = geo.shape
    inp = {"geometry": name, "orientation": orient, "shape": [H, W], "vertices_per_side": k}
    with warnings.catch_warnings():
        warnings.simplefilter("ignore")
        glon, glat = geo.get_lonlats()
    glon, glat = np.asarray(glon, float), np.asarray(glat, float)
    key = {}
    for r in range(H):
        for c in range(W):
            if r in (0, H - 1) or c in (0, W - 1):
                key[(round(float(glon[r, c]), 9), round(float(glat[r, c]), 9))] = (r, c)
    try:
        with warnings.catch_warnings():
            warnings.simplefilter("ignore")
            lon_s, lat_s = geo.get_bbox_lonlats(vertices_per_side=k, force_clockwise=True)
            b = geo.boundary(vertices_per_side=k, force_clockwise=True)
            clon, clat = b.contour()
            elon, elat = geo.get_edge_lonlats(vertices_per_side=k)
            raw_lon, raw_lat = geo.get_bbox_lonlats(vertices_per_side=k, force_clockwise=False)
    except Exception as e:  # noqa
        ctx.fail("BaseDefinition.get_bbox_lonlats", f"raised {type(e).__name__}: {str(e)[:120]}", inp, size=H + W)
        return
    probs = []
    # sides chain and the ring is closed
    for i in range(4):
        a, b_ = (lon_s[i][-1], lat_s[i][-1]), (lon_s[(i + 1) % 4][0], lat_s[(i + 1) % 4][0])
        if not (a[0] == b_[0] and a[1] == b_[1]):
            probs.append(f"side {i} does not end where side {(i + 1) % 4} begins")
            break
    # vertices are the geometry's own edge pixels
    ring_idx = []
    for lo, la in zip(np.concatenate(lon_s), np.concatenate(lat_s)):
        p = key.get((round(float(lo), 9), round(float(la), 9)))
        if p is None:
            probs.append("a boundary vertex is not the coordinate of a pixel on the outer rows / columns")
            break
        ring_idx.append(p)
    # no repeated vertex in the contour
    pts = list(zip(np.round(np.asarray(clon, float), 9), np.round(np.asarray(clat, float), 9)))
    if len(set(pts)) != len(pts):
        probs.append(f"the ring repeats a vertex ({len(pts)} vertices, {len(set(pts))} distinct)")
    # get_edge_lonlats = concatenation of the (unforced) sides
    if not (np.array_equal(np.asarray(elon), np.concatenate(raw_lon)) and np.array_equal(np.asarray(elat), np.concatenate(raw_lat))):
        probs.append("get_edge_lonlats is not the concatenation of the four sides")
    # clockwise footprint
    if not probs and len(pts) >= 3:
        sa, cen = _signed_area(clon, clat)
        with warnings.catch_warnings():
            warnings.simplefilter("ignore")
            area_impl = float(b.contour_poly.area())
        if not (sa < 0):
            probs.append(f"the ring runs counter-clockwise (signed area {sa:.4f}); the enclosed polygon is the complement of the footprint")
        if not (0 < area_impl < 2 * math.pi):
            probs.append(f"enclosed spherical polygon has area {area_impl:.4f} sr, not below a hemisphere")
        elif abs(area_impl - abs(sa)) > 1e-6 * max(1.0, abs(sa)) + 1e-9:
            probs.append(f"SphPolygon area {area_impl:.6f} differs from the footprint area {abs(sa):.6f}")
        ins = _inside(clon, clat, float(glon[H // 2, W // 2]), float(glat[H // 2, W // 2]))
        if ins is False and min(H, W) >= 3:
            probs.append("an interior pixel centre lies outside the ring")
    if probs:
        ctx.fail("BaseDefinition.get_bbox_lonlats", "; ".join(probs[:3]), inp,
                 {"n_vertices": len(pts), "side_lengths": [len(s) for s in lon_s]},
                 tags={"k_gt_side": k is not None and k > min(H, W), "orientation": orient}, size=H + W)
    # projection-coordinate edge (areas)
    if is_area:
        with warnings.catch_warnings():
            warnings.simplefilter("ignore")
            ex, ey = geo.get_edge_bbox_in_projection_coordinates(vertices_per_side=k)
            px, py = geo.get_proj_coords()
        sl = geo._get_bbox_slices(k)
        want_x = np.concatenate([np.atleast_1d(px[s]).ravel() for s in sl])
        want_y = np.concatenate([np.atleast_1d(py[s]).ravel() for s in sl])
        if not (np.array_equal(ex, want_x) and np.array_equal(ey, want_y)):
            ctx.fail("AreaDefinition.get_edge_bbox_in_projection_coordinates", "edge coordinates are not the projection coordinates of the side pixels", inp, size=H + W)
    ctx.case("geometry", (name, orient, H, W, k), nontrivial=k is not None or orient not in ("as_is", "north_up"),
             sample={"input": inp, "n_vertices": len(pts)} if k == 5 else None)


def suite_geometries(ctx):
    from pyresample.geometry import SwathDefinition
    r = ctx.rng
    ks = lambda H, W: [None, 2, 3, 5, min(H, W), max(H, W), max(H, W) + 3, 50]   # noqa
    # areas
    specs = [("laea", {"proj": "laea", "lat_0": 55, "lon_0": 15, "ellps": "WGS84"}, (-6.0e5, -4.0e5, 6.0e5, 5.0e5)),
             ("stere", {"proj": "stere", "lat_0": 90, "lat_ts": 60, "lon_0": 0, "ellps": "WGS84"}, (-1.0e6, -3.0e6, 1.0e6, -1.0e6)),
             ("merc", {"proj": "merc", "lon_0": 0, "ellps": "WGS84"}, (-1.0e6, 2.0e6, 1.5e6, 4.0e6)),
             ("eqc", {"proj": "eqc", "lon_0": 0, "ellps": "WGS84"}, (1.0e6, -2.0e6, 3.0e6, -0.5e6)),
             ("longlat", {"proj": "longlat", "datum": "WGS84"}, (100.0, 10.0, 130.0, 35.0))]
    for nm, proj, ext in (specs if not ctx.quick else specs[:4]):
        H, W = r.randrange(4, 12), r.randrange(4, 12)
        x0, y0, x1, y1 = ext
        for orient, e in (("north_up", (x0, y0, x1, y1)), ("flipped_x", (x1, y0, x0, y1)), ("flipped_y", (x0, y1, x1, y0)), ("flipped_xy", (x1, y1, x0, y0))):
            area = kc.mk_area(proj, W, H, e)
            for k in (ks(H, W) if not ctx.quick else r.sample(ks(H, W), 4)):
                check_geometry(ctx, area, f"area_{nm}", orient, k, True)
    # swaths: ascending and descending passes
    for pname, lon0, lat0, span in (("pass_midlat", 10.0, 50.0, 18.0), ("pass_high", -40.0, 74.0, 14.0), ("pass_south", 150.0, -35.0, 16.0)):
        H, W = r.randrange(5, 12), r.randrange(5, 12)
        lon, lat = kc.swath(r, H, W, lon0, lat0, span)
        for orient, lo, la in _orientations(lon, lat):
            sw = SwathDefinition(lo, la)
            hh, ww = sw.shape
            for k in (ks(hh, ww) if not ctx.quick else r.sample(ks(hh, ww), 3)):
                check_geometry(ctx, sw, pname, orient, k, False)
    # swaths with invalid navigation in some edge pixels (not the corners): the ring consists of valid pixel coordinates only
    H, W = 9, 8
    lon, lat = kc.swath(r, H, W, 10.0, 50.0, 16.0)
    for pattern in ("both_nan", "lat_only_nan", "lon_only_nan"):
        lo, la = lon.copy(), lat.copy()
        for (i, j) in ((0, 3), (H - 1, 2), (4, 0), (5, W - 1), (2, W - 1)):
            if pattern in ("both_nan", "lon_only_nan"):
                lo[i, j] = np.nan
            if pattern in ("both_nan", "lat_only_nan"):
                la[i, j] = np.nan
        for orient, olo, ola in _orientations(lo, la)[:4]:
            sw = SwathDefinition(olo, ola)
            for k in (None, 4, max(H, W) + 2):
                inp = {"geometry": "pass_with_invalid_edge_pixels", "pattern": pattern, "orientation": orient, "vertices_per_side": k}
                try:
                    with warnings.catch_warnings():
                        warnings.simplefilter("ignore")
                        lon_s, lat_s = sw.get_bbox_lonlats(vertices_per_side=k, force_clockwise=True)
                        b = sw.boundary(vertices_per_side=k, force_clockwise=True)
                        clon, clat = b.contour()
                        area_impl = float(b.contour_poly.area())
                except Exception as e:  # noqa
                    ctx.fail("BaseDefinition.get_bbox_lonlats", f"raised {type(e).__name__}: {str(e)[:120]}", inp, tags={"family": "invalid-edge"}, size=5)
                    continue
                probs = []
                allv = np.concatenate([np.concatenate(lon_s), np.concatenate(lat_s), np.asarray(clon, float), np.asarray(clat, float)])
                if not np.all(np.isfinite(allv)):
                    probs.append("a boundary vertex has a NaN coordinate (it is not the coordinate of a valid pixel)")
                elif not (0 < area_impl < 2 * math.pi):
                    probs.append(f"polygon area {area_impl}")
                else:
                    valid = set(zip(np.round(olo[np.isfinite(olo) & np.isfinite(ola)], 9), np.round(ola[np.isfinite(olo) & np.isfinite(ola)], 9)))
                    if any((round(float(a_), 9), round(float(b_), 9)) not in valid for a_, b_ in zip(clon, clat)):
                        probs.append("a boundary vertex is not the coordinate of a valid pixel")
                if probs:
                    ctx.fail("BaseDefinition.get_bbox_lonlats", "; ".join(probs), inp, {"area": area_impl}, tags={"family": "invalid-edge"}, size=5)
                ctx.case("invalid-edge", (pattern, orient, k), nontrivial=True)
    # long polar-orbiter passes (side longer than 180 degrees of arc) and a very wide lon/lat grid stored transposed
    n = 30
    t = np.linspace(0, math.radians(200), n)
    inc = math.radians(98)
    for width_deg in (8.0, 20.0):
        sang = np.radians(np.linspace(-width_deg / 2, width_deg / 2, 7))
        # sub-satellite track on a great circle of inclination 98 deg; pixels offset along the orbit normal (a true band)
        p = np.stack([np.cos(t), np.sin(t) * math.cos(inc), np.sin(t) * math.sin(inc)], axis=-1)       # (n, 3)
        nrm = np.array([0.0, -math.sin(inc), math.cos(inc)])
        pts = np.cos(sang)[None, :, None] * p[:, None, :] + np.sin(sang)[None, :, None] * nrm[None, None, :]
        lat = np.degrees(np.arcsin(np.clip(pts[..., 2], -1, 1)))
        lon = np.degrees(np.arctan2(pts[..., 1], pts[..., 0]))
        for orient, lo, la in _orientations(lon, lat)[:4 if ctx.quick else 8]:
            sw = SwathDefinition(lo, la)
            for k in (None, 5, 12):
                check_geometry_long(ctx, sw, f"long_pass_{width_deg}", orient, k)


def check_geometry_long(ctx, geo, name, orient, k):
    """footprints larger than a hemisphere in one direction: only the combinatorial clauses + orientation consistency"""
    H, W = geo.shape
    inp = {"geometry": name, "orientation": orient, "shape": [H, W], "vertices_per_side": k}
    with warnings.catch_warnings():
        warnings.simplefilter("ignore")
        lon_s, lat_s = geo.get_bbox_lonlats(vertices_per_side=k, force_clockwise=True)
        b = geo.boundary(vertices_per_side=k, force_clockwise=True)
        clon, clat = b.contour()
        area_impl = float(b.contour_poly.area())
    probs = []
    for i in range(4):
        if not (lon_s[i][-1] == lon_s[(i + 1) % 4][0] and lat_s[i][-1] == lat_s[(i + 1) % 4][0]):
            probs.append("sides do not chain")
            break
    pts = list(zip(np.round(np.asarray(clon, float), 9), np.round(np.asarray(clat, float), 9)))
    if len(set(pts)) != len(pts):
        probs.append("the ring repeats a vertex")
    # the strip is a thin band: its footprint is far below a hemisphere
    if not (0 < area_impl < 2 * math.pi):
        probs.append(f"enclosed polygon has area {area_impl:.3f} sr: the ring is not clockwise around the footprint")
    if probs:
        ctx.fail("BaseDefinition.get_bbox_lonlats", "; ".join(probs), inp, {"area": area_impl}, tags={"long_side": True, "orientation": orient}, size=H + W)
    ctx.case("geometry.long", (name, orient, k), nontrivial=True, sample={"input": inp, "area": area_impl} if k == 5 else None)


def suite_geos(ctx):
    geos = {"proj": "geos", "lon_0": 0, "h": 35785831, "a": 6378169, "b": 6356583.8}
    areas = [("full_disk", kc.mk_area(geos, 60, 60, (-5570248.4, -5567248.0, 5567248.0, 5570248.4))),
             ("inside_disk", kc.mk_area(geos, 40, 30, (-3.0e6, 1.0e6, 2.0e6, 4.5e6))),
             ("corner", kc.mk_area(geos, 40, 30, (1.0e6, 1.0e6, 5.5e6, 5.5e6))),
             ("strip", kc.mk_area(geos, 60, 10, (-5570248.4, 2.0e6, 5567248.0, 3.0e6))),
             # sectors in the other quadrants of the disk (x_ll > y_ur for the south-east one), and rows stored south-up
             ("south_east", kc.mk_area(geos, 30, 35, (2.0e6, -4.5e6, 5.0e6, -1.0e6))),
             ("south_west", kc.mk_area(geos, 35, 35, (-5.0e6, -4.0e6, -1.5e6, -0.5e6))),
             ("south_east_rows_flipped", kc.mk_area(geos, 30, 35, (2.0e6, -1.0e6, 5.0e6, -4.5e6))),
             ("north_west_rows_flipped", kc.mk_area(geos, 30, 30, (-4.0e6, 4.0e6, -1.0e6, 1.0e6))),
             ("sector_nw_limb", kc.mk_area(geos, 30, 30, (-4.8e6, 0.8e6, -0.3e6, 5.2e6))),
             ("sector_nw_limb_rows_flipped", kc.mk_area(geos, 30, 30, (-4.8e6, 5.2e6, -0.3e6, 0.8e6))),
             ("sector_nw_limb_cols_flipped", kc.mk_area(geos, 30, 30, (-0.3e6, 0.8e6, -4.8e6, 5.2e6))),
             ("wide_strip", kc.mk_area(geos, 60, 8, (-5.4e6, 1.0e6, 5.4e6, 2.0e6))),
             ("tall_strip", kc.mk_area(geos, 8, 60, (1.0e6, -5.4e6, 2.0e6, 5.4e6)))]
    # scanning geometry of the GOES-R / Himawari family (sweep axis x), full disk and parts of it
    goes = {"proj": "geos", "lon_0": -75.0, "h": 35786023.0, "ellps": "GRS80", "sweep": "x"}
    areas += [("goes_full_disk_sweep_x", kc.mk_area(goes, 60, 60, (-5434894.9, -5434894.9, 5434894.9, 5434894.9))),
              ("goes_north_third_sweep_x", kc.mk_area(goes, 60, 20, (-5434894.9, 1.8e6, 5434894.9, 5434894.9))),
              ("goes_conus_like_sweep_x", kc.mk_area(goes, 50, 30, (-3.6e6, 1.5e6, 1.4e6, 4.6e6))),
              # odd / even numbers of ring vertices: the northern strip and the eastern part of the first disk
              ("north_strip", kc.mk_area(geos, 62, 24, (-5570248.4, 1393687.3, 5567248.0, 5570248.4))),
              ("east_part", kc.mk_area(geos, 25, 62, (1.2e6, -5567248.0, 5567248.0, 5570248.4)))]
    for nm, a in areas:
        new_family = nm.startswith("goes_") or nm in ("north_strip", "east_part")
        for k in ((None, 4, 10, 21, 50) if not new_family else (None, 12, 16, 20, 21, 24, 30, 36, 50)):
            inp = {"geometry": "geos_" + nm, "vertices_per_side": k}
            try:
                with warnings.catch_warnings():
                    warnings.simplefilter("ignore")
                    lon_s, lat_s = a.get_bbox_lonlats(vertices_per_side=k)
                    b = a.boundary(vertices_per_side=k, force_clockwise=True)
                    clon, clat = b.contour()
                    area_impl = float(b.contour_poly.area())
                    px, py = a.get_edge_bbox_in_projection_coordinates(vertices_per_side=k) if False else (None, None)
            except Exception as e:  # noqa
                ctx.fail("AreaDefinition._get_geostationary_boundary_sides", f"raised {type(e).__name__}: {str(e)[:120]}", inp,
                         tags={"geos": nm, "case": f"{nm}|{k}|raises"}, size=5)
                continue
            # the splitting of the (extent within disk polygon) vertices into four sides, against the model (proved to lose no vertex)
            if ctx.M and nm != "full_disk" and not nm.startswith("goes_full"):
                try:
                    from pyresample.geometry import get_geostationary_bounding_box_in_proj_coords
                    kk = 50 if k is None else max(4, k)
                    kk += kk % 2
                    with warnings.catch_warnings():
                        warnings.simplefilter("ignore")
                        vx, vy = get_geostationary_bounding_box_in_proj_coords(a, nb_points=kk)
                        sx_, sy_ = a._get_geostationary_boundary_sides(vertices_per_side=k, coordinates="projection")
                    verts = list(zip(np.asarray(vx).tolist(), np.asarray(vy).tolist()))
                    if len(set(verts)) == len(verts) and len(verts) >= 4:
                        got = [[verts.index((float(px_), float(py_))) if (float(px_), float(py_)) in verts else -1 for px_, py_ in zip(sxi, syi)] for sxi, syi in zip(sx_, sy_)]
                        rep = ctx.M.ask("geos", len(verts))
                        want = [[int(t) for t in part.split()] for part in rep.split(" | ")[0].split(" ; ")]
                        ctx.case("geos-sides", (nm, k, len(verts)), nontrivial=True)
                        ctx.count(f"geos.sides.n_vertices.{'odd' if len(verts) % 2 else 'even'}")
                        if got != want:
                            ctx.disagree("geos-sides", {**inp, "n_vertices": len(verts)}, got, want, "sides of the geostationary boundary (as indices into the polygon's vertices) differ from the model")
                except ValueError:
                    pass
            probs = []
            for i in range(4):
                if not (abs(lon_s[i][-1] - lon_s[(i + 1) % 4][0]) < 1e-9 and abs(lat_s[i][-1] - lat_s[(i + 1) % 4][0]) < 1e-9):
                    probs.append("sides do not chain")
                    break
            if not np.all(np.isfinite(np.concatenate(lon_s))):
                probs.append("non-finite boundary vertex (outside the Earth disk)")
            sa, _ = _signed_area(clon, clat)
            if not (sa < 0 and 0 < area_impl < 2 * math.pi):
                probs.append(f"ring not clockwise around the visible part (signed area {sa:.3f}, polygon area {area_impl:.3f})")
            # vertices inside the extent (with the library's margin) and on/inside the disk
            import pyproj
            x, y = pyproj.Proj(a.crs)(np.asarray(clon), np.asarray(clat))
            e = a.area_extent
            tol = 1e-6 * 5.6e6
            ex0, ex1, ey0, ey1 = min(e[0], e[2]), max(e[0], e[2]), min(e[1], e[3]), max(e[1], e[3])
            if not (np.all(x >= ex0 - tol) and np.all(x <= ex1 + tol) and np.all(y >= ey0 - tol) and np.all(y <= ey1 + tol)):
                probs.append("a boundary vertex lies outside the area's extent")
            # the ring encloses the footprint (extent within the Earth disk), judged in the projection plane: every pixel centre
            # that is on the disk by more than the chord error of a k-vertex disk polygon is inside the ring, and the ring's
            # area lies between that of the extent within the inscribed ellipse and within the disk
            if k is not None and np.all(np.isfinite(x)) and len(x) >= 3:
                import shapely
                from shapely.geometry import Polygon, box
                from pyresample.geometry import get_geostationary_angle_extent
                from pyresample.utils.proj4 import get_geostationary_height
                xa_, ya_ = get_geostationary_angle_extent(a)
                h_ = get_geostationary_height(a.crs)
                ring = Polygon(np.c_[x, y])
                if not ring.is_valid:
                    ring = ring.buffer(0)
                fin_ = math.cos(math.pi / k) * (1 - 0.002)
                cx_, cy_ = a.get_proj_coords()
                rad2 = (cx_ / (xa_ * h_)) ** 2 + (cy_ / (ya_ * h_)) ** 2
                sel = rad2 <= fin_ ** 2
                if sel.any():
                    pts = shapely.points(np.asarray(cx_)[sel], np.asarray(cy_)[sel])
                    inside = shapely.contains(ring.buffer(1e-6 * xa_ * h_), pts)
                    if not inside.all():
                        j = int(np.flatnonzero(~inside)[0])
                        probs.append(f"{int((~inside).sum())} of {int(sel.sum())} pixel centres safely on the Earth disk lie outside the boundary ring "
                                     f"(e.g. x={float(np.asarray(cx_)[sel][j]):.0f}, y={float(np.asarray(cy_)[sel][j]):.0f})")
                tt = np.linspace(0, 2 * np.pi, 1440, endpoint=False)
                rect = box(ex0, ey0, ex1, ey1)
                a_hi = rect.intersection(Polygon(np.c_[np.cos(tt) * xa_ * h_, np.sin(tt) * ya_ * h_])).area
                a_lo = rect.intersection(Polygon(np.c_[np.cos(tt) * xa_ * h_ * fin_, np.sin(tt) * ya_ * h_ * fin_])).area
                if not (a_lo * (1 - 1e-6) <= ring.area <= a_hi * (1 + 1e-6)):
                    probs.append(f"planar area of the ring {ring.area:.4g} m2 is not between that of the extent within the inscribed ellipse ({a_lo:.4g}) and within the disk ({a_hi:.4g})")
            if probs:
                symptom = "orientation" if any(p_.startswith("ring not clockwise") for p_ in probs) and len(probs) == 1 else "other"
                ctx.fail("AreaDefinition._get_geostationary_boundary_sides", "; ".join(probs), inp, {"area": area_impl, "n": len(clon)},
                         tags={"geos": nm, "case": f"{nm}|{k}|{symptom}"}, size=5)
            ctx.case("geos", (nm, k), nontrivial=nm != "full_disk", sample={"input": inp, "n_vertices": len(clon), "area_sr": area_impl})


# ---------------------------------------------------------------------------------------------
# geometries with a history: swaths extended in place, and repeated / mixed boundary requests on one object
# ---------------------------------------------------------------------------------------------

def _ring_problems(geo, lons, lats, k):
    """The whole property for a geometry whose pixel coordinates are, right now, the (H, W) arrays lons / lats (no invalid
    values, all coordinates distinct).  Nothing is taken from the geometry object but the two results under test.
    -> (problems of get_bbox_lonlats(force_clockwise=True), problems of boundary(force_clockwise=True), observed)"""
    H, W = lons.shape
    with warnings.catch_warnings():
        warnings.simplefilter("ignore")
        lon_s, lat_s = geo.get_bbox_lonlats(vertices_per_side=k, force_clockwise=True)
        b = geo.boundary(vertices_per_side=k, force_clockwise=True)
        clon, clat = b.contour()
        area_impl = float(b.contour_poly.area())
    obs = {"side_lengths": [len(s) for s in lon_s], "n_contour": len(clon), "polygon_area_sr": area_impl}
    p_sides, p_bnd = [], []
    edge = {}
    for r_ in range(H):
        for c_ in range(W):
            if r_ in (0, H - 1) or c_ in (0, W - 1):
                edge[(float(lons[r_, c_]), float(lats[r_, c_]))] = (r_, c_)
    if len(lon_s) != 4 or len(lat_s) != 4:
        return ["not four sides"], p_bnd, obs
    idx = []
    for i in range(4):
        side = [edge.get((float(lo), float(la))) for lo, la in zip(lon_s[i], lat_s[i])]
        if None in side or len(side) < 2:
            p_sides.append(f"side {i} has a vertex that is not the coordinate of a pixel on the outer rows / columns of the {H}x{W} arrays"
                           if None in side else f"side {i} has {len(side)} vertex")
            return p_sides, p_bnd, obs
        idx.append(side)
    obs["side_ends"] = [[list(s[0]), list(s[-1])] for s in idx]
    for i in range(4):
        j = (i + 1) % 4
        if idx[i][-1] != idx[j][0]:
            p_sides.append(f"side {i} ends at pixel {idx[i][-1]} but side {j} begins at pixel {idx[j][0]}")
            break
    corners = {(0, 0), (0, W - 1), (H - 1, W - 1), (H - 1, 0)}
    if {s[0] for s in idx} != corners:
        p_sides.append(f"the sides begin at pixels {sorted(s[0] for s in idx)}, not at the four corner pixels {sorted(corners)}")
    for i, s in enumerate(idx):
        along_row = s[0][0] in (0, H - 1) and all(q[0] == s[0][0] for q in s)
        along_col = s[0][1] in (0, W - 1) and all(q[1] == s[0][1] for q in s)
        if along_row == along_col:
            p_sides.append(f"side {i} does not run along one outer row or column")
            continue
        run, full = ([q[1] for q in s], W) if along_row else ([q[0] for q in s], H)
        if not (all(a < b_ for a, b_ in zip(run, run[1:])) or all(a > b_ for a, b_ in zip(run, run[1:]))):
            p_sides.append(f"side {i} does not advance monotonically along its row / column")
        want = full if k is None else min(k, full)
        if len(s) != want:
            p_sides.append(f"side {i} has {len(s)} vertices, {want} expected ({full} pixels on that side, vertices_per_side={k})")
    ring = [q for s in idx for q in s[:-1]]
    if len(set(ring)) != len(ring):
        p_sides.append(f"the ring repeats a vertex ({len(ring)} vertices, {len(set(ring))} distinct)")
    ring_lon = np.concatenate([np.asarray(s, float)[:-1] for s in lon_s])
    ring_lat = np.concatenate([np.asarray(s, float)[:-1] for s in lat_s])

    def footprint(lo, la, who, out):
        sa, _ = _signed_area(lo, la)
        if not (sa < 0):
            out.append(f"{who} runs counter-clockwise (signed area {sa:.4f} sr): it encloses the complement of the footprint")
            return
        rr = np.concatenate([np.zeros(W - 1, int), np.arange(H - 1), np.full(W - 1, H - 1), np.arange(H - 1, 0, -1)])
        cc = np.concatenate([np.arange(W - 1), np.full(H - 1, W - 1), np.arange(W - 1, 0, -1), np.zeros(H - 1, int)])
        ref = abs(_signed_area(lons[rr, cc], lats[rr, cc])[0])
        tol = 1e-9 if k is None else 0.4
        # (with a few vertices around a strip only 2-4 pixels wide the jitter of the corner pixels decides the area: discretisation)
        if (k is None or min(H, W) >= 5) and abs(abs(sa) - ref) > tol * ref + 1e-12:
            out.append(f"{who} encloses {abs(sa):.6f} sr, the footprint (ring of all edge pixels) is {ref:.6f} sr")
        # (a ring of a few vertices around a strip only 3-4 pixels wide may cut the middle pixel off: that is discretisation)
        if min(H, W) >= (3 if k is None else 5) and _inside(lo, la, float(lons[H // 2, W // 2]), float(lats[H // 2, W // 2])) is False:
            out.append(f"the interior pixel ({H // 2}, {W // 2}) lies outside {who}")
    if not p_sides:
        footprint(ring_lon, ring_lat, "the ring of the four sides", p_sides)
    # boundary(): the same ring (each side without its last vertex), enclosing the footprint
    if not (np.array_equal(np.asarray(clon, float), ring_lon) and np.array_equal(np.asarray(clat, float), ring_lat)):
        p_bnd.append("boundary(force_clockwise=True).contour() is not the ring made of the four sides of get_bbox_lonlats(force_clockwise=True)")
    cpts = [edge.get((float(lo), float(la))) for lo, la in zip(clon, clat)]
    if None in cpts:
        p_bnd.append("a vertex of boundary().contour() is not the coordinate of a pixel on the outer rows / columns")
    elif len(set(cpts)) != len(cpts):
        p_bnd.append(f"boundary().contour() repeats a vertex ({len(cpts)} vertices, {len(set(cpts))} distinct)")
    elif len(cpts) >= 3:
        footprint(np.asarray(clon, float), np.asarray(clat, float), "the contour of boundary(force_clockwise=True)", p_bnd)
        sa = _signed_area(clon, clat)[0]
        if not (0 < area_impl < 2 * math.pi):
            p_bnd.append(f"boundary().contour_poly has area {area_impl:.4f} sr, not below a hemisphere")
        elif abs(area_impl - abs(sa)) > 1e-6 * max(1.0, abs(sa)) + 1e-9:
            p_bnd.append(f"boundary().contour_poly area {area_impl:.6f} differs from the area its vertices enclose {abs(sa):.6f}")
    return p_sides, p_bnd, obs


def _report(ctx, suite, geo, lons, lats, k, inp, tags, key, nontrivial=True):
    try:
        p_sides, p_bnd, obs = _ring_problems(geo, lons, lats, k)
    except Exception as e:  # noqa
        ctx.fail("BaseDefinition.get_bbox_lonlats", f"raised {type(e).__name__}: {str(e)[:160]}", inp, tags=tags, size=sum(lons.shape))
        ctx.case(suite, key, nontrivial=nontrivial)
        return False
    H, W = lons.shape
    if p_sides:
        ctx.fail("BaseDefinition.get_bbox_lonlats", "; ".join(p_sides[:3]), inp, obs, tags=tags, size=H + W)
    if p_bnd:
        ctx.fail("BaseDefinition.boundary", "; ".join(p_bnd[:3]), inp, obs, tags=tags, size=H + W)
    ctx.case(suite, key, nontrivial=nontrivial, sample={"input": {k_: v for k_, v in inp.items() if k_ not in ("lons", "lats")}, **obs} if k == 5 else None)
    return not (p_sides or p_bnd)


PASSES = (("pass_midlat", 10.0, 50.0, 18.0), ("pass_high", -40.0, 74.0, 14.0), ("pass_south", 150.0, -35.0, 16.0),
          ("pass_equator", -60.0, 2.0, 20.0), ("pass_dateline", 178.0, 25.0, 12.0))


def suite_appended(ctx):
    """2-D swaths put together from granules: extended in place with append() (once or several times, with or without boundary
    requests in between), joined with concatenate(), built directly.  The boundary of the result is that of the CURRENT arrays."""
    from pyresample.geometry import SwathDefinition
    r = ctx.rng
    n_geo = 4 if ctx.quick else 12
    for g in range(n_geo):
        pname, lon0, lat0, span = PASSES[g % len(PASSES)] if g < len(PASSES) else r.choice(PASSES)
        H, W = r.randrange(5, 18), r.randrange(3, 11)
        lon, lat = kc.swath(r, H, W, lon0, lat0, span)
        orients = _orientations(lon, lat)
        for orient, lo, la in (orients if not ctx.quick else r.sample(orients, 3)):
            hh, ww = lo.shape
            n_gran = r.choice([2, 2, 3, 4])
            cuts = sorted(r.sample(range(1, hh), min(n_gran - 1, hh - 1)))
            bounds = [0] + cuts + [hh]
            granules = [(lo[a:b_].copy(), la[a:b_].copy()) for a, b_ in zip(bounds, bounds[1:])]
            all_k = [None, 2, 3, 5, bounds[1], max(2, bounds[1] - 1), bounds[1] + 1, min(hh, ww), max(hh, ww), max(hh, ww) + 3, 50]
            all_k = [k for k in dict.fromkeys(all_k) if k is None or k >= 2]
            for k in (all_k if not ctx.quick else [None] + r.sample(all_k[1:], 3)):
                for mode in ("append", "append_boundary_in_between", "concatenate", "direct"):
                    base = {"geometry": pname, "orientation": orient, "mode": mode, "granule_rows": [b_ - a for a, b_ in zip(bounds, bounds[1:])],
                            "width": ww, "vertices_per_side": k, "lons": lo.tolist(), "lats": la.tolist()}
                    tags = {"family": "appended", "mode": mode, "orientation": orient, "k_gt_side": k is not None and k > min(hh, ww)}
                    try:
                        with warnings.catch_warnings():
                            warnings.simplefilter("ignore")
                            if mode == "direct":
                                sw = SwathDefinition(lo.copy(), la.copy())
                            elif mode == "concatenate":
                                sw = SwathDefinition(*[a.copy() for a in granules[0]])
                                for gl, ga in granules[1:]:
                                    sw = sw.concatenate(SwathDefinition(gl.copy(), ga.copy()))
                            else:
                                sw = SwathDefinition(*[a.copy() for a in granules[0]])
                                rows = granules[0][0].shape[0]
                                for gl, ga in granules[1:]:
                                    if mode == "append_boundary_in_between" and rows >= 2:
                                        # the boundary of what is there so far is a boundary like any other
                                        _report(ctx, "appended.partial", sw, lo[:rows], la[:rows], k, {**base, "rows_so_far": rows, "lons": lo[:rows].tolist(),
                                                                                                 "lats": la[:rows].tolist()}, tags,
                                                (pname, orient, hh, ww, k, mode, rows))
                                    sw.append(SwathDefinition(gl.copy(), ga.copy()))
                                    rows += gl.shape[0]
                    except Exception as e:  # noqa
                        ctx.fail("CoordinateDefinition.append", f"building the swath raised {type(e).__name__}: {str(e)[:160]}", base, tags=tags, size=hh + ww)
                        continue
                    if not (np.array_equal(np.asarray(sw.lons), lo) and np.array_equal(np.asarray(sw.lats), la)):
                        # not this property's business (the coordinates themselves are wrong): the ring is still judged on the arrays the geometry holds
                        ctx.note(f"appended: {mode} did not yield the stacked granules for {pname}/{orient}")
                        cur_lo, cur_la = np.asarray(sw.lons, float), np.asarray(sw.lats, float)
                    else:
                        cur_lo, cur_la = lo, la
                    _report(ctx, "appended", sw, cur_lo, cur_la, k, base, tags, (pname, orient, hh, ww, k, mode, tuple(bounds)),
                            nontrivial=mode.startswith("append"))
                    ctx.count(f"appended.mode.{mode}")
                    ctx.count(f"appended.granules.{len(granules)}")


def _call(geo, what, k, k_other):
    """one earlier request on the geometry object; its result is evaluated the way a caller would (contour, polygon)"""
    if what == "boundary()":
        b = geo.boundary(vertices_per_side=k)
    elif what == "boundary(force_clockwise=False)":
        b = geo.boundary(vertices_per_side=k, force_clockwise=False)
    elif what == "boundary(force_clockwise=True)":
        b = geo.boundary(vertices_per_side=k, force_clockwise=True)
    elif what == "boundary(other k)":
        b = geo.boundary(vertices_per_side=k_other)
    elif what == "boundary(other k, force_clockwise=True)":
        b = geo.boundary(vertices_per_side=k_other, force_clockwise=True)
    elif what == "get_bbox_lonlats(force_clockwise=False)":
        return geo.get_bbox_lonlats(vertices_per_side=k, force_clockwise=False)
    elif what == "get_bbox_lonlats(force_clockwise=True)":
        return geo.get_bbox_lonlats(vertices_per_side=k, force_clockwise=True)
    elif what == "get_edge_lonlats()":
        return geo.get_edge_lonlats(vertices_per_side=k)
    else:
        raise ValueError(what)
    b.contour()
    return b


PRELUDES = ("boundary()", "boundary(force_clockwise=False)", "boundary(force_clockwise=True)", "boundary(other k)",
            "boundary(other k, force_clockwise=True)", "get_bbox_lonlats(force_clockwise=False)", "get_bbox_lonlats(force_clockwise=True)",
            "get_edge_lonlats()")


def suite_call_sequences(ctx):
    """The boundary of a geometry is a function of the geometry and vertices_per_side: whatever was asked of the same object before
    (the plain outline in array order, other vertex counts, the same request), get_bbox_lonlats(force_clockwise=True) and
    boundary(force_clockwise=True) give the closed clockwise ring, for every array orientation; and the plain outline
    (force_clockwise False / default) asked afterwards is still the four sides in array order."""
    from pyresample.geometry import SwathDefinition
    r = ctx.rng
    geoms = []      # (name, orientation, factory, lons, lats)
    for pname, lon0, lat0, span in (PASSES if not ctx.quick else r.sample(PASSES, 2)):
        H, W = r.randrange(4, 12), r.randrange(4, 12)
        lon, lat = kc.swath(r, H, W, lon0, lat0, span)
        for orient, lo, la in _orientations(lon, lat):
            geoms.append((pname, orient, (lambda lo=lo, la=la: SwathDefinition(lo.copy(), la.copy())), lo, la))
    specs = [("laea", {"proj": "laea", "lat_0": 55, "lon_0": 15, "ellps": "WGS84"}, (-6.0e5, -4.0e5, 6.0e5, 5.0e5)),
             ("stere", {"proj": "stere", "lat_0": 90, "lat_ts": 60, "lon_0": 0, "ellps": "WGS84"}, (-1.0e6, -3.0e6, 1.0e6, -1.0e6)),
             ("merc", {"proj": "merc", "lon_0": 0, "ellps": "WGS84"}, (-1.0e6, 2.0e6, 1.5e6, 4.0e6)),
             ("eqc", {"proj": "eqc", "lon_0": 0, "ellps": "WGS84"}, (1.0e6, -2.0e6, 3.0e6, -0.5e6)),
             ("longlat", {"proj": "longlat", "datum": "WGS84"}, (100.0, 10.0, 130.0, 35.0))]
    for nm, proj, ext in (specs if not ctx.quick else r.sample(specs, 2)):
        H, W = r.randrange(4, 12), r.randrange(4, 12)
        x0, y0, x1, y1 = ext
        for orient, e in (("north_up", (x0, y0, x1, y1)), ("flipped_x", (x1, y0, x0, y1)), ("flipped_y", (x0, y1, x1, y0)), ("flipped_xy", (x1, y1, x0, y0))):
            make = (lambda proj=proj, W=W, H=H, e=e: kc.mk_area(proj, W, H, e))
            with warnings.catch_warnings():
                warnings.simplefilter("ignore")
                lo, la = make().get_lonlats()
            geoms.append((f"area_{nm}", orient, make, np.asarray(lo, float), np.asarray(la, float)))
    for name, orient, make, lo, la in geoms:
        H, W = lo.shape
        all_k = [None, 2, 3, 5, min(H, W), max(H, W), max(H, W) + 3, 50]
        for k in (all_k if not ctx.quick else r.sample(all_k, 3)):
            k_other = r.choice([q for q in (None, 2, 4, 7, 50) if q != k])
            # always the two-step sequence "plain outline, then the clockwise ring"; plus random longer histories
            preludes = [["boundary()"], [r.choice(PRELUDES[:2]), r.choice(PRELUDES)]]
            preludes += [[r.choice(PRELUDES) for _ in range(r.randrange(1, 4))] for _ in range(1 if ctx.quick else 2)]
            for prelude in preludes:
                inp = {"geometry": name, "orientation": orient, "shape": [H, W], "vertices_per_side": k, "other_vertices_per_side": k_other,
                       "calls_before": prelude, "lons": lo.tolist(), "lats": la.tolist()}
                tags = {"family": "call-sequence", "orientation": orient, "k_gt_side": k is not None and k > min(H, W)}
                geo = make()
                try:
                    with warnings.catch_warnings():
                        warnings.simplefilter("ignore")
                        for what in prelude:
                            _call(geo, what, k, k_other)
                except Exception as e:  # noqa
                    ctx.fail("BaseDefinition.boundary", f"{prelude} raised {type(e).__name__}: {str(e)[:160]}", inp, tags=tags, size=H + W)
                    continue
                ok = _report(ctx, "call-sequence", geo, lo, la, k, inp, tags, (name, orient, H, W, k, k_other, tuple(prelude)))
                ctx.count(f"call-sequence.first.{prelude[0]}")
                # afterwards, the plain outline: the four sides in array order, starting at pixel (0, 0), whichever way they run
                with warnings.catch_warnings():
                    warnings.simplefilter("ignore")
                    plain = geo.boundary(vertices_per_side=k)
                    plon, plat = plain.contour()
                    plain2 = geo.boundary(vertices_per_side=k, force_clockwise=False)
                    p2lon, p2lat = plain2.contour()
                    raw_lon, raw_lat = make().get_bbox_lonlats(vertices_per_side=k, force_clockwise=False)      # a fresh object
                want_lon = np.concatenate([np.asarray(s_, float)[:-1] for s_ in raw_lon])
                want_lat = np.concatenate([np.asarray(s_, float)[:-1] for s_ in raw_lat])
                if not (want_lon[0] == lo[0, 0] and want_lat[0] == la[0, 0]):
                    ctx.fail("BaseDefinition.get_bbox_lonlats", "the sides in array order (force_clockwise=False) of a fresh geometry do not begin at pixel (0, 0)", inp, tags=tags, size=H + W)
                if ok and not (np.array_equal(np.asarray(plon, float), want_lon) and np.array_equal(np.asarray(plat, float), want_lat)
                               and np.array_equal(np.asarray(p2lon, float), want_lon) and np.array_equal(np.asarray(p2lat, float), want_lat)):
                    ctx.fail("BaseDefinition.boundary", "after these requests the plain outline boundary(vertices_per_side) (force_clockwise False) is no longer "
                             "first row, last column, last row, first column in array order", {**inp, "calls_before": prelude + ["get_bbox_lonlats(True)", "boundary(True)"]},
                             {"first_vertex": [float(plon[0]), float(plat[0])], "pixel_0_0": [float(lo[0, 0]), float(la[0, 0])]}, tags=tags, size=H + W)
                ctx.case("call-sequence.plain-after", (name, orient, H, W, k, tuple(prelude)), nontrivial=True)


def run(ctx):
    suite_indices(ctx)
    suite_geometries(ctx)
    suite_geos(ctx)
    suite_appended(ctx)
    suite_call_sequences(ctx)
