"""C07 — bucket resampling: exact membership, conservation, per-cell statistics, chunk invariance."""
import math
import warnings
from fractions import Fraction

import numpy as np

META = {
    "rule": "one case = (area, point cloud, data, getter arguments, chunking). Point clouds: half/quarter-pixel "
            "lattice around the grid (inside, on every border, just outside) + random points; data: small integers "
            "and dyadics incl. negatives, NaNs, explicit fill values, categories; integer data (int32, int64, narrow types) containing a finite "
            "fill value (255, -1, -999, the largest code) passed as fill_value, skipna True / False, against a per-cell reference in Python integers. Non-trivial: some cell holds >= 2 "
            "points and some point is outside the area. Distinct = distinct (area, cloud id, data id, getter, args, chunks).",
    "assumptions": ["np.histogram / np.argsort / np.digitize / np.unique behave as documented",
                    "integer and dyadic data make float sums exact (exact class)"],
}


def _areas(ctx):
    from pyresample.geometry import AreaDefinition
    specs = [
        ("ll_4x3", {"proj": "longlat", "datum": "WGS84"}, 4, 3, (-4.0, 10.0, 4.0, 16.0)),
        ("ll_1x1", {"proj": "longlat", "datum": "WGS84"}, 1, 1, (10.0, 20.0, 12.0, 21.0)),
        ("ll_nonsq_5x2", {"proj": "longlat", "datum": "WGS84"}, 5, 2, (100.0, -8.0, 101.25, 0.0)),
        ("ll_res49", {"proj": "longlat", "datum": "WGS84"}, 3, 2, (-98.0, -49.0, 49.0, 49.0)),
        ("eqc_3x3", {"proj": "eqc", "lon_0": 0, "ellps": "WGS84"}, 3, 3, (0.0, 0.0, 300000.0, 300000.0)),
        ("laea_6x4", {"proj": "laea", "lat_0": 60, "lon_0": 20, "ellps": "WGS84"}, 6, 4, (-300000.0, -200000.0, 300000.0, 200000.0)),
    ]
    if not ctx.quick:
        specs += [
            ("stere_7x5", {"proj": "stere", "lat_0": 90, "lat_ts": 60, "lon_0": 0, "ellps": "WGS84"}, 7, 5, (-1000000.0, -3500000.0, 1500000.0, -1000000.0)),
            ("merc_2x9", {"proj": "merc", "lon_0": 10, "ellps": "WGS84"}, 2, 9, (-300000.0, 5000000.0, 300000.0, 5600000.0)),
            ("ll_8x8", {"proj": "longlat", "datum": "WGS84"}, 8, 8, (-8.0, -8.0, 8.0, 8.0)),
        ]
    out = []
    with warnings.catch_warnings():
        warnings.simplefilter("ignore")
        for name, proj, w, h, ext in specs:
            out.append((name, AreaDefinition(name, name, name, proj, w, h, ext)))
    return out


def _cloud(ctx, area, kind):
    import pyproj
    x0, y0, x1, y1 = area.area_extent
    dx, dy = area.pixel_size_x, area.pixel_size_y
    W, H = area.width, area.height
    if kind == "lattice":
        us = np.arange(-1, W + 1.01, 0.5)
        vs = np.arange(-1, H + 1.01, 0.5)
        U, V = np.meshgrid(us, vs)
        U, V = U.ravel(), V.ravel()
    elif kind == "dense":
        n = 60 if ctx.quick else 300
        U = np.array([ctx.rng.choice([ctx.rng.uniform(-0.5, W + 0.5), ctx.rng.randrange(0, W + 1), ctx.rng.randrange(0, 2 * W + 1) / 2]) for _ in range(n)], float)
        V = np.array([ctx.rng.choice([ctx.rng.uniform(-0.5, H + 0.5), ctx.rng.randrange(0, H + 1), ctx.rng.randrange(0, 2 * H + 1) / 2]) for _ in range(n)], float)
    elif kind == "crowd":
        # many points per cell: every statistic is a sum over hundreds of points of one chunk
        n = 1400
        U = np.array([ctx.rng.uniform(0.02, W - 0.02) for _ in range(n)], float)
        V = np.array([ctx.rng.uniform(0.02, H - 0.02) for _ in range(n)], float)
    elif kind == "near_border_f32":
        # points within half a metre of interior cell borders (single-precision coordinates are good to about 0.1 m there)
        n = 300 if ctx.quick else 1500
        m_u, m_v = 0.5 / abs(dx), 0.5 / abs(dy)
        U = np.array([ctx.rng.randrange(0, W + 1) + ctx.rng.uniform(-m_u, m_u) if ctx.rng.random() < 0.7 else ctx.rng.uniform(0, W) for _ in range(n)], float)
        V = np.array([ctx.rng.randrange(0, H + 1) + ctx.rng.uniform(-m_v, m_v) if ctx.rng.random() < 0.7 else ctx.rng.uniform(0, H) for _ in range(n)], float)
    else:   # "edge": tiny offsets around the outer edges
        e = [-1e-6, 0.0, 1e-6]
        U = np.array([a + d for a in (0, W) for d in e for _ in range(3)] + [W / 2.0] * 6, float)
        V = np.array([H / 2.0] * 18 + [a + d for a in (0, H) for d in e], float)
    xt, yt = x0 + U * dx, y1 - V * dy
    inv = pyproj.Transformer.from_crs(area.crs.geodetic_crs, area.crs, always_xy=True)
    lons, lats = inv.transform(xt, yt, direction="INVERSE")
    ok = np.isfinite(lons) & np.isfinite(lats) & (np.abs(lats) <= 90) & (np.abs(lons) <= 180)
    if kind == "near_border_f32":
        return lons[ok].astype(np.float32), lats[ok].astype(np.float32)
    return lons[ok], lats[ok]


def _datasets(ctx, n):
    r = ctx.rng
    ds = {
        "ints": np.array([float(r.randrange(-9, 10)) for _ in range(n)]),
        "dyadic": np.array([r.randrange(-64, 64) / 8.0 for _ in range(n)]),
        "cats": np.array([float(r.choice([0, 1, 2, 5])) for _ in range(n)]),
        "with_nan": np.array([float("nan") if r.random() < 0.25 else float(r.randrange(-5, 6)) for _ in range(n)]),
        "neg_only": np.array([-float(r.randrange(1, 9)) for _ in range(n)]),
        "u8": np.array([r.choice([0, 0, 1, 3, 200]) for _ in range(n)], dtype=np.uint8),
        "i16": np.array([r.randrange(-9, 10) for _ in range(n)], dtype=np.int16),
        # narrow integer types with values close to their limits: the sum of two points of one cell no longer fits the
        # type (a per-block histogram that accumulated in the dtype of the data would wrap around: finding F35)
        "u8_big": np.array([r.randrange(100, 256) for _ in range(n)], dtype=np.uint8),
        "i8_big": np.array([r.choice([-128, -100, -77, 90, 120, 127]) for _ in range(n)], dtype=np.int8),
        "u16_big": np.array([r.randrange(40000, 65536) for _ in range(n)], dtype=np.uint16),
        "i16_big": np.array([r.choice([-32768, -30000, 25000, 32767]) for _ in range(n)], dtype=np.int16),
        "i32_big": np.array([r.choice([-2147483648, -2000000000, 1500000000, 2147483647]) for _ in range(n)], dtype=np.int32),
        "f32": np.array([r.randrange(-64, 64) / 4.0 for _ in range(n)], dtype=np.float32),
        # valid values next to a large finite fill value (65535): only the fill itself is missing
        "near_fill": np.array([r.choice([65535.0, 65534.5, 65535.5, 65534.0, 3.0, -2.5]) for _ in range(n)]),
    }
    if ctx.quick:
        for k in ("i8_big", "u16_big", "i32_big"):
            del ds[k]
    return ds


def _chunkings(ctx, n):
    if n <= 30:
        c = [n, 7, 2, 1]
    else:
        c = [n, n // 3 + 1] if ctx.quick else [n, n // 3 + 1, 7, max(1, n // 2 + 1)]
    out = []
    for v in c:
        v = max(1, min(n, v))
        if v not in out:
            out.append(v)
    return out


def _fl(a):
    return [None if (isinstance(v, float) and math.isnan(v)) else Fraction(float(v)) for v in np.asarray(a, float).ravel()]


def _wire(vals):
    return ["nan" if v is None else v for v in vals]


def _f(v):
    """exact rational -> nearest double (what a correctly rounded float division of exact operands gives)"""
    return None if v is None else float(v)


def _cmp(ctx, suite, inp, impl_arr, rep):
    impl = [_f(v) for v in _fl(impl_arr)]
    toks = rep.split()[1:]
    model = [None if t == "nan" else _f(Fraction(t)) for t in toks]
    if impl != model:
        ctx.disagree(suite, inp, [None if v is None else float(v) for v in impl],
                     [None if v is None else float(v) for v in model])
        return False
    return True


def run_area(ctx, name, area):
    import dask.array as da
    from pyproj import Proj
    from pyresample.bucket import BucketResampler
    W, H = area.width, area.height
    size = W * H
    g = [Fraction(float(v)) for v in area.area_extent] + [W, H]
    kinds = ("lattice", "dense", "edge") + (("near_border_f32",) if area.crs.is_projected else ()) + (("crowd",) if W * H == 1 else ())
    for ck in kinds:
        lons, lats = _cloud(ctx, area, ck)
        n = lons.size
        with warnings.catch_warnings():
            warnings.simplefilter("ignore")
            px, py = Proj(area.proj_dict)(lons, lats)
        px, py = np.asarray(px, float), np.asarray(py, float)
        # reference membership, exact
        fx = [(Fraction(float(x)) - g[0]) / (g[2] - g[0]) * W for x in px]
        fy = [(g[3] - Fraction(float(y))) / (g[3] - g[1]) * H for y in py]
        cell = []
        amb = []
        for a, b in zip(fx, fy):
            c, r = math.floor(a), math.floor(b)
            cell.append(r * W + c if (0 <= c < W and 0 <= r < H) else -1)
            da_, db_ = abs(a - round(a)), abs(b - round(b))
            amb.append((0 < da_ < Fraction(1, 10 ** 9)) or (0 < db_ < Fraction(1, 10 ** 9)))
        datasets = _datasets(ctx, n)
        results_by_chunk = {}
        for ch in _chunkings(ctx, n):
            ctx.count(f'chunking.{"single" if ch == n else "ragged" if n % ch else "even"}')
            with warnings.catch_warnings():
                warnings.simplefilter("ignore")
                br = BucketResampler(area, da.from_array(lons, chunks=ch), da.from_array(lats, chunks=ch))
                idxs = np.asarray(br.idxs).astype(int)
                xi, yi = np.asarray(br.x_idxs), np.asarray(br.y_idxs)
            inp0 = {"area": name, "extent": list(map(float, area.area_extent)), "shape": [H, W], "cloud": ck, "n": int(n),
                    "coord_chunks": ch}
            # membership: oracle + model
            for i in range(n):
                got = -1 if idxs[i] < 0 else int(idxs[i])
                if got != cell[i] and not amb[i]:
                    ctx.fail("BucketResampler._get_indices", "point assigned to a cell whose extent does not contain it (or dropped/kept wrongly)",
                             {**inp0, "proj_x": float(px[i]), "proj_y": float(py[i]), "frac_idx": [float(fx[i]), float(fy[i])]},
                             {"impl_cell": got, "containing_cell": cell[i]}, size=size)
                if (xi[i] < 0) != (idxs[i] < 0) or (idxs[i] >= 0 and (yi[i] * W + xi[i] != idxs[i])):
                    ctx.fail("BucketResampler._get_indices", "x_idxs / y_idxs / idxs inconsistent", inp0, size=size)
            if ctx.M:
                rep = ctx.M.ask("ravel", *g, [Fraction(float(v)) for v in px], [Fraction(float(v)) for v in py])
                model = [int(t) for t in rep.split()[1:]]
                bad = [i for i in range(n) if model[i] != int(idxs[i]) and not amb[i]]
                if bad:
                    ctx.disagree("ravel", {**inp0, "proj_x": float(px[bad[0]]), "proj_y": float(py[bad[0]])},
                                 int(idxs[bad[0]]), model[bad[0]])
            midx = [int(v) for v in idxs]
            inside = [i for i in range(n) if cell[i] >= 0]
            # count
            cnt = np.asarray(br.get_count())
            if int(cnt.sum()) != len(inside) and not any(amb):
                ctx.fail("BucketResampler.get_count", "counts do not sum to the number of points inside the area", inp0,
                         {"sum": int(cnt.sum()), "inside": len(inside)}, size=size)
            want_cnt = [sum(1 for i in inside if cell[i] == b) for b in range(size)]
            if not any(amb) and list(cnt.ravel()) != want_cnt:
                ctx.fail("BucketResampler.get_count", "per-cell count differs from the number of points in the cell", inp0,
                         {"impl": cnt.ravel().tolist(), "want": want_cnt}, size=size)
            if ctx.M:
                # the model mirrors dask: one histogram per coordinate chunk, summed
                chunks = [midx[k:k + ch] for k in range(0, n, ch)]
                rep = ctx.M.ask("count", size, len(chunks), *chunks)
                if [int(t) for t in rep.split()[1:]] != [int(v) for v in cnt.ravel()]:
                    ctx.disagree("count", inp0, cnt.ravel().tolist(), rep)
            res = {"count": cnt.ravel().tolist()}
            for dname, data in datasets.items():
                for dch in ([ch] if ctx.quick else [ch, max(1, n // 3)]):
                    ddata = da.from_array(data, chunks=dch)
                    vals = _fl(data)
                    inp = {**inp0, "data": dname, "data_chunks": dch}
                    fills = [(float("nan"), None)] + ([(-5.0, Fraction(-5))] if dname in ("with_nan", "ints") else [])
                    if dname == "near_fill":
                        fills = [(65535.0, Fraction(65535))]
                    if dname in ("neg_only", "u8", "i16", "cats") or (ctx.quick and dname in ("dyadic", "f32") and ch != n):
                        fills = []
                    for fill, ffill in fills:
                        for skipna in (True, False):
                            for empty in ((0, Fraction(0)), (-99.0, Fraction(-99))) if dname == "ints" else ((0, Fraction(0)),):
                                with warnings.catch_warnings():
                                    warnings.simplefilter("ignore")
                                    s = np.asarray(br.get_sum(ddata, fill_value=fill, skipna=skipna, empty_bucket_value=empty[0]))
                                key = f"sum.{dname}.{fill}.{skipna}.{empty[0]}"
                                res[key] = _fl(s)
                                if ctx.M:
                                    rep = ctx.M.ask("sum", size, "nan" if ffill is None else ffill, skipna, empty[1],
                                                    midx, _wire(vals))
                                    _cmp(ctx, "sum", {**inp, "fill": fill, "skipna": skipna, "empty": empty[0]}, s, rep)
                                # oracle: conservation of the valid data inside the area
                                if skipna and empty[0] == 0 and not any(amb):
                                    valid = [vals[i] for i in inside if vals[i] is not None and vals[i] != ffill]
                                    tot = sum(valid, Fraction(0))
                                    st = _fl(s)
                                    if None not in st and sum(st, Fraction(0)) != tot:
                                        ctx.fail("BucketResampler.get_sum", "sum over cells differs from the total of the valid data inside the area",
                                                 inp, {"sum_cells": float(sum(st)), "total": float(tot)}, size=size)
                                    for b in range(size):
                                        wb = sum((vals[i] for i in inside if cell[i] == b and vals[i] is not None and vals[i] != ffill), Fraction(0))
                                        if st[b] is not None and st[b] != wb:
                                            ctx.fail("BucketResampler.get_sum", "per-cell sum differs from the sum of the points in the cell",
                                                     inp, {"cell": b, "impl": float(st[b]), "want": float(wb)}, size=size)
                                            break
                            with warnings.catch_warnings():
                                warnings.simplefilter("ignore")
                                avg = np.asarray(br.get_average(ddata, fill_value=fill, skipna=skipna))
                            res[f"avg.{dname}.{fill}.{skipna}"] = _fl(avg)
                            if ctx.M:
                                rep = ctx.M.ask("avg", size, "nan" if ffill is None else ffill, skipna, midx, _wire(vals))
                                _cmp(ctx, "avg", {**inp, "fill": fill, "skipna": skipna}, avg, rep)
                            if skipna and not any(amb):
                                av = _fl(avg)
                                for b in range(size):
                                    pts = [vals[i] for i in inside if cell[i] == b and vals[i] is not None and vals[i] != ffill]
                                    want = (sum(pts, Fraction(0)) / len(pts)) if pts else ffill
                                    if _f(av[b]) != _f(want):
                                        ctx.fail("BucketResampler.get_average", "per-cell average differs from the mean of the valid points in the cell",
                                                 inp, {"cell": b, "impl": None if av[b] is None else float(av[b]),
                                                       "want": None if want is None else float(want)}, size=size)
                                        break
                    # min / max / abs_max
                    for which, fn in (("min", br.get_min), ("max", br.get_max), ("absmax", br.get_abs_max)):
                        with warnings.catch_warnings():
                            warnings.simplefilter("ignore")
                            st = np.asarray(fn(ddata))
                        res[f"{which}.{dname}"] = _fl(st)
                        if ctx.M:
                            rep = ctx.M.ask("stat", which, size, midx, _wire(vals))
                            _cmp(ctx, which, inp, st, rep)
                        if dname != "with_nan" and not any(amb):
                            sv = _fl(st)
                            for b in range(size):
                                pts = [vals[i] for i in inside if cell[i] == b]
                                if not pts:
                                    want = None
                                elif which == "min":
                                    want = min(pts)
                                elif which == "max":
                                    want = max(pts)
                                else:
                                    want = max(pts, key=lambda v: (abs(v), v))
                                    if -min(pts) == max(pts):
                                        want = max(pts)
                                if sv[b] != want:
                                    ctx.fail(f"BucketResampler.get_{'abs_max' if which == 'absmax' else which}",
                                             f"per-cell {which} differs from that of the points in the cell (empty cells must be NaN)",
                                             inp, {"cell": b, "impl": None if sv[b] is None else float(sv[b]),
                                                   "want": None if want is None else float(want)}, size=size)
                                    break
                    # fractions
                    if dname == "cats":
                        for cats in ([0, 1, 2, 5], None):
                            with warnings.catch_warnings():
                                warnings.simplefilter("ignore")
                                fr = br.get_fractions(ddata, categories=cats)
                            fr = {float(k): np.asarray(v) for k, v in fr.items()}
                            res[f"frac.{cats}"] = {k: _fl(v) for k, v in fr.items()}
                            tot = [Fraction(0)] * size
                            for k, v in fr.items():
                                if ctx.M:
                                    rep = ctx.M.ask("frac", size, Fraction(k), midx, _wire(vals))
                                    _cmp(ctx, "frac", {**inp, "cat": k}, v, rep)
                                fv = _fl(v)
                                for b in range(size):
                                    if fv[b] is not None:
                                        tot[b] += fv[b]
                                    pts = [vals[i] for i in inside if cell[i] == b]
                                    want = Fraction(sum(1 for p in pts if p == Fraction(k)), len(pts)) if pts else None
                                    if not any(amb) and _f(fv[b]) != _f(want):
                                        ctx.fail("BucketResampler.get_fractions", "category fraction differs from that of the points in the cell",
                                                 {**inp, "cat": k}, {"cell": b}, size=size)
                                        break
                            if not any(amb):
                                for b in range(size):
                                    if want_cnt[b] and abs(tot[b] - 1) > Fraction(1, 10 ** 12):
                                        ctx.fail("BucketResampler.get_fractions", "fractions over all categories do not sum to 1 in a non-empty cell",
                                                 inp, {"cell": b, "sum": float(tot[b])}, size=size)
                                        break
                    multi = max(want_cnt) >= 2 if want_cnt else False
                    ctx.case("getters", (name, ck, ch, dname, dch), nontrivial=multi and len(inside) < n,
                             sample={"input": inp, "count": res["count"]} if dname == "ints" else None)
            results_by_chunk[ch] = res
        # chunk invariance (oracle, model-free): identical results for every chunking
        base_ch, base = next(iter(results_by_chunk.items()))
        for ch, res in results_by_chunk.items():
            for k, v in res.items():
                if base.get(k) != v:
                    ctx.fail("BucketResampler (chunking)", f"result of {k} depends on the dask chunking",
                             {"area": name, "cloud": ck, "chunks_a": base_ch, "chunks_b": ch}, size=size)
                    break
        ctx.count("clouds")


INT_FILLS = {   # finite fill values an integer type can hold (a saturated code, -1, -999, the largest code)
    "uint8": (255,), "int8": (-1, 127), "int16": (-1, -999, 255, 32767), "uint16": (255, 65535),
    "int32": (255, -1, -999), "int64": (255, -1, -999),
}


def _int_data(r, n, dtype, fill, style):
    """n integer values of `dtype`; about a quarter are the fill value (missing measurements), the others never equal it"""
    info = np.iinfo(dtype)
    if style == "small":
        lo, hi = (max(int(info.min), -9), 9) if info.min < 0 else (0, 200)
        pool = [v for v in range(lo, hi + 1) if v != fill]
        valid = [r.choice(pool) for _ in range(n)]
    elif style == "around_fill":          # valid values right next to the fill value
        pool = [v for v in (fill - 2, fill - 1, fill + 1, fill + 2, 1, 0) if int(info.min) <= v <= int(info.max) and v != fill]
        valid = [r.choice(pool) for _ in range(n)]
    else:                                 # "big": close to the limits of the type (64-bit: sums stay below 2**53)
        top, bot = (int(info.max), int(info.min)) if info.bits < 64 else (10 ** 12, -10 ** 12)
        pool = [v for v in (top, top - 1, top - 7, top // 2, bot, bot + 3 if bot < 0 else 3, 0, 1) if v != fill]
        valid = [r.choice(pool) for _ in range(n)]
    vals = [fill if r.random() < 0.25 else v for v in valid]
    return np.array(vals, dtype=dtype), vals


def run_area_integer_fill(ctx, name, area):
    """integer data (int32, int64 and the narrow types) that CONTAIN a finite fill value, passed as fill_value: per cell, from the points of the cell
    (exact membership as in run_area), get_sum(skipna=True) is the sum of the points that are not the fill value (0 where there is none),
    get_sum(skipna=False) is the fill value where the cell holds a missing point and the sum elsewhere, get_average is the mean of the valid
    points (the fill value where there is none); the grand total is the total of the valid data inside the area; for every chunking of coordinates
    and data, dask and xarray containers.  The reference is computed here in Python integers; the Lean model is asked as well."""
    import dask.array as da
    import xarray as xr
    from pyproj import Proj
    from pyresample.bucket import BucketResampler
    r = ctx.rng
    W, H = area.width, area.height
    size = W * H
    g = [Fraction(float(v)) for v in area.area_extent] + [W, H]
    for ck in ("lattice", "dense"):
        lons, lats = _cloud(ctx, area, ck)
        n = lons.size
        with warnings.catch_warnings():
            warnings.simplefilter("ignore")
            px, py = Proj(area.proj_dict)(lons, lats)
        px, py = np.asarray(px, float), np.asarray(py, float)
        fx = [(Fraction(float(x)) - g[0]) / (g[2] - g[0]) * W for x in px]
        fy = [(g[3] - Fraction(float(y))) / (g[3] - g[1]) * H for y in py]
        # points within 1e-9 pixel of a cell border (but not on it) have no certain cell: they are taken out of the cloud
        keep = [not ((0 < abs(a - round(a)) < Fraction(1, 10 ** 9)) or (0 < abs(b - round(b)) < Fraction(1, 10 ** 9))) for a, b in zip(fx, fy)]
        ctx.count("intfill.points_dropped.ambiguous_membership", n - sum(keep))
        lons, lats = lons[np.array(keep)], lats[np.array(keep)]
        fx, fy = [a for a, k_ in zip(fx, keep) if k_], [b for b, k_ in zip(fy, keep) if k_]
        n = lons.size
        if n < 4:
            continue
        cell = []
        for a, b in zip(fx, fy):
            c, q = math.floor(a), math.floor(b)
            cell.append(q * W + c if (0 <= c < W and 0 <= q < H) else -1)
        members = [[i for i in range(n) if cell[i] == b] for b in range(size)]
        dtypes = list(INT_FILLS)
        if ctx.quick:
            dtypes = ["int32", "int64"] + r.sample(["uint8", "int8", "int16", "uint16"], 1)
        chunkings = _chunkings(ctx, n)
        if ctx.quick and len(chunkings) > 2:
            chunkings = [chunkings[0], r.choice(chunkings[1:])]
        for dname in dtypes:
            fills = list(INT_FILLS[dname]) if not ctx.quick else r.sample(INT_FILLS[dname], min(2 if dname in ("int32", "int64") else 1, len(INT_FILLS[dname])))
            for fill in fills:
                style = r.choice(["small", "small", "around_fill", "big"])
                data, vals = _int_data(r, n, np.dtype(dname), fill, style)
                assert [int(v) for v in data] == vals
                want_sum, want_strict, want_avg, n_missing_cells = [], [], [], 0
                for b in range(size):
                    pts = [vals[i] for i in members[b] if vals[i] != fill]
                    missing = len(pts) < len(members[b])
                    n_missing_cells += bool(missing and pts)
                    want_sum.append(sum(pts))
                    want_strict.append(fill if missing else sum(pts))
                    want_avg.append(float(Fraction(sum(pts), len(pts))) if pts else float(fill))
                total = sum(want_sum)
                for ch in chunkings:
                    dch = ch if r.random() < 0.6 else max(1, n // 3)
                    container = r.choice(["dask", "dask", "xarray"])
                    with warnings.catch_warnings():
                        warnings.simplefilter("ignore")
                        br = BucketResampler(area, da.from_array(lons, chunks=ch), da.from_array(lats, chunks=ch))
                        midx = [int(v) for v in np.asarray(br.idxs).astype(int)]
                    ddata = da.from_array(data, chunks=dch)
                    if container == "xarray":
                        ddata = xr.DataArray(ddata, dims=("points",))
                    inp = {"area": name, "extent": list(map(float, area.area_extent)), "shape": [H, W], "cloud": ck, "n": int(n), "coord_chunks": ch,
                           "data_chunks": dch, "container": container, "dtype": dname, "fill_value": fill, "values": style,
                           "lons": [float(v) for v in lons], "lats": [float(v) for v in lats], "data": vals}
                    brief = {k: v for k, v in inp.items() if k not in ("lons", "lats", "data")}
                    for skipna, want in ((True, want_sum), (False, want_strict)):
                        try:
                            with warnings.catch_warnings():
                                warnings.simplefilter("ignore")
                                s_arr = np.asarray(br.get_sum(ddata, fill_value=fill, skipna=skipna))
                        except Exception as e:  # noqa
                            ctx.fail("BucketResampler.get_sum", f"raised {type(e).__name__}: {str(e)[:150]}", {**inp, "skipna": skipna}, tags={"cause": "raises"}, size=size)
                            continue
                        got = [int(v) if float(v) == int(v) else float(v) for v in s_arr.ravel()]
                        ctx.case("int-fill", (name, ck, ch, dch, container, dname, fill, style, skipna), nontrivial=n_missing_cells > 0 and -1 in cell,
                                 sample={"input": {**brief, "skipna": skipna}, "sum": got} if dname == "int32" else None)
                        ctx.count(f"intfill.{dname}.{'skipna' if skipna else 'strict'}")
                        if tuple(s_arr.shape) != (H, W):
                            ctx.fail("BucketResampler.get_sum", "result does not have the area's shape", {**inp, "skipna": skipna}, list(s_arr.shape), size=size)
                            continue
                        if skipna and sum(got) != total:
                            ctx.fail("BucketResampler.get_sum", f"{dname} data with fill value {fill}: sum over cells differs from the total of the valid data inside the area",
                                     {**inp, "skipna": skipna}, {"sum_cells": sum(got), "total": total}, tags={"dtype": dname}, size=size)
                        bad = [b for b in range(size) if got[b] != want[b]]
                        if bad:
                            b = bad[0]
                            ctx.fail("BucketResampler.get_sum", f"{dname} data with fill value {fill}, skipna={skipna}: per-cell sum differs from the "
                                     + ("sum of the valid points in the cell" if skipna else "documented value (fill value where a point of the cell is missing, else the sum)"),
                                     {**inp, "skipna": skipna}, {"cell": b, "impl": got[b], "want": want[b], "points_in_cell": [vals[i] for i in members[b]], "cells_differing": len(bad)},
                                     tags={"dtype": dname}, size=size)
                        if ctx.M:
                            rep = ctx.M.ask("sum", size, Fraction(fill), skipna, Fraction(0), midx, [Fraction(v) for v in vals])
                            _cmp(ctx, "sum", {**brief, "skipna": skipna}, s_arr.astype(float), rep)
                    try:
                        with warnings.catch_warnings():
                            warnings.simplefilter("ignore")
                            avg = np.asarray(br.get_average(ddata, fill_value=fill, skipna=True), float)
                    except Exception as e:  # noqa
                        ctx.fail("BucketResampler.get_average", f"raised {type(e).__name__}: {str(e)[:150]}", inp, tags={"cause": "raises"}, size=size)
                        continue
                    ctx.case("int-fill", (name, ck, ch, dch, container, dname, fill, style, "average"), nontrivial=n_missing_cells > 0)
                    bad = [b for b in range(size) if float(avg.ravel()[b]) != want_avg[b]]
                    if bad:
                        b = bad[0]
                        ctx.fail("BucketResampler.get_average", f"{dname} data with fill value {fill}: per-cell average differs from the mean of the valid points in the cell "
                                 "(the fill value where there is none)", inp, {"cell": b, "impl": float(avg.ravel()[b]), "want": want_avg[b],
                                                                               "points_in_cell": [vals[i] for i in members[b]]}, tags={"dtype": dname}, size=size)
        ctx.count("intfill.clouds")


def _cells_of(area, lons, lats):
    """exact containing cell (raveled index, -1 = outside the area) of every point, and its distance (in pixels) to the nearest cell border"""
    from pyproj import Proj
    W, H = area.width, area.height
    g = [Fraction(float(v)) for v in area.area_extent]
    with warnings.catch_warnings():
        warnings.simplefilter("ignore")
        px, py = Proj(area.proj_dict)(lons, lats)
    cell, dist = [], []
    for x, y in zip(np.asarray(px, float), np.asarray(py, float)):
        if not (math.isfinite(x) and math.isfinite(y)):
            cell.append(-1)
            dist.append(0.0)
            continue
        a = (Fraction(float(x)) - g[0]) / (g[2] - g[0]) * W
        b = (g[3] - Fraction(float(y))) / (g[3] - g[1]) * H
        c, q = math.floor(a), math.floor(b)
        cell.append(q * W + c if (0 <= c < W and 0 <= q < H) else -1)
        dist.append(float(min(abs(a - round(a)), abs(b - round(b)))))
    return cell, dist


def _cell_reference(stat, members, vals):
    """the statistic of the points of one cell (vals: exact rationals), None = reported as empty (NaN)"""
    pts = [vals[i] for i in members]
    if stat == "count":
        return Fraction(len(pts))
    if stat == "sum":
        return sum(pts, Fraction(0))
    if not pts:
        return None
    if stat == "average":
        return sum(pts, Fraction(0)) / len(pts)
    if stat == "min":
        return min(pts)
    if stat == "max":
        return max(pts)
    return max(pts, key=lambda v: (abs(v), v))      # abs_max: the value of largest magnitude (the positive one of +v / -v, as in run_area)


def run_shared_data(ctx):
    """several BucketResampler objects with DIFFERENT point->cell assignments (other geolocation of the same points, or an area of the same shape
    placed elsewhere) bin the SAME dask data array, and all their statistics are evaluated together in ONE graph (one dask.compute call, or one
    da.stack).  Every result must be the per-cell statistic of the resampler's OWN point cloud (empty cells empty), and equal the result of the
    same getter evaluated alone.  Points are kept at least a tenth of a pixel away from every cell border (membership is certain)."""
    import random

    import dask
    import dask.array as da
    import pyproj
    import xarray as xr
    from pyresample.bucket import BucketResampler
    from pyresample.geometry import AreaDefinition
    r = random.Random(f"c07-shared-data-{ctx.seed}")
    stats = ("min", "max", "abs_max", "sum", "count", "average")
    for name, area in _areas(ctx):
        W, H = area.width, area.height
        size = W * H
        x0, y0, x1, y1 = area.area_extent
        dx, dy = area.pixel_size_x, area.pixel_size_y
        inv = pyproj.Transformer.from_crs(area.crs.geodetic_crs, area.crs, always_xy=True)
        with warnings.catch_warnings():
            warnings.simplefilter("ignore")
            proj_dict = dict(area.proj_dict)
        for gi in range(1 if ctx.quick else 4):
            n = r.choice([24, 40, 75])
            U0 = np.array([r.randrange(-1, W + 1) + r.uniform(0.1, 0.9) for _ in range(n)])
            V0 = np.array([r.randrange(-1, H + 1) + r.uniform(0.1, 0.9) for _ in range(n)])
            perm = r.sample(range(n), n)
            with warnings.catch_warnings():
                warnings.simplefilter("ignore")
                moved = AreaDefinition(name + "_moved", name, name, proj_dict, W, H, (x0 + dx, y0 - dy, x1 + dx, y1 - dy))
            pool = [("base", area, U0, V0),
                    ("one cell east and north", area, U0 + 1.0, V0 - 1.0),
                    ("one cell west", area, U0 - 1.0, V0),
                    ("points in another order", area, U0[perm], V0[perm]),
                    ("independent cloud", area, np.array([r.uniform(0, W) for _ in range(n)]), np.array([r.uniform(0, H) for _ in range(n)])),
                    ("same points, area of the same shape one pixel further", moved, U0, V0)]
            chosen = [pool[0]] + (r.sample(pool[1:], 2) if ctx.quick else r.sample(pool[1:], r.choice([1, 2, 3, 5])))
            r.shuffle(chosen)
            clouds = []
            ok = np.ones(n, bool)
            for label, ar, U, V in chosen:
                lons, lats = inv.transform(x0 + U * dx, y1 - V * dy, direction="INVERSE")
                lons, lats = np.asarray(lons, float), np.asarray(lats, float)
                ok &= np.isfinite(lons) & np.isfinite(lats) & (np.abs(lats) <= 90) & (np.abs(lons) <= 180)
                clouds.append([label, ar, lons, lats])
            for c in clouds:
                _, dist = _cells_of(c[1], np.where(ok, c[2], 0.0), np.where(ok, c[3], 0.0))
                ok &= np.array(dist) > 1e-6
            n = int(ok.sum())
            if n < 6:
                ctx.count("shared.groups_skipped")
                continue
            members = []
            for label, ar, lons, lats in clouds:
                lons, lats = lons[ok], lats[ok]
                cell, _ = _cells_of(ar, lons, lats)
                members.append({"label": label, "area": ar, "lons": lons, "lats": lats, "cell": cell,
                                "in_cell": [[i for i in range(n) if cell[i] == b] for b in range(size)]})
            differ = len({tuple(m["cell"]) for m in members}) > 1
            datasets = {k: v for k, v in _datasets(_RngOnly(r), n).items() if k in ("ints", "dyadic", "neg_only", "f32", "i16")}
            dnames = sorted(datasets) if not ctx.quick else r.sample(sorted(datasets), 2)
            for dname in dnames:
                data = datasets[dname]
                vals = _fl(data)
                ch = r.choice([n, n // 3 + 1, 7])
                ddata = da.from_array(data, chunks=ch)
                container = r.choice(["dask", "dask", "xarray"])
                arg = xr.DataArray(ddata, dims=("points",)) if container == "xarray" else ddata
                mode = r.choice(["dask.compute", "dask.compute", "da.stack"])
                lazies = []
                with warnings.catch_warnings():
                    warnings.simplefilter("ignore")
                    for mi, m in enumerate(members):
                        cch = r.choice([ch, n])
                        m["coord_chunks"] = cch
                        m["br"] = BucketResampler(m["area"], da.from_array(m["lons"], chunks=cch), da.from_array(m["lats"], chunks=cch))
                        for stat in stats:
                            lazies.append((mi, stat, getattr(m["br"], "get_" + stat)(*(() if stat == "count" else (arg,)))))
                    r.shuffle(lazies)
                    if mode == "dask.compute":
                        together = dask.compute(*[lz[2] for lz in lazies])
                    else:
                        together = list(da.stack([lz[2] for lz in lazies]).compute())
                inp = {"area": name, "proj": str(proj_dict), "shape": [H, W], "n": n, "data": dname, "values": [float(v) for v in data], "data_chunks": ch,
                       "container": container, "evaluated": mode + " of all results below, in this order",
                       "order": [[mi, stat] for mi, stat, _ in lazies],
                       "resamplers": [{"what": m["label"], "extent": [float(v) for v in m["area"].area_extent], "coord_chunks": m["coord_chunks"],
                                       "lons": [float(v) for v in m["lons"]], "lats": [float(v) for v in m["lats"]]} for m in members]}
                brief = {k: v for k, v in inp.items() if k not in ("values", "resamplers", "order")}
                brief["resamplers"] = [m["label"] for m in members]
                for (mi, stat, lz), got in zip(lazies, together):
                    m = members[mi]
                    got = np.asarray(got, float)
                    site = f"BucketResampler.get_{stat}"
                    me = {"resampler": mi, "what": m["label"], "statistic": stat}
                    multi = any(len(c) >= 2 for c in m["in_cell"])
                    ctx.case("shared-data", (name, gi, dname, ch, container, mode, m["label"], stat, len(members)),
                             nontrivial=differ and multi and -1 in m["cell"],
                             sample={"input": {**brief, **me}, "result": got.ravel().tolist()} if stat == "abs_max" else None)
                    ctx.count(f"shared.{stat}")
                    ctx.count(f"shared.members.{len(members)}")
                    ctx.count(f"shared.mode.{mode}")
                    if tuple(got.shape) != (H, W):
                        ctx.fail(site, "result does not have the area's shape", {**inp, **me}, list(got.shape), size=size)
                        continue
                    want = [_f(_cell_reference(stat, m["in_cell"][b], vals)) for b in range(size)]
                    impl = [_f(v) for v in _fl(got)]
                    bad = [b for b in range(size) if impl[b] != want[b]]
                    if bad:
                        b = bad[0]
                        ctx.fail(site, f"{len(members)} resamplers over one data array, all results evaluated in one graph ({mode}): per-cell {stat} of resampler "
                                 f"'{m['label']}' differs from that of the points of its own cloud in the cell (empty cells must be "
                                 + ("0" if stat in ("sum", "count") else "NaN") + ")",
                                 {**inp, **me}, {"cell": b, "impl": impl[b], "want": want[b], "points_in_cell": [float(vals[i]) for i in m["in_cell"][b]],
                                                 "cells_differing": len(bad)}, tags={"shared_data": True, "statistic": stat}, size=size)
                    if ctx.quick and stat in ("sum", "count", "average") and r.random() < 0.5:
                        continue
                    with warnings.catch_warnings():
                        warnings.simplefilter("ignore")
                        alone = np.asarray(lz.compute(), float)
                    if alone.shape != got.shape or not np.array_equal(alone, got, equal_nan=True):
                        ctx.fail(site, f"the {stat} of resampler '{m['label']}' evaluated together with the results of {len(members) - 1} other resamplers over the same data "
                                 f"array ({mode}) differs from the same result evaluated alone", {**inp, **me},
                                 {"together": got.ravel().tolist(), "alone": alone.ravel().tolist()}, tags={"shared_data": True, "statistic": stat, "oracle": "alone"}, size=size)
            ctx.count("shared.groups")


class _RngOnly:
    """what _datasets needs of a context, with another random stream"""
    quick = False

    def __init__(self, rng):
        self.rng = rng


def run(ctx):
    import dask
    dask.config.set(scheduler="synchronous")
    for name, area in _areas(ctx):
        run_area(ctx, name, area)
    for name, area in _areas(ctx):
        run_area_integer_fill(ctx, name, area)
    run_shared_data(ctx)
