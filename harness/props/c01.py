"""C01 — an area's pixel grid, projection coordinates and lon/lats are one consistent map."""
import itertools
import warnings
from fractions import Fraction

import numpy as np

META = {
    "rule": "one case = (area, accessor, arguments). Areas: CRS table x extents (exact class: geographic CRS with dyadic "
            "extents; tolerance class: projected CRSs, large offsets, extreme aspect ratios, flipped axes) x shapes 1x1.. "
            "x dtypes f32/f64; chunkings: every composition of H and W for small shapes + ragged chunks; data_slice: "
            "unit slices, None, integer indices; points: every pixel centre, cell borders, +-{0.49,0.5,0.51,0.519,0.521,1} px "
            "outside each edge + points scattered over a window twice the area's size, all sent through lookup -> (masked) index -> projection / lon/lat; "
            "families of 2-4 areas cut from one pixel lattice (whole grid, top rows, left columns, upper-left window, shifted window, half resolution, "
            "float32) whose dask coordinates / lon/lats are evaluated in ONE dask.compute; "
            "call histories on one object (dtype / chunks varied) against fresh objects. Non-trivial: "
            ">= 2 chunks on an axis, a proper slice, an off-grid point, or a history with two different dtypes. "
            "Distinct = distinct canonical input.",
    "assumptions": ["exact class: arange*pixel_size+offset is exact for dyadic extents", "pyproj inverse/forward treated as data "
                    "(harness calls pyproj itself on the model's coordinates); round trip forward(inverse(p)) = p to 1e-6 px"],
}

LL = {"proj": "longlat", "datum": "WGS84"}
CRS_TABLE = [
    ("eqc", {"proj": "eqc", "lon_0": 0, "ellps": "WGS84"}, (-2e6, -1e6, 2e6, 3e6)),
    ("merc", {"proj": "merc", "lon_0": 10, "ellps": "WGS84"}, (-3e5, 5.0e6, 3e5, 5.6e6)),
    ("laea", {"proj": "laea", "lat_0": 60, "lon_0": 20, "ellps": "WGS84"}, (-3.5e5, -4.5e5, 3.5e5, 4.5e5)),
    ("stere_n", {"proj": "stere", "lat_0": 90, "lat_ts": 60, "lon_0": 0, "ellps": "WGS84"}, (-1e6, -3.5e6, 1.5e6, -1e6)),
    ("stere_s", {"proj": "stere", "lat_0": -90, "lat_ts": -70, "lon_0": 0, "ellps": "WGS84"}, (-8e5, -7e5, 0.0, 7e5)),
    ("geos", {"proj": "geos", "lon_0": 0, "h": 35785831, "a": 6378169, "b": 6356583.8}, (-1.5e6, 1.0e6, 1.5e6, 3.0e6)),
    ("utm", {"proj": "utm", "zone": 33, "ellps": "WGS84"}, (3e5, 6.0e6, 7.5e5, 6.2e6)),
    ("lcc", {"proj": "lcc", "lat_1": 30, "lat_2": 60, "lat_0": 45, "lon_0": 10, "ellps": "WGS84"}, (-6e5, -6e5, 6e5, 6e5)),
    ("laea_km", {"proj": "laea", "lat_0": 50, "lon_0": 10, "ellps": "WGS84", "units": "km"}, (-300.0, -200.0, 300.0, 200.0)),
    # non-Greenwich prime meridians: lon/lats are always relative to Greenwich, whichever accessor produces them
    ("eqc_pm180", {"proj": "eqc", "lon_0": 0, "pm": 180, "ellps": "WGS84"}, (-2e6, -1e6, 2e6, 3e6)),
    ("laea_pm_paris", {"proj": "laea", "lat_0": 48, "lon_0": 3, "pm": "paris", "ellps": "WGS84"}, (-3.5e5, -4.5e5, 3.5e5, 4.5e5)),
    ("longlat_pm180", {"proj": "longlat", "pm": 180, "ellps": "WGS84"}, (-20.0, 30.0, 25.0, 60.0)),
    # datums with a known shift to WGS84: lon/lats of an area are on the area's own datum, in both directions
    ("gk_potsdam", {"proj": "tmerc", "lat_0": 0, "lon_0": 9, "k": 1, "x_0": 3500000, "y_0": 0, "datum": "potsdam", "units": "m"}, (3.45e6, 5.55e6, 3.4501e6, 5.5501e6)),
    ("osgb36", "EPSG:27700", (400000.0, 300000.0, 400100.0, 300100.0)),
]


def _mk(proj, w, h, ext, dtype=np.float64):
    from pyresample.geometry import AreaDefinition
    with warnings.catch_warnings():
        warnings.simplefilter("ignore")
        return AreaDefinition("a", "a", "a", proj, w, h, ext, dtype=dtype)


def _g(area):
    return [Fraction(float(v)) for v in area.area_extent] + [area.width, area.height]


def _areas(ctx):
    r = ctx.rng
    out = []
    for (w, h) in [(1, 1), (4, 3), (3, 5), (8, 2)] + ([] if ctx.quick else [(16, 16), (2, 48), (1, 7)]):
        out.append((f"ll_{w}x{h}", _mk(LL, w, h, (-8.0, 16.0, -8.0 + w * 0.5, 16.0 + h * 0.25)), True))
    out.append(("ll_flipped_y", _mk(LL, 4, 3, (-8.0, 17.5, -6.0, 16.0)), True))
    out.append(("ll_flipped_x", _mk(LL, 4, 3, (-6.0, 16.0, -8.0, 17.5)), True))
    table = CRS_TABLE if not ctx.quick else CRS_TABLE[:6] + CRS_TABLE[8:9] + [ctx.rng.choice(CRS_TABLE[9:12])] + [ctx.rng.choice(CRS_TABLE[12:])]
    for name, proj, ext in table:
        w, h = r.randrange(2, 9), r.randrange(2, 9)
        out.append((f"{name}_{w}x{h}", _mk(proj, w, h, ext), False))
    out.append(("laea_aspect", _mk(CRS_TABLE[2][1], 3, 4, (-3.0e5, -300.0, 3.0e5, 300.0)), False))
    out.append(("merc_far", _mk(CRS_TABLE[1][1], 5, 4, (1.2e7, 8.0e6, 1.2e7 + 5 * 1234.5, 8.0e6 + 4 * 987.25)), False))
    return out


def _compositions(n):
    """all ordered tuples of positive ints summing to n"""
    if n == 0:
        return [()]
    res = []
    for first in range(1, n + 1):
        for rest in _compositions(n - first):
            res.append((first,) + rest)
    return res


def _close(a, b, tol):
    a, b = np.asarray(a, dtype=np.float64), np.asarray(b, dtype=np.float64)
    return a.shape == b.shape and bool(np.all(np.abs(a - b) <= tol))


def _fr_arr(vals):
    return [Fraction(float(v)) for v in np.asarray(vals, dtype=np.float64).ravel()]


def check_area(ctx, name, area, exact):
    import pyproj
    from pyresample.utils.proj4 import get_geodetic_crs_with_no_datum_shift
    W, H = area.width, area.height
    g = _g(area)
    x0, y0, x1, y1 = g[:4]
    dx, dy = (x1 - x0) / W, (y1 - y0) / H
    scale = float(max(abs(v) for v in g[:4]) or 1)
    inp0 = {"area": name, "extent": [float(v) for v in g[:4]], "shape": [H, W]}
    # ---- 1-D vectors -----------------------------------------------------------------------
    want_x = [x0 + (Fraction(c) + Fraction(1, 2)) * dx for c in range(W)]
    want_y = [y1 - (Fraction(r) + Fraction(1, 2)) * dy for r in range(H)]
    mx = my = None
    if ctx.M:
        toks = ctx.M.ask("vectors", *g).split()
        mx = [Fraction(t) for t in toks[1:1 + W]]
        my = [Fraction(t) for t in toks[2 + W:]]
    for dtype, eps in ((np.float64, 2.0 ** -52), (np.float32, 2.0 ** -23)):
        for chunks in (None, 2, (1, 3)):
            with warnings.catch_warnings():
                warnings.simplefilter("ignore")
                vx, vy = area.get_proj_vectors(dtype=dtype, chunks=chunks)
            vx, vy = np.asarray(vx), np.asarray(vy)
            tol = 0.0 if (exact and dtype is np.float64) else 8 * eps * scale
            okx = _close(vx, [float(v) for v in want_x], tol) and vx.dtype == dtype
            oky = _close(vy, [float(v) for v in want_y], tol) and vy.dtype == dtype
            inp = {**inp0, "accessor": "get_proj_vectors", "dtype": np.dtype(dtype).name, "chunks": chunks}
            if not (okx and oky):
                ctx.fail("AreaDefinition.get_proj_vectors", "projection vectors differ from xmin+(c+1/2)dx / ymax-(r+1/2)dy (or wrong dtype)",
                         inp, {"x": vx.tolist()[:6], "y": vy.tolist()[:6], "dtype": str(vx.dtype)}, size=W + H)
            if mx is not None and dtype is np.float64 and exact and (_fr_arr(vx) != mx or _fr_arr(vy) != my):
                ctx.disagree("vectors", inp, vx.tolist(), [float(v) for v in mx])
            ctx.case("vectors", (name, np.dtype(dtype).name, str(chunks)), nontrivial=chunks is not None, sample={"input": inp})
    with warnings.catch_warnings():
        warnings.simplefilter("ignore")
        fx, fy = area.get_proj_coords()
        flon, flat = area.get_lonlats()
    tolc = 0.0 if exact else 8 * 2.0 ** -52 * scale
    wx2, wy2 = np.meshgrid([float(v) for v in want_x], [float(v) for v in want_y])
    if not (_close(fx, wx2, tolc) and _close(fy, wy2, tolc)):
        ctx.fail("AreaDefinition.get_proj_coords", "2-D projection coordinates differ from the grid formula", inp0, size=W * H)
    if not (np.array_equal(area.projection_x_coords, area.get_proj_vectors()[0]) and np.array_equal(area.projection_y_coords, area.get_proj_vectors()[1])):
        ctx.fail("AreaDefinition.projection_x_coords", "projection_x/y_coords differ from get_proj_vectors", inp0, size=W)
    # lon/lat: geodetic inverse of the centres (harness-side pyproj on the exact centres)
    gcrs = get_geodetic_crs_with_no_datum_shift(area.crs)
    tr = pyproj.Transformer.from_crs(gcrs, area.crs, always_xy=True)
    wlon, wlat = tr.transform(wx2, wy2, direction="INVERSE")
    lltol = 1e-9
    fin = np.isfinite(wlon) & np.isfinite(wlat)
    if not (np.array_equal(np.isfinite(flon), fin) and _close(flon[fin], wlon[fin], lltol) and _close(flat[fin], wlat[fin], lltol)):
        ctx.fail("AreaDefinition.get_lonlats", "lon/lats are not the geodetic inverse of the pixel centres", inp0, size=W * H)
    # ---- dask chunkings ---------------------------------------------------------------------
    if H <= 4 and W <= 4:
        chunkings = [(rc, cc) for rc in _compositions(H) for cc in _compositions(W)]
        if ctx.quick and len(chunkings) > 24:
            chunkings = chunkings[:8] + ctx.rng.sample(chunkings[8:], 16)
        ctx.exhaustive.setdefault("chunkings", "every composition of H and W for areas <= 4x4 (sampled in quick when > 24)")
    else:
        def ragged(n):
            parts, left = [], n
            while left:
                k = ctx.rng.randrange(1, min(left, 3) + 1)
                parts.append(k)
                left -= k
            return tuple(parts)
        chunkings = [((H,), (W,)), (ragged(H), ragged(W)), (tuple([1] * H), (W,)), ((H,), tuple([1] * W))]
    for rc, cc in chunkings:
        inp = {**inp0, "row_chunks": list(rc), "col_chunks": list(cc)}
        with warnings.catch_warnings():
            warnings.simplefilter("ignore")
            dx_, dy_ = area.get_proj_coords(chunks=(rc, cc))
            dl, dt = area.get_lonlats(chunks=(rc, cc))
            ok = dx_.chunks == (rc, cc) and np.array_equal(np.asarray(dx_), fx) and np.array_equal(np.asarray(dy_), fy)
            okl = np.array_equal(np.asarray(dl), flon, equal_nan=True) and np.array_equal(np.asarray(dt), flat, equal_nan=True)
        if not ok:
            ctx.fail("AreaDefinition.get_proj_coords(chunks=)", "dask-chunked projection coordinates differ from the numpy ones for this chunking", inp, size=W * H)
        if not okl:
            ctx.fail("AreaDefinition.get_lonlats(chunks=)", "dask-chunked lon/lats differ from the numpy ones for this chunking", inp, size=W * H)
        if ctx.M and exact:
            rep = ctx.M.ask("blocks", *g, list(rc), list(cc))
            rows = [[tuple(Fraction(v) for v in cell.split(",")) for cell in row.split()] for row in rep.split(" | ")]
            impl = [[(Fraction(float(a)), Fraction(float(b))) for a, b in zip(rx, ry)] for rx, ry in zip(np.asarray(dx_), np.asarray(dy_))]
            if rows != impl:
                ctx.disagree("blocks", inp, "dask coords", "model blocks")
        ctx.case("chunkings", (name, rc, cc), nontrivial=len(rc) > 1 or len(cc) > 1, sample={"input": inp})
    # ---- data_slice ---------------------------------------------------------------------------
    slices = [None, slice(None), slice(0, 1), slice(1, None), slice(-2, None), slice(None, -1), slice(1, H + 3), 0, H - 1, -1]
    xsl = [slice(None), slice(1, None), slice(None, -1), slice(-2, W + 5), 0, W - 1]
    combos = [(a, b) for a in slices for b in xsl if a is not None] + [(None, None)]
    if ctx.quick:
        combos = combos[:6] + ctx.rng.sample(combos[6:], min(14, len(combos) - 6))
    for ys, xs in combos:
        ds = None if ys is None else (ys, xs)
        want = (fx, fy, flon, flat) if ds is None else tuple(np.atleast_2d(v[ds]) if False else v[ds] for v in (fx, fy, flon, flat))
        if ds is not None and any(np.asarray(v).size == 0 for v in want):
            continue
        inp = {**inp0, "data_slice": str(ds)}
        for chunks in (None, 2):
            try:
                with warnings.catch_warnings():
                    warnings.simplefilter("ignore")
                    px, py = area.get_proj_coords(data_slice=ds, chunks=chunks)
                    lo, la = area.get_lonlats(data_slice=ds, chunks=chunks)
                    got = [np.asarray(v) for v in (px, py, lo, la)]
            except Exception as e:  # noqa
                ctx.fail("AreaDefinition.get_lonlats(data_slice=)", f"coordinates for a valid data_slice raised {type(e).__name__}: {e}",
                         {**inp, "chunks": chunks}, tags={"kind": "raises"}, size=5)
                continue
            # integer indices: the numpy path keeps 2-D shape, the dask path drops the axis; values must agree
            for nm, gv, wv in zip(("proj_x", "proj_y", "lon", "lat"), got, want):
                if np.squeeze(gv).shape != np.squeeze(wv).shape or not np.array_equal(np.squeeze(gv), np.squeeze(wv), equal_nan=True):
                    ctx.fail("AreaDefinition.get_lonlats(data_slice=)", f"{nm} computed for a data_slice is not that slice of the whole array",
                             {**inp, "chunks": chunks}, {"got": np.squeeze(gv).tolist(), "want": np.squeeze(wv).tolist()}, size=5)
                    break
        if ctx.M and exact and isinstance(ys, slice) and isinstance(xs, slice):
            rep = ctx.M.ask("sliced", *g, *["none" if v is None else v for v in (ys.start, ys.stop, xs.start, xs.stop)])
            rows = [[tuple(Fraction(v) for v in cell.split(",")) for cell in row.split()] for row in rep.split(" | ")] if rep.strip() else []
            px, py = area.get_proj_coords(data_slice=ds)
            impl = [[(Fraction(float(a)), Fraction(float(b))) for a, b in zip(rx, ry)] for rx, ry in zip(px, py)]
            if rows != impl:
                ctx.disagree("sliced", inp, "numpy sliced coords", "model")
        ctx.case("data_slice", (name, str(ds)), nontrivial=ds is not None, sample={"input": inp})
    # ---- single pixel accessors --------------------------------------------------------------
    pix = [(r, c) for r in range(H) for c in range(W)]
    if len(pix) > 12:
        pix = ctx.rng.sample(pix, 12)
    for r, c in pix:
        if not fin[r, c]:
            continue
        inp = {**inp0, "row": r, "col": c}
        with warnings.catch_warnings():
            warnings.simplefilter("ignore")
            a1 = area.get_lonlat(r, c)
            a2 = area.colrow2lonlat(c, r)
            a3 = area.get_lonlat_from_array_coordinates(c, r)
            a4 = area.get_lonlat_from_projection_coordinates(fx[r, c], fy[r, c])
            a5 = area.colrow2lonlat(np.array([c]), np.array([r]))
            p1 = area.get_projection_coordinates_from_array_coordinates(c, r)
        ref = (flon[r, c], flat[r, c])
        for nm, v in (("get_lonlat", a1), ("colrow2lonlat", a2), ("get_lonlat_from_array_coordinates", a3),
                      ("get_lonlat_from_projection_coordinates", a4), ("colrow2lonlat[array]", (a5[0][0], a5[1][0]))):
            if not (abs(float(v[0]) - ref[0]) <= lltol and abs(float(v[1]) - ref[1]) <= lltol):
                ctx.fail(f"AreaDefinition.{nm}", "single-pixel lon/lat differs from get_lonlats()[r, c]", inp,
                         {"got": [float(v[0]), float(v[1])], "want": [float(ref[0]), float(ref[1])]}, size=3)
        if not (abs(float(p1[0]) - fx[r, c]) <= tolc and abs(float(p1[1]) - fy[r, c]) <= tolc):
            ctx.fail("AreaDefinition.get_projection_coordinates_from_array_coordinates", "differs from get_proj_coords()[r, c]", inp, size=3)
        ctx.case("pixel_accessors", (name, r, c), nontrivial=True)
    # ---- conversions and index lookups on a point lattice ---------------------------------------
    offs = [-1, -0.521, -0.519, -0.51, -0.5, -0.49, 0, 0.25, 0.5]
    us = sorted(set([c + o for c in (0, W - 1) for o in offs] + [W - 1 + 0.49, W - 1 + 0.5, W - 1 + 0.51, W - 1 + 0.519, W - 1 + 0.521, W] +
                    [c + 0.0 for c in range(W)] + [c + 0.5 for c in range(W)]))
    vs = sorted(set([r + o for r in (0, H - 1) for o in offs] + [H - 1 + 0.49, H - 1 + 0.5, H - 1 + 0.51, H - 1 + 0.519, H - 1 + 0.521, H] +
                    [r + 0.0 for r in range(H)]))
    pts = [(u, v) for u in us for v in vs]
    if len(pts) > (120 if ctx.quick else 600):
        pts = ctx.rng.sample(pts, 120 if ctx.quick else 600)
    cols = np.array([p[0] for p in pts])
    rows_ = np.array([p[1] for p in pts])
    with warnings.catch_warnings():
        warnings.simplefilter("ignore")
        px, py = area.get_projection_coordinates_from_array_coordinates(cols, rows_)
        bc, br = area.get_array_coordinates_from_projection_coordinates(px, py)
        ix, iy = area.get_array_indices_from_projection_coordinates(px, py)
        lon, lat = area.get_lonlat_from_projection_coordinates(px, py)
        okll = np.isfinite(lon) & np.isfinite(lat)
        qx, qy = area.get_projection_coordinates_from_lonlat(lon, lat)
        ac, ar = area.get_array_coordinates_from_lonlat(lon, lat)
        jx, jy = area.get_array_indices_from_lonlat(lon, lat)
    pxtol = 0.0 if exact else 1e-6
    if not (_close(bc, cols, pxtol if not exact else 1e-12) and _close(br, rows_, pxtol if not exact else 1e-12)):
        ctx.fail("AreaDefinition.get_array_coordinates_from_projection_coordinates", "array -> projection -> array is not the identity", inp0, size=5)
    if okll.any() and not (_close(ac[okll], cols[okll], 1e-6) and _close(ar[okll], rows_[okll], 1e-6)
                           and _close(qx[okll], px[okll], 1e-6 * abs(float(dx)) + 1e-9 * scale) and _close(qy[okll], py[okll], 1e-6 * abs(float(dy)) + 1e-9 * scale)):
        ctx.fail("AreaDefinition.get_array_coordinates_from_lonlat", "array -> lon/lat -> projection/array round trip is not the identity (1e-6 px)", inp0, size=5)
    mxm, mym = np.ma.getmaskarray(ix), np.ma.getmaskarray(iy)
    flipped = float(dx) < 0 or float(dy) < 0
    for k, (u, v) in enumerate(pts):
        inp = {**inp0, "col": u, "row": v, "proj_x": float(px[k]), "proj_y": float(py[k])}
        fu, fv = Fraction(u), Fraction(v)
        on_half = (fu * 2) % 2 == 1 or (fv * 2) % 2 == 1
        edge = any(abs(t - e) < Fraction(1, 1000) for t, n in ((fu, W), (fv, H)) for e in (Fraction(-52, 100), Fraction(n * 100 - 48, 100)))
        got = None if (mxm[k] or mym[k]) else (int(np.ma.getdata(iy)[k]), int(np.ma.getdata(ix)[k]))
        # oracle: containing pixel (closed), masked beyond the 0.02 tolerance
        if not on_half or exact:
            inside = (-Fraction(1, 2) <= fu <= W - Fraction(1, 2)) and (-Fraction(1, 2) <= fv <= H - Fraction(1, 2))
            beyond = fu < -Fraction(52, 100) - Fraction(1, 10 ** 6) or fu > W - Fraction(48, 100) + Fraction(1, 10 ** 6) or \
                fv < -Fraction(52, 100) - Fraction(1, 10 ** 6) or fv > H - Fraction(48, 100) + Fraction(1, 10 ** 6)
            if beyond and got is not None and (exact or not edge):
                ctx.fail("AreaDefinition.get_array_indices_from_projection_coordinates", "point outside the extent beyond the edge tolerance is not masked",
                         inp, got, size=4)
            if inside and (exact or not on_half):
                if got is None:
                    ctx.fail("AreaDefinition.get_array_indices_from_projection_coordinates", "point inside the extent is masked", inp, size=4)
                elif not (abs(Fraction(got[1]) - fu) <= Fraction(1, 2) and abs(Fraction(got[0]) - fv) <= Fraction(1, 2)):
                    ctx.fail("AreaDefinition.get_array_indices_from_projection_coordinates", "returned pixel does not contain the point", inp, got, size=4)
        # scalar form: rejects iff the array form masks
        if k % 5 == 0:
            try:
                with warnings.catch_warnings():
                    warnings.simplefilter("ignore")
                    sc, sr = area.get_array_indices_from_projection_coordinates(float(px[k]), float(py[k]))
                sgot = (int(sr), int(sc))
            except ValueError:
                sgot = None
            if sgot != got:
                ctx.fail("AreaDefinition.get_array_indices_from_projection_coordinates", "scalar and array lookups disagree (scalar must reject exactly the masked points)",
                         inp, {"scalar": sgot, "array": got}, size=4)
        # lon/lat variant agrees with the projection-coordinate variant away from the discontinuities
        if okll[k] and not on_half and not edge:
            g2 = None if (np.ma.getmaskarray(jx)[k] or np.ma.getmaskarray(jy)[k]) else (int(np.ma.getdata(jy)[k]), int(np.ma.getdata(jx)[k]))
            if g2 != got:
                ctx.fail("AreaDefinition.get_array_indices_from_lonlat", "lookup by lon/lat differs from lookup by projection coordinates", inp,
                         {"lonlat": g2, "proj": got}, size=4)
        if ctx.M and not flipped:
            rep = ctx.M.ask("conv", *g, Fraction(float(px[k])), Fraction(float(py[k]))).split()
            m_arr = (Fraction(rep[0]), Fraction(rep[1]))
            if exact and (Fraction(float(bc[k])) != m_arr[0] or Fraction(float(br[k])) != m_arr[1]):
                ctx.disagree("conv.array_coords", inp, [float(bc[k]), float(br[k])], [float(m_arr[0]), float(m_arr[1])])
            want = (rep[2] == "1", int(rep[3]), rep[4] == "1", int(rep[5]))
            impl = (bool(mxm[k]), int(np.ma.getdata(ix)[k]), bool(mym[k]), int(np.ma.getdata(iy)[k]))
            if impl != want and (exact or not (on_half or edge)):
                ctx.disagree("conv.indices", inp, impl, want)
        ctx.case("points", (name, u, v), nontrivial=not (0 <= u <= W - 1 and 0 <= v <= H - 1) or on_half, sample={"input": inp, "impl": got} if k % 40 == 0 else None)
    _index_round_trip(ctx, name, area, exact, pts, tr)


def _index_round_trip(ctx, name, area, exact, lattice, tr):
    """The integer index lookups and the index -> projection / index -> lon/lat conversions are one map in both directions: the (masked) index
    arrays a lookup returns, handed to get_projection_coordinates_from_array_coordinates / get_lonlat_from_array_coordinates, give every point
    inside the extent the centre of the pixel that contains it, and give NO location (x and y both unmasked) to a point outside the extent.
    Points: the lattice of check_area plus points scattered over a window twice the size of the area; points within 0.03 px of the limits of
    the edge tolerance zone are left out (either answer is allowed there).  Expected values come from the grid formula (exact rationals)."""
    r = ctx.rng
    W, H = area.width, area.height
    g = _g(area)
    x0, y0, x1, y1 = g[:4]
    dx, dy = (x1 - x0) / W, (y1 - y0) / H
    scale = float(max(abs(v) for v in g[:4]) or 1)
    tolc = 0.0 if exact else 8 * 2.0 ** -52 * scale
    far = [(r.uniform(-0.5 * W - 0.5, 1.5 * W - 0.5), r.uniform(-0.5 * H - 0.5, 1.5 * H - 0.5)) for _ in range(16 if ctx.quick else 80)]
    pts = list(lattice) + [(round(u * 64) / 64, round(v * 64) / 64) for u, v in far]      # dyadic: exact in the rational oracle

    def zone(t, n):     # 'in' / 'out' / None (tolerance zone, or a cell border when the area is not of the exact class)
        t = Fraction(t)
        lo, hi = -Fraction(1, 2), n - Fraction(1, 2)
        if any(abs(t - e) <= Fraction(3, 100) for e in (lo, hi, lo - Fraction(2, 100), hi + Fraction(2, 100))):
            return None
        return "in" if lo < t < hi else "out"
    cls = []
    for u, v in pts:
        zu, zv = zone(u, W), zone(v, H)
        cls.append(None if (zu is None or zv is None) else ("in" if (zu == "in" and zv == "in") else "out"))
    cols = np.array([p[0] for p in pts], dtype=np.float64)
    rows_ = np.array([p[1] for p in pts], dtype=np.float64)
    wantx = [x0 + (Fraction(u) + Fraction(1, 2)) * dx for u, _ in pts]      # the points themselves, from the grid formula
    wanty = [y1 - (Fraction(v) + Fraction(1, 2)) * dy for _, v in pts]
    px = np.array([float(v) for v in wantx])
    py = np.array([float(v) for v in wanty])
    with warnings.catch_warnings():
        warnings.simplefilter("ignore")
        plon, plat = tr.transform(px, py, direction="INVERSE")
    llok = np.isfinite(plon) & np.isfinite(plat)
    inp0 = {"area": name, "extent": [float(v) for v in g[:4]], "shape": [H, W]}
    routes = [("projection", "AreaDefinition.get_array_indices_from_projection_coordinates", lambda: area.get_array_indices_from_projection_coordinates(px, py), None)]
    if llok.any():
        sel = np.flatnonzero(llok)
        routes.append(("lonlat", "AreaDefinition.get_array_indices_from_lonlat", lambda: area.get_array_indices_from_lonlat(plon[sel], plat[sel]), sel))
    for route, lookup_site, lookup, sel in routes:
        idx = np.arange(len(pts)) if sel is None else sel
        try:
            with warnings.catch_warnings():
                warnings.simplefilter("ignore")
                ic, ir = lookup()
                bx, by = area.get_projection_coordinates_from_array_coordinates(ic, ir)
                blon, blat = area.get_lonlat_from_array_coordinates(ic, ir)
        except Exception as e:  # noqa
            ctx.fail("AreaDefinition.get_projection_coordinates_from_array_coordinates", f"index lookup ({route}) followed by the inverse conversion raised "
                     f"{type(e).__name__}: {e}", inp0, tags={"kind": "raises"}, size=4)
            continue
        lost = np.ma.getmaskarray(ic) | np.ma.getmaskarray(ir)              # the lookup gave no pixel
        loc_p = ~(np.ma.getmaskarray(bx) | np.ma.getmaskarray(by))          # comes back with a projection location
        loc_l = ~(np.ma.getmaskarray(blon) | np.ma.getmaskarray(blat))      # comes back with a lon/lat
        bxd, byd = np.ma.getdata(bx).astype(np.float64), np.ma.getdata(by).astype(np.float64)
        # lon/lat the harness expects for a returned pixel: geodetic inverse of the centre given by the grid formula for the returned index
        icd, ird = np.ma.getdata(ic), np.ma.getdata(ir)
        n_out = 0
        told = set()        # one report per symptom, route and area (the smallest stands for the rest)
        for n_, k in enumerate(idx):
            u, v = pts[k]
            inp = {**inp0, "route": route, "col": u, "row": v, "proj_x": float(px[k]), "proj_y": float(py[k])}
            c = cls[k]
            if c == "out" or (c is None and lost[n_]):
                n_out += 1
                if loc_p[n_] and "out-p" not in told:
                    told.add("out-p")
                    ctx.fail("AreaDefinition.get_projection_coordinates_from_array_coordinates",
                             "a point outside the extent (masked by the index lookup) comes back from lookup -> index -> projection coordinates with a "
                             "location inside the area", inp, {"lookup_masked": bool(lost[n_]), "x": float(bxd[n_]), "y": float(byd[n_])},
                             tags={"kind": "mask-lost"}, size=4)
                if loc_l[n_] and "out-l" not in told:
                    told.add("out-l")
                    ctx.fail("AreaDefinition.get_lonlat_from_array_coordinates",
                             "a point outside the extent (masked by the index lookup) comes back from lookup -> index -> lon/lat with a lon/lat inside the area",
                             inp, {"lookup_masked": bool(lost[n_]), "lon": float(np.ma.getdata(blon)[n_]), "lat": float(np.ma.getdata(blat)[n_])},
                             tags={"kind": "mask-lost"}, size=4)
            elif c == "in":
                if lost[n_]:
                    continue        # reported by the lattice oracle of check_area ("point inside the extent is masked")
                if not (loc_p[n_] and loc_l[n_]):
                    ctx.fail("AreaDefinition.get_projection_coordinates_from_array_coordinates", "a point inside the extent loses its location in "
                             "lookup -> index -> projection coordinates / lon/lat (result masked)", inp, size=4)
                    continue
                cx = x0 + (Fraction(int(icd[n_])) + Fraction(1, 2)) * dx
                cy = y1 - (Fraction(int(ird[n_])) + Fraction(1, 2)) * dy
                half = Fraction(1, 2) + Fraction(1, 10 ** 6)
                contains = abs(cx - wantx[k]) <= half * abs(dx) and abs(cy - wanty[k]) <= half * abs(dy)
                centre = abs(bxd[n_] - float(cx)) <= tolc and abs(byd[n_] - float(cy)) <= tolc
                if not (contains and centre):
                    ctx.fail("AreaDefinition.get_projection_coordinates_from_array_coordinates",
                             "lookup -> index -> projection coordinates does not give the centre xmin+(c+1/2)dx, ymax-(r+1/2)dy of the pixel containing the point",
                             inp, {"index": [int(ird[n_]), int(icd[n_])], "x": float(bxd[n_]), "y": float(byd[n_])}, size=4)
                    continue
                with warnings.catch_warnings():
                    warnings.simplefilter("ignore")
                    wl, wt = tr.transform(float(cx), float(cy), direction="INVERSE")
                if np.isfinite(wl) and np.isfinite(wt) and not (abs(float(np.ma.getdata(blon)[n_]) - wl) <= 1e-9 and abs(float(np.ma.getdata(blat)[n_]) - wt) <= 1e-9):
                    ctx.fail("AreaDefinition.get_lonlat_from_array_coordinates", "lookup -> index -> lon/lat is not the geodetic inverse of the containing pixel's centre",
                             inp, {"got": [float(np.ma.getdata(blon)[n_]), float(np.ma.getdata(blat)[n_])], "want": [float(wl), float(wt)]}, size=4)
        ctx.case("index_round_trip", (name, route, len(pts)), nontrivial=n_out > 0, sample={"input": {**inp0, "route": route, "points": len(idx), "outside": n_out}})
        ctx.count("index_round_trip.outside_points", n_out)


def suite_joint_compute(ctx):
    """The dask-chunked accessors return lazy arrays; whatever else is evaluated with them, each must compute to its own area's map.
    One case = a family of 2-4 areas cut from ONE pixel lattice (same CRS, corner and pixel size: the whole grid, its top rows / left columns,
    an upper-left window, a shifted window of equal shape, the same extent at half resolution, another dtype), the same `chunks` argument for all,
    get_proj_coords(chunks=) and get_lonlats(chunks=) of every member plus a cross-area difference evaluated in ONE dask.compute.
    Oracle: the grid formula (exact rationals) for every member, its geodetic inverse through the harness's own pyproj transformer, and
    equality with the same accessor computed on its own."""
    import dask
    import dask.array as da
    import pyproj
    from pyresample.utils.proj4 import get_geodetic_crs_with_no_datum_shift
    r = ctx.rng
    table = [(n_, p, e, (1000.0, 2500.0, 4000.0)) for n_, p, e in CRS_TABLE[:8]] + \
        [("laea_km", CRS_TABLE[8][1], CRS_TABLE[8][2], (1.0, 2.5, 4.0)), ("ll", LL, (-8.0, 16.0, 0.0, 17.5), (0.25, 0.5, 0.125))]
    for it in range(12 if ctx.quick else 120):
        cname, proj, ext, sizes = table[it % len(table)] if it < len(table) else r.choice(table)
        W, H = r.randrange(5, 15), r.randrange(5, 15)
        dx = Fraction(r.choice(sizes))
        dy = Fraction(r.choice(sizes))
        ulx, uly = Fraction(ext[0]), Fraction(ext[3])
        kinds = ["top_rows", "left_cols", "ul_window", "shifted", "half_res", "float32"]
        chosen = [r.choice(kinds[:3])] + r.sample(kinds, r.randrange(1, 3))
        members = [("full", 0, 0, W, H, 1, np.float64)]
        for kd in chosen:
            if kd == "top_rows":
                members.append((kd, 0, 0, W, r.randrange(1, H), 1, np.float64))
            elif kd == "left_cols":
                members.append((kd, 0, 0, r.randrange(1, W), H, 1, np.float64))
            elif kd == "ul_window":
                members.append((kd, 0, 0, r.randrange(1, W), r.randrange(1, H), 1, np.float64))
            elif kd == "shifted":
                members.append((kd, r.randrange(1, 4), r.randrange(1, 4), W, H, 1, np.float64))
            elif kd == "half_res":
                members.append((kd, 0, 0, W, H, 2, np.float64))
            else:
                members.append((kd, 0, 0, W, H, 1, np.float32))
        chunks = r.choice([r.randrange(2, 6), (r.randrange(1, 5), r.randrange(2, 7)), 4096])
        built = []
        for kd, co, ro, w, h, f, dtype in members:
            mdx, mdy = dx * f, dy * f
            e = (ulx + co * dx, uly - ro * dy - h * mdy, ulx + co * dx + w * mdx, uly - ro * dy)
            area = _mk(proj, w, h, tuple(float(v) for v in e), dtype=dtype)
            wx = [float(e[0] + (Fraction(c) + Fraction(1, 2)) * mdx) for c in range(w)]
            wy = [float(e[3] - (Fraction(q) + Fraction(1, 2)) * mdy) for q in range(h)]
            built.append((kd, area, np.meshgrid(wx, wy), dtype, float(max(abs(v) for v in e) or 1)))
        inp = {"crs": cname, "upper_left": [float(ulx), float(uly)], "pixel_size": [float(dx), float(dy)], "chunks": chunks,
               "members": [{"kind": m[0], "col_off": m[1], "row_off": m[2], "shape": [m[4], m[3]], "pixel_factor": m[5], "dtype": np.dtype(m[6]).name} for m in members]}
        with warnings.catch_warnings():
            warnings.simplefilter("ignore")
            lazy, solo = [], []
            for kd, area, _, dtype, _ in built:
                lazy.append(tuple(area.get_proj_coords(chunks=chunks)) + tuple(area.get_lonlats(chunks=chunks)))
            # a graph that uses two areas at once: the first window member against the same pixels of the whole grid
            _, co, ro, w, h, f, dtype = members[1]
            cross = None
            if f == 1 and co + w <= W and ro + h <= H:
                cross = lazy[1][0].astype(np.float64) - lazy[0][0][ro:ro + h, co:co + w]
            try:
                joint = dask.compute(*lazy, *([cross] if cross is not None else []))
            except Exception as e:  # noqa
                ctx.fail("AreaDefinition.get_proj_coords(chunks=)", f"dask coordinates / lon/lats of several areas evaluated in one dask.compute raised "
                         f"{type(e).__name__}: {str(e)[:200]}", inp, tags={"kind": "joint-raises"}, size=len(members))
                ctx.case("joint_compute", (cname, str(members), str(chunks)), nontrivial=True)
                continue
            for kd, area, _, dtype, _ in built:
                solo.append(tuple(np.asarray(a) for a in area.get_proj_coords(chunks=chunks)) + tuple(np.asarray(a) for a in area.get_lonlats(chunks=chunks)))
        for (kd, area, (wx2, wy2), dtype, scale), got, alone in zip(built, joint, solo):
            minp = {**inp, "member": kd, "shape": list(area.shape)}
            tol = 8 * (2.0 ** -52 if dtype is np.float64 else 2.0 ** -23) * scale
            gx, gy, glon, glat = (np.asarray(a) for a in got)
            if not (_close(gx, wx2, tol) and _close(gy, wy2, tol)):
                ctx.fail("AreaDefinition.get_proj_coords(chunks=)", "dask-chunked projection coordinates computed together with those of other areas differ from "
                         "the area's own grid xmin+(c+1/2)dx / ymax-(r+1/2)dy", minp,
                         {"got_shape": list(gx.shape), "want_shape": list(wx2.shape), "got_x_row0": gx[0].tolist()[:6] if gx.ndim == 2 and gx.size else None,
                          "want_x_row0": wx2[0].tolist()[:6]}, tags={"kind": "joint"}, size=len(members))
            elif not all(a.shape == b.shape and np.array_equal(a, b, equal_nan=True) for a, b in zip((gx, gy), alone[:2])):
                ctx.fail("AreaDefinition.get_proj_coords(chunks=)", "dask-chunked projection coordinates differ between a joint dask.compute and computing them alone",
                         minp, tags={"kind": "joint"}, size=len(members))
            if dtype is np.float64:
                gcrs = get_geodetic_crs_with_no_datum_shift(area.crs)
                tr = pyproj.Transformer.from_crs(gcrs, area.crs, always_xy=True)
                with warnings.catch_warnings():
                    warnings.simplefilter("ignore")
                    wlon, wlat = tr.transform(wx2, wy2, direction="INVERSE")
                fin = np.isfinite(wlon) & np.isfinite(wlat)
                okl = glon.shape == wlon.shape and glat.shape == wlat.shape and np.array_equal(np.isfinite(glon), fin) and \
                    _close(glon[fin], wlon[fin], 1e-9) and _close(glat[fin], wlat[fin], 1e-9)
            else:
                okl = True
            okl = okl and all(a.shape == b.shape and np.array_equal(a, b, equal_nan=True) for a, b in zip((glon, glat), alone[2:]))
            if not okl:
                ctx.fail("AreaDefinition.get_lonlats(chunks=)", "dask-chunked lon/lats computed together with those of other areas are not the geodetic inverse of "
                         "the area's own pixel centres (or differ from the same accessor computed alone)", minp,
                         {"got_shape": list(glon.shape), "want_shape": list(wx2.shape)}, tags={"kind": "joint"}, size=len(members))
        if cross is not None:
            cr = np.asarray(joint[-1])
            tol = 16 * (2.0 ** -52 if members[1][6] is np.float64 else 2.0 ** -23) * built[0][4]
            if cr.shape != (members[1][4], members[1][3]) or not bool(np.all(np.abs(cr) <= tol)):
                ctx.fail("AreaDefinition.get_proj_coords(chunks=)", "x coordinates of a window and of the same pixels of the whole grid, subtracted in one dask graph, "
                         "are not equal", {**inp, "member": members[1][0]}, {"shape": list(cr.shape), "max_abs": float(np.max(np.abs(cr))) if cr.size else None},
                         tags={"kind": "joint"}, size=len(members))
        same_ul = sum(1 for m in members if m[1] == 0 and m[2] == 0 and m[5] == 1 and m[6] is np.float64)
        ctx.case("joint_compute", (cname, str(members), str(chunks)), nontrivial=same_ul >= 2, sample={"input": inp})


def suite_histories(ctx):
    """accessor calls in varying order / dtype / chunks on ONE object must equal the same call on a fresh object"""
    r = ctx.rng
    calls = [("get_proj_vectors", {}), ("get_proj_vectors", {"dtype": np.float32}), ("get_proj_vectors", {"dtype": np.float64}),
             ("get_proj_vectors", {"chunks": 2}), ("get_proj_coords", {}), ("get_proj_coords", {"dtype": np.float32}),
             ("get_proj_coords", {"chunks": 2, "dtype": np.float32}), ("get_proj_coords", {"data_slice": (slice(0, 1), slice(None))}),
             ("get_lonlats", {}), ("get_lonlats", {"dtype": np.float32}), ("get_lonlats", {"chunks": 2}),
             ("get_lonlats", {"data_slice": (slice(1, None), slice(None, 2))}), ("projection_x_coords", None), ("projection_y_coords", None)]
    for _ in range(40 if ctx.quick else 400):
        proj, ext = r.choice([(LL, (-8.0, 16.0, -6.0, 17.5)), (CRS_TABLE[2][1], CRS_TABLE[2][2]), (CRS_TABLE[1][1], CRS_TABLE[1][2])])
        w, h = r.randrange(2, 6), r.randrange(2, 6)
        obj = _mk(proj, w, h, ext)
        hist = [r.choice(calls) for _ in range(r.randrange(2, 6))]
        desc = []
        dtypes = set()
        for nm, kw in hist:
            fresh = _mk(proj, w, h, ext)
            with warnings.catch_warnings():
                warnings.simplefilter("ignore")
                if kw is None:
                    got, want = getattr(obj, nm), getattr(fresh, nm)
                    got, want = (got,), (want,)
                else:
                    got, want = getattr(obj, nm)(**kw), getattr(fresh, nm)(**kw)
            desc.append(f"{nm}({', '.join(f'{k}={getattr(v, '__name__', v)}' for k, v in (kw or {}).items())})")
            dtypes.add(str((kw or {}).get("dtype")))
            for gv, wv in zip(got, want):
                gv, wv = np.asarray(gv), np.asarray(wv)
                if gv.dtype != wv.dtype or gv.shape != wv.shape or not np.array_equal(gv, wv, equal_nan=True):
                    ctx.fail(f"AreaDefinition.{nm}", "result depends on which accessors were called on the object before "
                             "(differs from the same call on a fresh area)", {"shape": [h, w], "history": desc},
                             {"dtype_got": str(gv.dtype), "dtype_want": str(wv.dtype),
                              "max_abs_diff": float(np.nanmax(np.abs(gv.astype(float) - wv.astype(float)))) if gv.shape == wv.shape else None},
                             tags={"kind": "history"}, size=len(desc))
                    break
        ctx.case("histories", str(desc) + str(w) + str(h), nontrivial=len(dtypes) > 1, sample={"history": desc})


def run(ctx):
    for name, area, exact in _areas(ctx):
        check_area(ctx, name, area, exact)
    suite_joint_compute(ctx)
    suite_histories(ctx)
