"""C10 — slicing, stacking and concatenating areas commute with their coordinates."""
import itertools
import warnings
from fractions import Fraction

import numpy as np

META = {
    "rule": "small-scope exhaustive: every area shape H,W <= 5(6) x every unit-step slice with bounds in "
            "{None} U [-(n+2), n+2] on one axis (a few on the other) + chains of 2-3 slices + every split row, both "
            "member orders, 2- and 3-part stacks; exact class (geographic CRS, dyadic extents) compared exactly, "
            "projected areas far from the origin with tolerance; dask-coords: the dask coordinate arrays (get_proj_coords / get_lonlats with chunks=) of an area "
            "and a slice of it (upper-left anchored, interior), and of the parts / the re-assembled whole of a split area, same chunks and dtype, evaluated in one "
            "dask.compute vs the slice of the parent's numpy coordinates and vs computed alone. Non-trivial: slice with a negative / out-of-range / "
            "None bound that still selects >= 1 row and column, or a chain, or a split. Distinct = distinct canonical input.",
    "assumptions": ["exact class: dyadic extents and pixel sizes make the float extent arithmetic of __getitem__ exact"],
}

LL = {"proj": "longlat", "datum": "WGS84"}


def _area(proj, w, h, ext):
    from pyresample.geometry import AreaDefinition
    with warnings.catch_warnings():
        warnings.simplefilter("ignore")
        return AreaDefinition("a", "a", "a", proj, w, h, ext)


def _g(area):
    return [Fraction(float(v)) for v in area.area_extent] + [area.width, area.height]


def _bounds(n):
    return [None] + list(range(-(n + 2), n + 3))


def _sl(s):
    return ["none" if s.start is None else s.start, "none" if s.stop is None else s.stop]


def _parse_grid(rep):
    t = rep.split()
    return [Fraction(v) for v in t[:4]] + [int(t[4]), int(t[5])], t[6:]


def _same_extent(ext_impl, ext_model, exact, scale):
    if exact:
        return [Fraction(float(v)) for v in ext_impl] == list(ext_model)
    return all(abs(Fraction(float(a)) - b) <= Fraction(1, 10 ** 9) * scale for a, b in zip(ext_impl, ext_model))


def check_chain(ctx, area, chain, exact, suite, site="AreaDefinition.__getitem__", klass=None):
    """apply `chain` (list of (yslice, xslice)) to the real area; compare with the model and the numpy oracle"""
    xs0, ys0 = area.get_proj_vectors()
    xs, ys = xs0, ys0
    cur = area
    off = [0, 0]
    n_h, n_w = area.height, area.width
    ok = True
    for ysl, xsl in chain:
        ylo, yhi, _ = ysl.indices(n_h)
        xlo, xhi, _ = xsl.indices(n_w)
        if not (ylo < yhi and xlo < xhi):
            ok = False
            break
        with warnings.catch_warnings():
            warnings.simplefilter("ignore")
            cur = cur[ysl, xsl]
        xs, ys = xs[xsl], ys[ysl]
        off[0] += ylo
        off[1] += xlo
        n_h, n_w = yhi - ylo, xhi - xlo
    inp = {"extent": [float(v) for v in area.area_extent], "shape": [area.height, area.width],
           "chain": [[_sl(a), _sl(b)] for a, b in chain]}
    if klass:
        inp["class"] = klass
    if ctx.M:
        rep = ctx.M.ask("slice", *_g(area), len(chain), *[v for a, b in chain for v in _sl(a) + _sl(b)])
    else:
        rep = None
    if not ok:
        if rep is not None and rep != "err:empty":
            ctx.disagree(suite, inp, "empty selection", rep)
        return
    scale = max(1, max(abs(Fraction(float(v))) for v in area.area_extent))
    # --- oracle on the real result (the property itself)
    cx, cy = cur.get_proj_vectors()
    tol = 0 if exact else 1e-9 * float(scale)
    probs = []
    if cur.shape != (len(ys), len(xs)):
        probs.append(f"shape {cur.shape} differs from numpy's {(len(ys), len(xs))}")
    elif not (np.allclose(cx, xs, rtol=0, atol=tol) and np.allclose(cy, ys, rtol=0, atol=tol)):
        probs.append("coordinates of the sliced area are not the same slice of the parent's coordinates")
    if tuple(cur.crop_offset) != tuple(off):
        probs.append(f"crop_offset {tuple(cur.crop_offset)} is not the cumulative offset {tuple(off)}")
    if probs:
        ctx.fail(site, "; ".join(probs), inp,
                 {"extent": [float(v) for v in cur.area_extent], "shape": list(cur.shape), "crop_offset": list(cur.crop_offset)},
                 size=len(chain) * 10 + area.height + area.width)
    # --- model
    if rep is not None:
        if rep.startswith("err"):
            ctx.disagree(suite, inp, "area", rep)
        else:
            g, rest = _parse_grid(rep)
            moff = (int(rest[1]), int(rest[2]))
            if not (_same_extent(cur.area_extent, g[:4], exact, scale) and (g[4], g[5]) == (cur.width, cur.height)
                    and moff == tuple(cur.crop_offset)):
                ctx.disagree(suite, inp, {"extent": [float(v) for v in cur.area_extent], "shape": list(cur.shape),
                                          "off": list(cur.crop_offset)},
                             {"extent": [float(v) for v in g[:4]], "shape": [g[5], g[4]], "off": list(moff)})
    weird = any(s.start is None or s.stop is None or (s.start or 0) < 0 or (s.stop or 0) < 0
                or (s.stop or 0) > max(area.shape) for p in chain for s in p)
    ctx.case(suite, (tuple(inp["extent"]), tuple(inp["shape"]), str(inp["chain"])), nontrivial=weird or len(chain) > 1,
             sample={"input": inp, "result_shape": list(cur.shape), "crop_offset": list(cur.crop_offset)})


def suite_slices(ctx):
    nmax = 4 if ctx.quick else 6
    for H in range(1, nmax + 1):
        for W in range(1, nmax + 1):
            if ctx.quick and (H + W) % 2 and H > 2 and W > 2:
                continue
            area = _area(LL, W, H, (-8.0, 16.0, -8.0 + W * 0.5, 16.0 + H * 0.25))
            full = slice(None)
            for a, b in itertools.product(_bounds(H), repeat=2):
                check_chain(ctx, area, [(slice(a, b), full)], True, "slice.exhaustive")
            for a, b in itertools.product(_bounds(W), repeat=2):
                check_chain(ctx, area, [(slice(1 if H > 1 else 0, None), slice(a, b))], True, "slice.exhaustive")
    ctx.exhaustive["slice.exhaustive"] = f"all shapes <= {nmax}x{nmax} x all slice(a,b), a,b in None or [-(n+2), n+2], per axis"
    # chains
    r = ctx.rng
    for _ in range(400 if ctx.quick else 4000):
        H, W = r.randrange(1, 9), r.randrange(1, 9)
        exact = r.random() < 0.6
        if exact:
            area = _area(LL, W, H, (-8.0, 16.0, -8.0 + W * 0.5, 16.0 + H * 0.25))
        else:
            x0, y0 = r.uniform(-3e6, 3e6), r.uniform(-3e6, 6e6)
            area = _area({"proj": "laea", "lat_0": 50, "lon_0": 10, "ellps": "WGS84"}, W, H,
                         (x0, y0, x0 + W * r.uniform(10, 5000), y0 + H * r.uniform(10, 5000)))
        chain = []
        h, w = H, W
        for _k in range(r.choice([2, 2, 3])):
            ys = slice(r.choice(_bounds(h)), r.choice(_bounds(h)))
            xs = slice(r.choice(_bounds(w)), r.choice(_bounds(w)))
            if r.random() < 0.6:   # bias towards non-empty
                a = r.randrange(0, h); ys = slice(r.choice([a, a - h, None if a == 0 else a]), r.choice([None, r.randrange(a + 1, h + 1)]))
                c = r.randrange(0, w); xs = slice(r.choice([c, c - w]), r.choice([None, r.randrange(c + 1, w + 1), w + 2]))
            chain.append((ys, xs))
            ylo, yhi, _ = ys.indices(h)
            xlo, xhi, _ = xs.indices(w)
            if not (ylo < yhi and xlo < xhi):
                break
            h, w = yhi - ylo, xhi - xlo
        check_chain(ctx, area, chain, exact, "slice.chains")


def _area_future(proj, w, h, ext, attrs=None):
    from pyresample.future.geometry import AreaDefinition
    with warnings.catch_warnings():
        warnings.simplefilter("ignore")
        return AreaDefinition(proj, (h, w), ext, attrs=attrs)


def _random_chain(r, H, W, length):
    """chain of `length` unit-step slice pairs, biased towards non-empty selections that do not start at (0, 0)"""
    chain = []
    h, w = H, W
    for _k in range(length):
        ys = slice(r.choice(_bounds(h)), r.choice(_bounds(h)))
        xs = slice(r.choice(_bounds(w)), r.choice(_bounds(w)))
        if r.random() < 0.75:
            a = r.randrange(0, h); ys = slice(r.choice([a, a - h, None if a == 0 else a]), r.choice([None, r.randrange(a + 1, h + 1), h + 2]))
            c = r.randrange(0, w); xs = slice(r.choice([c, c - w, None if c == 0 else c]), r.choice([None, r.randrange(c + 1, w + 1), w + 2]))
        chain.append((ys, xs))
        ylo, yhi, _ = ys.indices(h)
        xlo, xhi, _ = xs.indices(w)
        if not (ylo < yhi and xlo < xhi):
            break
        h, w = yhi - ylo, xhi - xlo
    return chain


def suite_slices_future(ctx):
    """the same slicing laws (shape, coordinates, cumulative crop_offset, composition) for the `pyresample.future.geometry`
    AreaDefinition class: single slices on both axes at once (small scope) and chains of 1-3 slices on grids of several CRSs"""
    site = "future.geometry.AreaDefinition.__getitem__"
    r = ctx.rng
    nmax = 3 if ctx.quick else 4
    for H in range(1, nmax + 1):
        for W in range(1, nmax + 1):
            area = _area_future(LL, W, H, (-8.0, 16.0, -8.0 + W * 0.5, 16.0 + H * 0.25), attrs={"name": "f"})
            ybs = [(a, b) for a, b in itertools.product(_bounds(H), repeat=2)]
            xbs = [(a, b) for a, b in itertools.product(_bounds(W), repeat=2)]
            ybs_ne = [p for p in ybs if slice(*p).indices(H)[0] < slice(*p).indices(H)[1]]
            xbs_ne = [p for p in xbs if slice(*p).indices(W)[0] < slice(*p).indices(W)[1]]
            pairs = list(itertools.product(ybs_ne, xbs_ne))         # selections of >= 1 row and column
            empty = [p for p in itertools.product(ybs, xbs) if p[0] not in ybs_ne or p[1] not in xbs_ne]
            if ctx.quick:
                pairs = r.sample(pairs, min(len(pairs), 70))
            pairs += r.sample(empty, 6)                             # what the model says about empty selections
            for (a, b), (c, d) in pairs:
                check_chain(ctx, area, [(slice(a, b), slice(c, d))], True, "slice.future.small", site=site, klass="future")
    ctx.exhaustive["slice.future.small"] = (f"future AreaDefinition: all shapes <= {nmax}x{nmax} x slice(a,b) x slice(c,d), bounds None or [-(n+2), n+2]"
                                            + (" (70 non-empty selections sampled per shape)" if ctx.quick else ""))
    stere = {"proj": "stere", "lat_0": 50.0, "lat_ts": 50.0, "lon_0": 8.0, "a": 6378144.0, "b": 6356759.0}
    laea = {"proj": "laea", "lat_0": 50, "lon_0": 10, "ellps": "WGS84"}
    for _ in range(250 if ctx.quick else 2500):
        H, W = r.randrange(2, 20), r.randrange(2, 20)
        kind = r.choice(["exact", "exact", "laea", "stere", "flipped"])
        attrs = r.choice([None, {"name": "f"}, {"name": "f", "description": "d", "proj_id": "p"}])
        if kind == "exact":
            area, exact = _area_future(LL, W, H, (-8.0, 16.0, -8.0 + W * 0.5, 16.0 + H * 0.25), attrs), True
        elif kind == "flipped":
            # geostationary-style orientation: x and y both run max -> min (dyadic pixel sizes: exact class)
            area, exact = _area_future(LL, W, H, (-8.0 + W * 0.5, 16.0 + H * 0.25, -8.0, 16.0), attrs), True
        elif kind == "laea":
            x0, y0 = r.uniform(-3e6, 3e6), r.uniform(-3e6, 6e6)
            area, exact = _area_future(laea, W, H, (x0, y0, x0 + W * r.uniform(10, 5000), y0 + H * r.uniform(10, 5000)), attrs), False
        else:
            area, exact = _area_future(stere, W, H, (-1370912.72, -909968.64, 1029087.28, 1490031.36), attrs), False
        chain = _random_chain(r, H, W, r.choice([1, 1, 2, 3]))
        check_chain(ctx, area, chain, exact, "slice.future.chains", site=site, klass="future")
        ctx.count("slice.future." + kind)


def suite_split_concat(ctx):
    from pyresample.geometry import IncompatibleAreas, StackedAreaDefinition, concatenate_area_defs
    areas = []
    for H in range(2, 6 if ctx.quick else 8):
        areas.append((_area(LL, 3, H, (-8.0, 16.0, -6.5, 16.0 + H * 0.25)), True))
    r = ctx.rng
    for _ in range(12 if ctx.quick else 80):
        H, W = r.randrange(2, 9), r.randrange(1, 6)
        px = r.choice([10.0, 250.0, 1000.0, 3000.0])
        x0 = r.choice([500000.0, -2.0e6, 0.0, 1.0e6])
        y0 = r.choice([5000000.0, -5.0e6, -H * px / 2, 9.0e6, 0.0])
        areas.append((_area({"proj": "utm", "zone": 33, "ellps": "WGS84"}, W, H, (x0, y0, x0 + W * px, y0 + H * px)), False))
    for area, exact in areas:
        H = area.height
        scale = max(1, max(abs(Fraction(float(v))) for v in area.area_extent))
        for k in range(1, H):
            with warnings.catch_warnings():
                warnings.simplefilter("ignore")
                top, bot = area[0:k, :], area[k:, :]
            inp = {"extent": [float(v) for v in area.area_extent], "shape": list(area.shape), "split_row": k}
            for order, (p, q) in (("top,bottom", (top, bot)), ("bottom,top", (bot, top))):
                # concatenate_area_defs
                try:
                    with warnings.catch_warnings():
                        warnings.simplefilter("ignore")
                        c = concatenate_area_defs(p, q)
                    impl = (list(c.area_extent), c.shape)
                    good = c == area and c.shape == area.shape and np.allclose(c.area_extent, area.area_extent, rtol=0, atol=1e-9 * float(scale))
                except (IncompatibleAreas, ZeroDivisionError, ValueError) as e:
                    impl, good = f"raised {type(e).__name__}", False
                if not good:
                    ctx.fail("geometry.concatenate_area_defs", f"split then concatenate ({order}) does not give back the original area",
                             {**inp, "order": order}, impl, tags={"order": order}, size=H)
                if ctx.M:
                    rep = ctx.M.ask("concat", *_g(p), *_g(q))
                    if rep.startswith("err"):
                        if not isinstance(impl, str):
                            ctx.disagree("concat", {**inp, "order": order}, impl, rep)
                    else:
                        g, _ = _parse_grid(rep)
                        if isinstance(impl, str) or not (_same_extent(impl[0], g[:4], exact, scale) and (g[5], g[4]) == tuple(impl[1])):
                            ctx.disagree("concat", {**inp, "order": order}, impl, rep)
                # stacking
                try:
                    with warnings.catch_warnings():
                        warnings.simplefilter("ignore")
                        st = StackedAreaDefinition(p, q)
                        sq = st.squeeze()
                    if not (len(st.defs) == 1 and sq == area and sq.shape == area.shape):
                        ctx.fail("geometry.StackedAreaDefinition", f"stacking the two parts ({order}) does not squeeze back to the original area",
                                 {**inp, "order": order}, {"members": len(st.defs)}, tags={"order": order}, size=H)
                    elif order == "top,bottom":
                        lo, la = st.get_lonlats()
                        lo0, la0 = area.get_lonlats()
                        if not (np.allclose(lo, lo0, atol=1e-9, equal_nan=True) and np.allclose(la, la0, atol=1e-9, equal_nan=True)):
                            ctx.fail("geometry.StackedAreaDefinition.get_lonlats", "lon/lats of the stack differ from the original's", inp, size=H)
                    if ctx.M:
                        rep = ctx.M.ask("stack", 2, *_g(p), *_g(q))
                        nm = int(rep.split(" | ")[0])
                        if nm != len(st.defs):
                            ctx.disagree("stack", {**inp, "order": order}, len(st.defs), nm)
                except Exception as e:  # noqa
                    ctx.fail("geometry.StackedAreaDefinition", f"stacking the two parts ({order}) raised {type(e).__name__}",
                             {**inp, "order": order}, str(e)[:100], tags={"order": order}, size=H)
                ctx.case("split_concat", (tuple(inp["extent"]), tuple(inp["shape"]), k, order), nontrivial=True,
                         sample={"input": {**inp, "order": order}})
            # three parts, and a non-contiguous stack whose lon/lats must be the row-wise concatenation
            if k + 1 < H:
                with warnings.catch_warnings():
                    warnings.simplefilter("ignore")
                    mid, low = area[k:k + 1, :], area[k + 1:, :]
                    st3 = StackedAreaDefinition(top, mid, low)
                    if not (len(st3.defs) == 1 and st3.squeeze() == area):
                        ctx.fail("geometry.StackedAreaDefinition", "three contiguous parts do not squeeze back to the original area",
                                 {**inp, "parts": 3}, {"members": len(st3.defs)}, size=H)
                    gap = StackedAreaDefinition(top, low)
                    lo, la = gap.get_lonlats()
                    l1, a1 = top.get_lonlats()
                    l2, a2 = low.get_lonlats()
                    if len(gap.defs) != 2 or not (np.array_equal(lo, np.vstack([l1, l2]), equal_nan=True)
                                                  and np.array_equal(la, np.vstack([a1, a2]), equal_nan=True)):
                        ctx.fail("geometry.StackedAreaDefinition.get_lonlats", "lon/lats of a two-member stack are not the row-wise "
                                 "concatenation of the members'", {**inp, "members": "top, rows after the gap"}, size=H)
                    if ctx.M:
                        rep = ctx.M.ask("stack", 2, *_g(top), *_g(low))
                        if int(rep.split(" | ")[0]) != len(gap.defs):
                            ctx.disagree("stack.gap", inp, len(gap.defs), rep)
                    # histories: ask for the coordinates, grow the stack, ask again (in every order of the accessor variants)
                    hist = StackedAreaDefinition(top)
                    seq = []
                    members = [top]
                    for part in (low, mid):
                        which = ctx.rng.choice(["plain", "plain", "chunks", "none"])
                        if which == "plain":
                            hist.get_lonlats()
                        elif which == "chunks":
                            hist.get_lonlats(chunks=2)
                        hist.append(part)
                        members.append(part)
                        seq.append(which)
                        lo, la = (np.asarray(v) for v in hist.get_lonlats())
                        want_lo = np.vstack([np.asarray(m_.get_lonlats()[0]) for m_ in hist.defs])
                        want_la = np.vstack([np.asarray(m_.get_lonlats()[1]) for m_ in hist.defs])
                        rows = sum(m_.height for m_ in members)
                        if lo.shape != (rows, area.width) or not (np.array_equal(lo, want_lo, equal_nan=True) and np.array_equal(la, want_la, equal_nan=True)):
                            ctx.fail("geometry.StackedAreaDefinition.get_lonlats", f"after get_lonlats ({seq}) and append, the stack's lon/lats have shape {lo.shape} / values "
                                     f"that are not the row-wise concatenation of its {len(hist.defs)} member(s) ({rows} rows)", {**inp, "history": list(seq)}, size=H)
                            break
                ctx.case("stack3", (tuple(inp["extent"]), tuple(inp["shape"]), k), nontrivial=True)


def suite_seam_paths(ctx):
    """parts that reach the same seam through different slice chains (their seam coordinates may differ by
    rounding, in particular around projection y = 0 for equator-symmetric grids)"""
    from pyresample.geometry import IncompatibleAreas, StackedAreaDefinition, concatenate_area_defs
    r = ctx.rng
    geos = {"proj": "geos", "lon_0": 0, "h": 35785831, "a": 6378169, "b": 6356583.8}
    cfgs = []
    for H in ([6, 8, 11] if ctx.quick else [4, 6, 8, 11, 16, 31]):
        for px in (3000.403165817, 1000.134348869, 0.1, 7.0 / 3):
            cfgs.append((geos if px > 100 else LL, 3, H, (-1.5 * px, -H * px / 2, 1.5 * px, H * px / 2)))
    for _ in range(10 if ctx.quick else 100):
        H = r.randrange(4, 12)
        px = r.uniform(0.01, 5000)
        y0 = r.choice([-H * px / 2, -r.randrange(1, H) * px, r.uniform(-1e6, 1e6)])
        cfgs.append(({"proj": "eqc", "lon_0": 0, "ellps": "WGS84"}, 2, H, (0.0, y0, 2 * px, y0 + H * px)))
    for proj, W, H, ext in cfgs:
        area = _area(proj, W, H, ext)
        scale = max(1, max(abs(Fraction(float(v))) for v in area.area_extent))
        for k in range(2, H):
            for a in range(0, k):
                with warnings.catch_warnings():
                    warnings.simplefilter("ignore")
                    whole = area[a:, :]
                    top = whole[:k - a, :]
                    bot = area[k:, :]
                inp = {"extent": [float(v) for v in area.area_extent], "shape": list(area.shape),
                       "top": f"area[{a}:, :][:{k - a}, :]", "bottom": f"area[{k}:, :]"}
                for order, (p, q) in (("top,bottom", (top, bot)), ("bottom,top", (bot, top))):
                    try:
                        with warnings.catch_warnings():
                            warnings.simplefilter("ignore")
                            c = concatenate_area_defs(p, q)
                            st = StackedAreaDefinition(p, q)
                        good = c == whole and c.shape == whole.shape and len(st.defs) == 1 and st.squeeze() == whole
                        impl = (list(c.area_extent), c.shape)
                    except (IncompatibleAreas, ZeroDivisionError, ValueError) as e:
                        good, impl = False, f"raised {type(e).__name__}"
                    if not good:
                        ctx.fail("geometry.concatenate_area_defs", f"adjacent parts obtained through different slice chains ({order}) "
                                 "do not concatenate/stack back to the area they were cut from", {**inp, "order": order}, impl,
                                 tags={"order": order, "seam_paths": True}, size=H)
                    if ctx.M:
                        rep = ctx.M.ask("concat", *_g(p), *_g(q))
                        if rep.startswith("err") != isinstance(impl, str):
                            ctx.disagree("concat.seam_paths", {**inp, "order": order}, impl, rep)
                    ctx.case("seam_paths", (tuple(inp["extent"]), H, k, a, order), nontrivial=True,
                             sample={"input": {**inp, "order": order}, "seam_top": float(top.area_extent[1]), "seam_bottom": float(bot.area_extent[3])})
                ctx.count("seam_paths." + ("identical_seam" if top.area_extent[1] == bot.area_extent[3] else "rounded_seam"))


def suite_swath(ctx):
    import dask.array as da
    import xarray as xr
    from pyresample.geometry import SwathDefinition
    r = ctx.rng
    for _ in range(60 if ctx.quick else 600):
        H, W = r.randrange(1, 7), r.randrange(1, 7)
        lons = np.array([[r.uniform(-180, 180) for _ in range(W)] for _ in range(H)])
        lats = np.array([[r.uniform(-90, 90) for _ in range(W)] for _ in range(H)])
        kind = r.choice(["numpy", "dask", "xarray"])
        if kind == "dask":
            L, A = da.from_array(lons, chunks=2), da.from_array(lats, chunks=2)
        elif kind == "xarray":
            L, A = xr.DataArray(lons, dims=("y", "x")), xr.DataArray(lats, dims=("y", "x"))
        else:
            L, A = lons, lats
        sw = SwathDefinition(L, A)
        ys = slice(r.choice(_bounds(H)), r.choice(_bounds(H)))
        xs = slice(r.choice(_bounds(W)), r.choice(_bounds(W)))
        sub = sw[ys, xs]
        sl, sa = (np.asarray(v) for v in sub.get_lonlats())
        inp = {"shape": [H, W], "kind": kind, "slices": [_sl(ys), _sl(xs)]}
        if sl.shape != lons[ys, xs].shape or not (np.array_equal(sl, lons[ys, xs]) and np.array_equal(sa, lats[ys, xs])):
            ctx.fail("SwathDefinition.__getitem__", "sliced swath coordinates differ from the same slice of the coordinate arrays", inp, size=H * W)
        if kind == "numpy":
            k = r.randrange(0, H + 1)
            a, b = SwathDefinition(lons[:k], lats[:k]), SwathDefinition(lons[k:], lats[k:])
            c = a.concatenate(b)
            a.append(b)
            for nm, obj in (("concatenate", c), ("append", a)):
                if not (np.array_equal(obj.lons, lons) and np.array_equal(obj.lats, lats) and tuple(obj.shape) == (H, W)):
                    ctx.fail(f"CoordinateDefinition.{nm}", "split then concatenate does not give back the coordinate arrays", {**inp, "k": k}, size=H * W)
            # granules of different precision (float32 archive + float64 fresh, integer test grids): the result holds numpy's concatenation of the values
            dts = [r.choice([np.float64, np.float32, np.int64, np.int16]) for _ in range(2)]
            pa = [np.rint(v).astype(dts[0]) if np.issubdtype(dts[0], np.integer) else v.astype(dts[0]) for v in (lons[:k], lats[:k])]
            pb = [np.rint(v).astype(dts[1]) if np.issubdtype(dts[1], np.integer) else v.astype(dts[1]) for v in (lons[k:], lats[k:])]
            exp_l, exp_a = np.concatenate((pa[0], pb[0])), np.concatenate((pa[1], pb[1]))
            ctx.count(f"swath.mixed_dtype.{np.dtype(dts[0]).name}+{np.dtype(dts[1]).name}")
            a, b = SwathDefinition(pa[0].copy(), pa[1].copy()), SwathDefinition(pb[0].copy(), pb[1].copy())
            c = a.concatenate(b)
            a.append(b)
            for nm, obj in (("concatenate", c), ("append", a)):
                gl, ga = (np.asarray(v) for v in obj.get_lonlats())
                if not (np.array_equal(np.asarray(obj.lons), exp_l) and np.array_equal(np.asarray(obj.lats), exp_a) and np.array_equal(gl, exp_l) and np.array_equal(ga, exp_a)):
                    err = float(np.max(np.abs(np.asarray(obj.lons, float) - exp_l.astype(float)))) if np.asarray(obj.lons).shape == exp_l.shape and exp_l.size else None
                    ctx.fail(f"CoordinateDefinition.{nm}", f"granules of dtype {np.dtype(dts[0]).name} and {np.dtype(dts[1]).name}: the result does not hold numpy's concatenation "
                             f"of the coordinate values (max lon error {err})", {**inp, "k": k, "dtypes": [np.dtype(d).name for d in dts]}, tags={"cause": "mixed-dtype"}, size=H * W)
        if kind in ("dask", "xarray") and H >= 1:
            # granules held as dask / labelled xarray arrays: concatenation is positional, whatever the labels say
            k = r.randrange(0, H + 1)

            def wrap(arr, lab):
                if kind == "dask":
                    return da.from_array(arr, chunks=2)
                return xr.DataArray(arr, dims=("y", "x"), coords={"x": lab})
            lab_a = np.arange(W, dtype=np.float32) * 0.1
            lab_b = r.choice([np.arange(W, dtype=np.float64) * 0.1, np.arange(W, dtype=np.float64) + 3.0, np.arange(W, dtype=np.float32) * 0.1])
            a = SwathDefinition(wrap(lons[:k], lab_a), wrap(lats[:k], lab_a))
            b = SwathDefinition(wrap(lons[k:], lab_b), wrap(lats[k:], lab_b))
            try:
                c = a.concatenate(b)
                cl, ca = np.asarray(c.lons), np.asarray(c.lats)
                if cl.shape != (H, W) or not (np.array_equal(cl, lons) and np.array_equal(ca, lats)):
                    ctx.fail("CoordinateDefinition.concatenate", f"{kind} granules: concatenation has shape {cl.shape} / values that are not the row-wise concatenation "
                             f"({(H, W)}) of the two coordinate arrays", {**inp, "k": k, "labels_b": [float(v) for v in lab_b]}, size=H * W)
            except Exception as e:  # noqa
                ctx.fail("CoordinateDefinition.concatenate", f"{kind} granules: raised {type(e).__name__}: {e}", {**inp, "k": k}, size=H * W)
        ctx.case("swath", (H, W, kind, str(inp["slices"])), nontrivial=sl.size > 0, sample={"input": inp})


def _full_spellings(n):
    """slices that select a whole axis of length n, in every spelling"""
    return [slice(None), slice(None), slice(0, n), slice(0, None), slice(None, n), slice(-n, None), slice(-n - 2, n + 2), slice(None, n + 1)]


def suite_coord_histories(ctx):
    """histories on the legacy lon/lat definitions (SwathDefinition, GridDefinition, CoordinateDefinition): slicing (every spelling of
    "everything" included), in-place append(), concatenate(), copy(), in any order, on any of the objects made so far.  A numpy shadow
    is kept for every object: slicing gives the slice of the arrays, append changes the object it is called on and nothing else,
    exactly as `b = a[ys, xs]; b = np.concatenate((b, c))` never changes `a`.  After every step every object alive is compared with
    its shadow (values, shape) and sliced once more."""
    import dask.array as da
    from pyresample.geometry import CoordinateDefinition, GridDefinition, SwathDefinition
    r = ctx.rng
    classes = {"SwathDefinition": SwathDefinition, "GridDefinition": GridDefinition, "CoordinateDefinition": CoordinateDefinition}

    def coords(k, w):
        return (np.array([[r.uniform(-180, 180) for _ in range(w)] for _ in range(k)]).reshape(k, w),
                np.array([[r.uniform(-90, 90) for _ in range(w)] for _ in range(k)]).reshape(k, w))

    for _ in range(300 if ctx.quick else 3000):
        cname = r.choice(["SwathDefinition", "SwathDefinition", "GridDefinition", "CoordinateDefinition"])
        klass = classes[cname]
        kind = r.choice(["numpy", "numpy", "dask"])

        def wrap(a):
            return da.from_array(a, chunks=2) if kind == "dask" else a.copy()
        H, W = r.randrange(1, 7), r.randrange(1, 6)
        lo, la = coords(H, W)
        with warnings.catch_warnings():
            warnings.simplefilter("ignore")
            objs = [[klass(wrap(lo), wrap(la)), lo, la]]          # [definition, shadow lons, shadow lats]
        hist = []
        site = None
        bad = None
        n_steps = r.randrange(2, 7)
        for step in range(n_steps):
            k = r.randrange(len(objs)) if step != 1 or r.random() < 0.3 else len(objs) - 1
            obj, slo, sla = objs[k]
            h, w = slo.shape
            op = "slice" if step == 0 else r.choice(["slice", "append", "append", "concatenate", "copy"])
            if op == "copy" and not hasattr(obj, "copy"):
                op = "concatenate"
            with warnings.catch_warnings():
                warnings.simplefilter("ignore")
                if op == "slice":
                    if r.random() < 0.5:
                        ys, xs = r.choice(_full_spellings(h)), r.choice(_full_spellings(w))
                    else:
                        a = r.randrange(0, h); c = r.randrange(0, w)
                        ys = slice(r.choice([a, a - h, None if a == 0 else a]), r.choice([None, r.randrange(a + 1, h + 1), h + 2]))
                        xs = r.choice([slice(None), slice(r.choice([c, c - w]), r.choice([None, r.randrange(c + 1, w + 1)]))])
                    objs.append([obj[ys, xs], slo[ys, xs], sla[ys, xs]])
                    hist.append(f"#{len(objs) - 1} = #{k}[{_sl(ys)[0]}:{_sl(ys)[1]}, {_sl(xs)[0]}:{_sl(xs)[1]}]")
                    site = f"{cname}.__getitem__"
                elif op in ("append", "concatenate"):
                    g_lo, g_la = coords(r.randrange(0, 3), w)
                    other = klass(wrap(g_lo), wrap(g_la))
                    n_lo, n_la = np.concatenate((slo, g_lo)), np.concatenate((sla, g_la))
                    if op == "append":
                        obj.append(other)
                        objs[k][1], objs[k][2] = n_lo, n_la
                        hist.append(f"#{k}.append({g_lo.shape[0]} rows)")
                    else:
                        objs.append([obj.concatenate(other), n_lo, n_la])
                        hist.append(f"#{len(objs) - 1} = #{k}.concatenate({g_lo.shape[0]} rows)")
                    site = f"CoordinateDefinition.{op}"
                else:
                    objs.append([obj.copy(), slo, sla])
                    hist.append(f"#{len(objs) - 1} = #{k}.copy()")
                    site = f"{cname}.copy"
                # every object alive against its shadow
                for j, (o, s_lo, s_la) in enumerate(objs):
                    g_lo_, g_la_ = np.asarray(o.lons), np.asarray(o.lats)
                    if tuple(o.shape) != s_lo.shape or g_lo_.shape != s_lo.shape or not (np.array_equal(g_lo_, s_lo) and np.array_equal(g_la_, s_la)):
                        bad = (j, f"shape {tuple(o.shape)} / coordinates differ from the arrays numpy gives for the same history ({s_lo.shape})")
                        break
                    if s_lo.shape[0] > 1:
                        again = o[slice(1, None), slice(None)]
                        if not (np.array_equal(np.asarray(again.lons), s_lo[1:, :]) and np.array_equal(np.asarray(again.lats), s_la[1:, :])):
                            bad = (j, "slicing it again ([1:, :]) does not give that slice of its coordinate arrays")
                            break
            if bad:
                break
        inp = {"class": cname, "arrays": kind, "shape": [H, W], "history": hist}
        if bad:
            ctx.fail(site, f"after this history object #{bad[0]}: {bad[1]}" + (" (it was not the object operated on)" if f"#{bad[0]}" not in hist[-1].split("=")[0] else ""),
                     inp, {"object": bad[0], "shape": list(objs[bad[0]][0].shape), "lons": np.asarray(objs[bad[0]][0].lons).tolist(),
                           "numpy_lons": objs[bad[0]][1].tolist()}, tags={"history": True}, size=len(hist) * 5 + H + W)
        aliasing = any(".append(" in h_ for h_ in hist[1:]) and len(objs) > 1
        ctx.case("coord.history", (cname, kind, H, W, str(hist), float(lo[0, 0])), nontrivial=aliasing, sample={"input": inp} if aliasing else None)
        ctx.count("coord.history." + cname)


def suite_dask_coords(ctx):
    """the coordinates as dask arrays (get_proj_coords(chunks=), get_lonlats(chunks=)): an area and a slice of it (upper-left anchored
    slices area[:k, :], area[:k, :m] as well as interior ones), or the parts of a split area, the whole and the re-stacked / re-concatenated
    whole, asked with the same chunks and dtype and evaluated together in ONE dask.compute (and in one lazy expression).  Each array must
    have numpy's shape, equal the same slice of the parent's plain numpy coordinates, and equal what it gives when computed alone; an
    exception in the joint compute is a failure.  Grids with exactly representable geometry (1 km / 250 m pixels on round extents,
    quarter-degree grids: the sliced area has bit-identical pixel sizes and corner) and grids with arbitrary float extents."""
    import dask
    import dask.array as da
    from pyresample.geometry import StackedAreaDefinition, concatenate_area_defs
    r = ctx.rng
    laea = {"proj": "laea", "lat_0": 60.0, "lon_0": 10.0, "ellps": "WGS84"}
    utm = {"proj": "utm", "zone": 33, "ellps": "WGS84"}
    merc = {"proj": "merc", "lon_0": 3.0, "ellps": "WGS84"}

    def make_area(kind, W, H, future):
        if kind == "km":                   # 1 km / 250 m / 3 km pixels on round extents
            proj, px = r.choice([laea, utm]), r.choice([1000.0, 250.0, 3000.0, 500.0])
            x0, y0 = r.randrange(-400, 400) * 1000.0 + (500000.0 if proj is utm else 0.0), r.randrange(-400, 400) * 1000.0 + (5500000.0 if proj is utm else 0.0)
            ext = (x0, y0, x0 + W * px, y0 + H * px)
        elif kind == "degrees":            # quarter / half / eighth degree grids
            proj, px = LL, r.choice([0.25, 0.5, 0.125, 1.0])
            x0, y0 = r.randrange(-100, 100) / 4, r.randrange(-200, 200) / 4
            ext = (x0, y0, x0 + W * px, y0 + H * px)             # (y0 <= 50, H * px <= 24: below the pole)
        else:                              # arbitrary numbers
            proj = r.choice([merc, laea])
            x0, y0 = r.uniform(-3e5, 3e5), r.uniform(1e3, 3e5)
            ext = (x0, y0, x0 + W * r.uniform(100, 40000), y0 + H * r.uniform(100, 40000))
        return (_area_future(proj, W, H, ext) if future else _area(proj, W, H, ext)), ext

    def close(a, b, tol):
        a, b = np.asarray(a), np.asarray(b)
        return a.shape == b.shape and bool(np.allclose(a, b, rtol=0, atol=tol, equal_nan=True))

    for it in range(40 if ctx.quick else 250):
        kind = r.choice(["km", "km", "degrees", "degrees", "arbitrary"])
        H, W = r.randrange(2, 25), r.randrange(2, 25)
        future = r.random() < 0.25
        area, ext = make_area(kind, W, H, future)
        chunks = r.choice([4096, 4, (3, 5), r.randrange(1, 9), (r.randrange(1, 9), r.randrange(1, 9)), -1])
        dtype = r.choice([None, None, np.float32, np.float64])
        dkw = {} if dtype is None else {"dtype": dtype}
        scale = float(max(1, max(abs(v) for v in ext)))
        tol_xy = (1e-9 if dtype is not np.float32 else 2e-7) * scale
        tol_ll = 1e-9 if dtype is not np.float32 else 5e-5
        with warnings.catch_warnings():
            warnings.simplefilter("ignore")
            ref_x, ref_y = area.get_proj_coords()
            ref_lon, ref_lat = area.get_lonlats()
            proj4 = area.crs.to_proj4()[:60]
        # --- (a) an area and a slice of it
        n_sl = 3 if ctx.quick else 4
        for k_sl in range(n_sl):
            form = ["top", "corner", "any", "top-spelled"][k_sl] if k_sl < 3 or not ctx.quick else "any"
            if form == "top":
                ys, xs = slice(r.choice([None, 0]), r.randrange(1, H + 1) if H > 1 else 1), r.choice([slice(None), slice(0, None), slice(0, W + 2), slice(-W, None)])
            elif form == "corner":
                ys, xs = slice(r.choice([None, 0, -H]), r.randrange(1, H + 1)), slice(r.choice([None, 0]), r.randrange(1, W + 1))
            elif form == "top-spelled":
                j = r.randrange(0, H)
                ys, xs = slice(0, -j if j else None), slice(None)
            else:
                ys, xs = _random_chain(r, H, W, 1)[0]
            ylo, yhi, _ = ys.indices(H)
            xlo, xhi, _ = xs.indices(W)
            if not (ylo < yhi and xlo < xhi):
                continue
            inp = {"class": "future" if future else "legacy", "proj": proj4, "extent": [float(v) for v in ext], "shape": [H, W],
                   "slice": [_sl(ys), _sl(xs)], "chunks": chunks, "dtype": None if dtype is None else np.dtype(dtype).name}
            anchored = ylo == 0 and xlo == 0 and (yhi, xhi) != (H, W)
            ctx.case("dask-coords.slice", (inp["class"], str(ext), H, W, str(inp["slice"]), str(chunks), str(inp["dtype"])), nontrivial=True,
                     sample={"input": inp} if anchored else None)
            ctx.count("dask_coords.slice." + ("upper_left_anchored" if anchored else "full" if (yhi - ylo, xhi - xlo) == (H, W) else "interior"))
            ctx.count("dask_coords.geometry." + kind)
            want_shape = ref_x[ys, xs].shape
            probs = []
            try:
                with warnings.catch_warnings(), dask.config.set(scheduler="synchronous"):
                    warnings.simplefilter("ignore")
                    child = area[ys, xs]
                    p_x, p_y = area.get_proj_coords(chunks=chunks, **dkw)
                    c_x, c_y = child.get_proj_coords(chunks=chunks, **dkw)
                    p_lon, p_lat = area.get_lonlats(chunks=chunks, **dkw)
                    c_lon, c_lat = child.get_lonlats(chunks=chunks, **dkw)
                    lazy = [v.shape for v in (p_x, p_y, p_lon, p_lat, c_x, c_y, c_lon, c_lat)]
                    alone = [np.asarray(v) for v in (c_x, c_y, c_lon, c_lat)]
                    order = r.random() < 0.5         # (parent first / child first)
                    arrs = (p_x, p_y, p_lon, p_lat, c_x, c_y, c_lon, c_lat) if order else (c_x, c_y, c_lon, c_lat, p_x, p_y, p_lon, p_lat)
                    try:
                        got = dask.compute(*arrs)
                    except Exception as e:  # noqa
                        got = None
                        probs.append(f"computing the parent's and the slice's coordinates in one dask.compute raised {type(e).__name__}: {str(e)[:120]}")
                    try:
                        diff = np.asarray(abs(c_x - p_x[ys, xs]) + abs(c_y - p_y[ys, xs]))
                        if diff.shape != want_shape or not float(diff.max()) <= 2 * tol_xy:
                            probs.append(f"the lazy expression child_x - parent_x[slice] has shape {diff.shape} / max {float(diff.max()) if diff.size else None} instead of zeros of shape {want_shape}")
                    except Exception as e:  # noqa
                        probs.append(f"the lazy expression child_x - parent_x[slice] raised {type(e).__name__}: {str(e)[:120]}")
            except Exception as e:  # noqa
                ctx.fail("AreaDefinition.get_proj_coords", f"dask coordinates of an area and its slice: raised {type(e).__name__}: {str(e)[:160]}", inp, size=H + W)
                continue
            if lazy[:4] != [(H, W)] * 4 or lazy[4:] != [want_shape] * 4:
                probs.append(f"lazy shapes {lazy} are not numpy's {(H, W)} / {want_shape}")
            site = "AreaDefinition.get_proj_coords"
            if not (close(alone[0], ref_x[ys, xs], tol_xy) and close(alone[1], ref_y[ys, xs], tol_xy)):
                probs.append("computed alone, the slice's dask projection coordinates are not the same slice of the parent's coordinates")
            if not (close(alone[2], ref_lon[ys, xs], tol_ll) and close(alone[3], ref_lat[ys, xs], tol_ll)):
                probs.append("computed alone, the slice's dask lon/lats are not the same slice of the parent's lon/lats")
                site = "AreaDefinition.get_lonlats"
            if got is not None:
                g = dict(zip(("p_x", "p_y", "p_lon", "p_lat", "c_x", "c_y", "c_lon", "c_lat") if order else ("c_x", "c_y", "c_lon", "c_lat", "p_x", "p_y", "p_lon", "p_lat"), got))
                if not (close(g["p_x"], ref_x, tol_xy) and close(g["p_y"], ref_y, tol_xy)):
                    probs.append(f"computed together with its slice, the parent's projection coordinates (shape {np.asarray(g['p_x']).shape}) are not its coordinates (shape {ref_x.shape})")
                if not (close(g["c_x"], ref_x[ys, xs], tol_xy) and close(g["c_y"], ref_y[ys, xs], tol_xy)):
                    probs.append(f"computed together with the parent, the slice's projection coordinates (shape {np.asarray(g['c_x']).shape}) are not the same slice "
                                 f"(shape {want_shape}) of the parent's coordinates")
                if not (close(g["p_lon"], ref_lon, tol_ll) and close(g["p_lat"], ref_lat, tol_ll)):
                    probs.append(f"computed together with its slice, the parent's lon/lats (shape {np.asarray(g['p_lon']).shape}) are not its lon/lats (shape {ref_lon.shape})")
                    site = "AreaDefinition.get_lonlats" if len(probs) == 1 else site
                if not (close(g["c_lon"], ref_lon[ys, xs], tol_ll) and close(g["c_lat"], ref_lat[ys, xs], tol_ll)):
                    probs.append(f"computed together with the parent, the slice's lon/lats (shape {np.asarray(g['c_lon']).shape}) are not the same slice (shape {want_shape}) "
                                 "of the parent's lon/lats")
                    site = "AreaDefinition.get_lonlats" if len(probs) == 1 else site
                if not probs and not all(np.array_equal(a_, np.asarray(g[k_]), equal_nan=True) for a_, k_ in zip(alone, ("c_x", "c_y", "c_lon", "c_lat"))):
                    probs.append("the slice's coordinates computed together with the parent's differ from the same arrays computed alone")
            if probs:
                ctx.fail(site, "dask coordinates of an area and a slice of it (same chunks, same dtype): " + "; ".join(probs[:4]), inp,
                         {"n_problems": len(probs)}, tags={"family": "dask-coords", "anchored": anchored}, size=H + W + len(str(chunks)))
        # --- (b) the parts of a split area, the whole, the re-concatenated and the re-stacked whole
        if H < 2 or future:
            continue
        k = r.randrange(1, H)
        inp = {"class": "legacy", "proj": proj4, "extent": [float(v) for v in ext], "shape": [H, W], "split_row": k, "chunks": chunks,
               "dtype": None if dtype is None else np.dtype(dtype).name}
        ctx.case("dask-coords.split", (str(ext), H, W, k, str(chunks), str(inp["dtype"])), nontrivial=True, sample={"input": inp})
        probs = []
        try:
            with warnings.catch_warnings(), dask.config.set(scheduler="synchronous"):
                warnings.simplefilter("ignore")
                top, bot = area[:k, :], area[k:, :]
                whole = concatenate_area_defs(top, bot)
                stack = StackedAreaDefinition(top, bot)
                names = ["top", "bottom", "concatenated", "stacked", "original"]
                objs = [top, bot, whole, stack, area]
                want = [(ref_lon[:k], ref_lat[:k]), (ref_lon[k:], ref_lat[k:]), (ref_lon, ref_lat), (ref_lon, ref_lat), (ref_lon, ref_lat)]
                if k + 1 < H:                      # a stack with a gap: two members, row-wise concatenation of theirs
                    low = area[k + 1:, :]
                    names.append("stack of top and the rows after a gap")
                    objs.append(StackedAreaDefinition(top, low))
                    want.append((np.vstack([ref_lon[:k], ref_lon[k + 1:]]), np.vstack([ref_lat[:k], ref_lat[k + 1:]])))
                perm = list(range(len(objs)))
                r.shuffle(perm)
                lazies = [objs[i].get_lonlats(chunks=chunks, **dkw) for i in perm]
                try:
                    got = dask.compute(*lazies)
                except Exception as e:  # noqa
                    got = None
                    probs.append(f"computing the lon/lats of {[names[i] for i in perm]} in one dask.compute raised {type(e).__name__}: {str(e)[:120]}")
                if got is not None:
                    for i, (glon, glat) in zip(perm, got):
                        if not (close(glon, want[i][0], tol_ll) and close(glat, want[i][1], tol_ll)):
                            probs.append(f"lon/lats of '{names[i]}' (shape {np.asarray(glon).shape}) computed together with {[names[j] for j in perm if j != i]} are not "
                                         f"the corresponding rows (shape {want[i][0].shape}) of the original's lon/lats")
                xy = [(nm_, o_.get_proj_coords(chunks=chunks, **dkw)) for nm_, o_ in (("top", top), ("concatenated", whole), ("original", area))]
                gxy = dask.compute(*[v for _, v in xy])
                for (nm_, _), (gx, gy), rows_ in zip(xy, gxy, (slice(0, k), slice(None), slice(None))):
                    if not (close(gx, ref_x[rows_], tol_xy) and close(gy, ref_y[rows_], tol_xy)):
                        probs.append(f"projection coordinates of '{nm_}' (shape {np.asarray(gx).shape}) computed together with the other parts are not the rows of the original's")
        except Exception as e:  # noqa
            probs.append(f"raised {type(e).__name__}: {str(e)[:160]}")
        if probs:
            ctx.fail("geometry.StackedAreaDefinition.get_lonlats" if any("stack" in p_ for p_ in probs) and not any("'top'" in p_ or "'original'" in p_ for p_ in probs)
                     else "AreaDefinition.get_lonlats", "dask coordinates of the parts of a split area and of the re-assembled area (same chunks, same dtype): "
                     + "; ".join(probs[:4]), inp, {"n_problems": len(probs)}, tags={"family": "dask-coords-split"}, size=H + W + len(str(chunks)))


def suite_data_slice(ctx):
    """the same slice of the parent's coordinate arrays, asked from the parent itself: `get_proj_coords(data_slice=...)` and
    `get_lonlats(data_slice=...)` of an area (legacy and future class), with every mixture of full (in every spelling) / partial /
    negative / out-of-range / None-bounded unit-step row and column slices, given as a (rows, columns) tuple, as a bare row slice or
    not at all, as numpy arrays and as dask arrays (`chunks=`), with and without dtype.  The result must have numpy's shape
    `coords[rows, columns]`, hold the same slice of the unsliced numpy coordinates and agree with the coordinates of `area[rows,
    columns]` asked the same way.  A StackedAreaDefinition (members separated by a gap) asked for rows 0..k and a column slice must
    give the row-wise concatenation of its members' coordinates restricted to those rows and columns.  (Own random stream.)"""
    import random

    import dask
    from pyresample.geometry import StackedAreaDefinition
    r = random.Random(f"c10-data-slice-{ctx.seed}")
    laea = {"proj": "laea", "lat_0": 52.0, "lon_0": 10.0, "ellps": "WGS84"}
    merc = {"proj": "merc", "lon_0": 3.0, "ellps": "WGS84"}

    def axis_slice(n):
        """(kind, slice) selecting at least one index of an axis of length n"""
        kind = r.choice(["full", "full", "partial", "partial", "negative", "open", "single"])
        a = r.randrange(0, n)
        b = r.randrange(a + 1, n + 1)
        if kind == "full":
            s = r.choice(_full_spellings(n) + [slice(None, None, 1), slice(0, n, 1), slice(-n, n), slice(None, n + 5, None)])
        elif kind == "partial":
            s = slice(a, r.choice([b, b, n + 2]), r.choice([None, 1]))
        elif kind == "negative":
            s = slice(a - n, None if b == n else b - n)
        elif kind == "open":
            s = r.choice([slice(a, None), slice(None, b), slice(a or None, None), slice(None, b - n if b < n else None)])
        else:
            s = slice(a, a + 1)
        return ("full" if s.indices(n)[:2] == (0, n) else kind), s

    def close(a, b, tol):
        return a.shape == b.shape and bool(np.allclose(a, b, rtol=0, atol=tol, equal_nan=True))

    for it in range(36 if ctx.quick else 400):
        H, W = r.randrange(1, 14), r.randrange(1, 14)
        future = r.random() < 0.2
        kind = r.choice(["degrees", "km", "arbitrary"])
        if kind == "degrees":
            proj, px = LL, r.choice([0.25, 0.5, 1.0])
            x0, y0 = r.randrange(-100, 100) / 4, r.randrange(-200, 200) / 4
            ext = (x0, y0, x0 + W * px, y0 + H * px)
        elif kind == "km":
            proj, px = laea, r.choice([1000.0, 250.0, 3000.0])
            x0, y0 = r.randrange(-400, 400) * 1000.0, r.randrange(-400, 400) * 1000.0
            ext = (x0, y0, x0 + W * px, y0 + H * px)
        else:
            proj = r.choice([merc, laea])
            x0, y0 = r.uniform(-3e5, 3e5), r.uniform(1e3, 3e5)
            ext = (x0, y0, x0 + W * r.uniform(100, 40000), y0 + H * r.uniform(100, 40000))
        area = _area_future(proj, W, H, ext) if future else _area(proj, W, H, ext)
        scale = float(max(1, max(abs(v) for v in ext)))
        with warnings.catch_warnings():
            warnings.simplefilter("ignore")
            ref_x, ref_y = area.get_proj_coords()
            ref_lon, ref_lat = area.get_lonlats()
            proj4 = area.crs.to_proj4()[:60]
        for _k in range(3 if ctx.quick else 6):
            ky, ys = axis_slice(H)
            kx, xs = axis_slice(W)
            form = r.choice(["tuple", "tuple", "tuple", "rows-only", "whole"])
            if form == "rows-only":
                kx, xs, ds = "full", slice(None), ys
            elif form == "whole":
                ky, ys, kx, xs, ds = "full", slice(None), "full", slice(None), None
            else:
                ds = (ys, xs)
            chunks = r.choice([None, None, 4096, 4, (3, 5), r.randrange(1, 9), (r.randrange(1, 9), r.randrange(1, 9)), -1, (H, W)])
            dtype = r.choice([None, None, np.float32, np.float64])
            dkw = {} if dtype is None else {"dtype": dtype}
            tol_xy = (1e-9 if dtype is not np.float32 else 2e-7) * scale
            tol_ll = 1e-9 if dtype is not np.float32 else 5e-5
            want = [v[ys, xs] for v in (ref_x, ref_y, ref_lon, ref_lat)]
            inp = {"class": "future" if future else "legacy", "proj": proj4, "extent": [float(v) for v in ext], "shape": [H, W],
                   "data_slice": None if ds is None else [_sl3(ys)] if form == "rows-only" else [_sl3(ys), _sl3(xs)], "form": form,
                   "chunks": list(chunks) if isinstance(chunks, tuple) else chunks, "dtype": None if dtype is None else np.dtype(dtype).name}
            ctx.case("data-slice.area", (inp["class"], str(ext), H, W, str(inp["data_slice"]), str(chunks), str(inp["dtype"])), nontrivial=ds is not None,
                     sample={"input": inp} if ky == "full" and kx != "full" and chunks is not None else None)
            ctx.count(f"data_slice.rows_{ky}.cols_{kx}." + ("dask" if chunks is not None else "numpy"))
            probs, site = [], "AreaDefinition.get_proj_coords"
            try:
                with warnings.catch_warnings(), dask.config.set(scheduler="synchronous"):
                    warnings.simplefilter("ignore")
                    lazy = list(area.get_proj_coords(data_slice=ds, chunks=chunks, **dkw)) + list(area.get_lonlats(data_slice=ds, chunks=chunks, **dkw))
                    lazy_shapes = [tuple(v.shape) for v in lazy]
                    is_dask = [hasattr(v, "dask") for v in lazy]
                    got = [np.asarray(v) for v in lazy]
                    child = area[ys, xs]
                    sub = [np.asarray(v) for v in list(child.get_proj_coords(chunks=chunks, **dkw)) + list(child.get_lonlats(chunks=chunks, **dkw))]
            except Exception as e:  # noqa
                ctx.fail(site, f"coordinates asked with data_slice: raised {type(e).__name__}: {str(e)[:160]}", inp, size=H + W)
                continue
            names = ("projection x", "projection y", "longitudes", "latitudes")
            for i, nm in enumerate(names):
                tol = tol_xy if i < 2 else tol_ll
                bad = None
                if lazy_shapes[i] != want[i].shape or got[i].shape != want[i].shape:
                    bad = f"{nm}: shape {lazy_shapes[i]} (computed {got[i].shape}) is not numpy's {want[i].shape} for coords[rows, columns]"
                elif not close(got[i], want[i], tol):
                    bad = f"{nm}: values are not the same slice of the unsliced coordinates (max difference {float(np.nanmax(np.abs(got[i] - want[i]))):.3g})"
                elif not close(got[i], sub[i], 2 * tol):
                    bad = f"{nm}: differ from the coordinates of area[rows, columns] asked with the same chunks and dtype"
                elif is_dask[i] != (chunks is not None):
                    bad = f"{nm}: {'a dask array' if is_dask[i] else 'not a dask array'} although chunks={chunks}"
                elif dtype is not None and got[i].dtype != np.dtype(dtype):
                    bad = f"{nm}: dtype {got[i].dtype} instead of the requested {np.dtype(dtype).name}"
                if bad:
                    probs.append(bad)
                    if i >= 2 and len(probs) == 1:
                        site = "AreaDefinition.get_lonlats"
            if probs:
                ctx.fail(site, "the parent's coordinates asked with data_slice=(rows, columns) are not the [rows, columns] slice of its coordinate arrays: "
                         + "; ".join(probs[:4]), inp, {"n_problems": len(probs), "lazy_shapes": [list(s) for s in lazy_shapes], "numpy_shape": list(want[0].shape)},
                         tags={"family": "data-slice", "rows": ky, "cols": kx, "dask": chunks is not None}, size=H + W + len(str(chunks)))
        # --- a stack of two or three members separated by gaps: rows 0..k of the stack, any column slice
        if future or H < 3:
            continue
        cuts = sorted(r.sample(range(1, H), 2))
        with warnings.catch_warnings():
            warnings.simplefilter("ignore")
            parts = [area[:cuts[0], :], area[cuts[0] + 1:, :]] if cuts[1] + 1 >= H or cuts[1] - cuts[0] < 2 or r.random() < 0.5 else \
                [area[:cuts[0], :], area[cuts[0] + 1:cuts[1], :], area[cuts[1] + 1:, :]]
            stack = StackedAreaDefinition(*parts)
            members = [d.get_lonlats() for d in stack.defs]
        if len(stack.defs) != len(parts):
            ctx.fail("geometry.StackedAreaDefinition", "parts separated by a gap were merged", {"extent": [float(v) for v in ext], "shape": [H, W], "cuts": cuts}, size=H)
            continue
        all_lon, all_lat = np.vstack([m[0] for m in members]), np.vstack([m[1] for m in members])
        SH = stack.height
        for _k in range(2 if ctx.quick else 4):
            stop = r.choice([SH, SH, SH, SH + 2, r.randrange(1, SH + 1)])
            rows = slice(0, stop, r.choice([None, 1]))
            if r.random() < 0.5:
                rows = axis_slice(SH)[1]       # any unit-step row slice of the whole stack: open, negative, starting inside a later member
            kx, xs = axis_slice(W)
            heights = [d.height for d in stack.defs]
            chunks = r.choice([None, 4096, 3, (2, 3), r.randrange(1, 9), (tuple(heights), r.randrange(1, 9)), -1])
            dtype = r.choice([None, None, np.float32])
            dkw = {} if dtype is None else {"dtype": dtype}
            tol_ll = 1e-9 if dtype is not np.float32 else 5e-5
            want = (all_lon[rows, xs], all_lat[rows, xs])
            inp = {"class": "stack", "proj": proj4, "extent": [float(v) for v in ext], "shape": [H, W], "member_rows": heights,
                   "data_slice": [_sl3(rows), _sl3(xs)], "chunks": [list(c) if isinstance(c, tuple) else c for c in chunks] if isinstance(chunks, tuple) else chunks,
                   "dtype": None if dtype is None else np.dtype(dtype).name}
            ctx.case("data-slice.stack", (str(ext), H, W, str(heights), str(inp["data_slice"]), str(chunks), str(inp["dtype"])), nontrivial=True,
                     sample={"input": inp} if kx != "full" and chunks is not None else None)
            ctx.count(f"data_slice.stack.rows_{'all' if rows.indices(SH)[:2] == (0, SH) else 'top' if rows.indices(SH)[0] == 0 else 'inner'}.cols_{kx}." + ("dask" if chunks is not None else "numpy"))
            try:
                with warnings.catch_warnings(), dask.config.set(scheduler="synchronous"):
                    warnings.simplefilter("ignore")
                    lz = stack.get_lonlats(data_slice=(rows, xs), chunks=chunks, **dkw)
                    shapes = [tuple(v.shape) for v in lz]
                    got = [np.asarray(v) for v in lz]
            except Exception as e:  # noqa
                ctx.fail("geometry.StackedAreaDefinition.get_lonlats", f"lon/lats of a stack asked with data_slice: raised {type(e).__name__}: {str(e)[:160]}", inp, size=H + W)
                continue
            probs = []
            for nm, g, w_, sh in zip(("longitudes", "latitudes"), got, want, shapes):
                if sh != w_.shape or g.shape != w_.shape:
                    probs.append(f"{nm}: shape {sh} is not {w_.shape}, the shape of the row-wise concatenation of the members' coordinates cut to [rows, columns]")
                elif not close(g, w_, tol_ll):
                    probs.append(f"{nm}: values are not the row-wise concatenation of the members' coordinates cut to [rows, columns]")
            if probs:
                ctx.fail("geometry.StackedAreaDefinition.get_lonlats", "lon/lats of a stack asked with data_slice=(rows, columns): " + "; ".join(probs), inp,
                         {"shapes": [list(s) for s in shapes], "expected_shape": list(want[0].shape)},
                         tags={"family": "data-slice-stack", "cols": kx, "dask": chunks is not None}, size=H + W + len(str(chunks)))


def _sl3(s):
    return _sl(s) + (["none" if s.step is None else s.step])


def run(ctx):
    suite_slices(ctx)
    suite_split_concat(ctx)
    suite_seam_paths(ctx)
    suite_swath(ctx)
    suite_coord_histories(ctx)
    suite_slices_future(ctx)
    suite_dask_coords(ctx)
    suite_data_slice(ctx)
