"""C20 — conversions to and from CF, rasterio and odc-geo preserve the grid."""
import warnings
from fractions import Fraction

import numpy as np

META = {
    "rule": "one case = (CRS, grid, conversion, storage order, units). CF: in-memory xarray Datasets built from crs.to_cf() and the "
            "area's pixel-centre vectors, x ascending/descending, y north-to-south / south-to-north, units m / km (rad for geos), "
            "axes given explicitly or guessed; rasterio: MemoryFile GeoTIFFs written with the area's affine (north-up and "
            "south-up), incl. 1-pixel axes; odc-geo GeoBox; cartopy CRS. Non-trivial: reversed axis, non-metre units, geos, or a "
            "1-pixel axis. Distinct = distinct canonical input.",
    "assumptions": ["CRS equality is judged up to the other library's CRS normalisation: by lon/lat of the pixels (1e-7 deg)",
                    "exact class: dyadic extents make the spacing arithmetic of _load_cf_axis_info exact"],
}

CRSS = [
    ("laea", {"proj": "laea", "lat_0": 52, "lon_0": 10, "x_0": 4321000, "y_0": 3210000, "ellps": "GRS80"}, (3.0e6, 2.0e6)),
    ("stere", {"proj": "stere", "lat_0": 90, "lat_ts": 70, "lon_0": -45, "ellps": "WGS84"}, (-1.0e6, -2.0e6)),
    ("merc", {"proj": "merc", "lon_0": 0, "ellps": "WGS84"}, (1.0e6, 5.0e6)),
    ("utm33", "EPSG:32633", (4.0e5, 5.5e6)),
    ("geographic", "EPSG:4326", (-20.0, 30.0)),
    ("geos", {"proj": "geos", "lon_0": 0, "h": 35785831, "a": 6378169, "b": 6356583.8, "sweep": "y"}, (-1.5e6, 1.0e6)),
    ("lcc", {"proj": "lcc", "lat_1": 30, "lat_2": 60, "lat_0": 45, "lon_0": 10, "ellps": "WGS84"}, (-3.0e5, -2.0e5)),
]


def _mk(proj, w, h, ext):
    from pyresample.geometry import AreaDefinition
    with warnings.catch_warnings():
        warnings.simplefilter("ignore")
        return AreaDefinition("a", "a", "a", proj, w, h, ext)


def _fr(v):
    return Fraction(float(v))


def _pixel_pos(area):
    """projection coordinates of every pixel centre of an area"""
    x, y = area.get_proj_vectors()
    return np.meshgrid(np.asarray(x), np.asarray(y))


def suite_cf(ctx):
    import xarray as xr
    from pyresample.geometry import AreaDefinition
    from pyresample.utils import load_cf_area
    r = ctx.rng
    for cname, proj, (ox, oy) in CRSS:
        for _ in range(2 if ctx.quick else 12):
            w, h = r.randrange(2, 9), r.randrange(2, 9)
            if cname == "geographic":
                px, py = r.choice([0.25, 0.5, 1.0]), r.choice([0.125, 0.5])
            else:
                px, py = r.choice([1024.0, 2000.0, 3000.403165817]), r.choice([512.0, 2500.0, 3000.403165817])
            x0, y0 = ox + r.randrange(-50, 50) * px, oy + r.randrange(-50, 50) * py
            area = _mk(proj, w, h, (x0, y0, x0 + w * px, y0 + h * py))
            xv, yv = (np.asarray(v) for v in area.get_proj_vectors())
            with warnings.catch_warnings():
                warnings.simplefilter("ignore")
                cf = area.crs.to_cf()
            geo = cf.get("grid_mapping_name") == "geostationary"
            is_ll = cf.get("grid_mapping_name") == "latitude_longitude"
            for xdesc in (False, True):
                for s2n in (False, True):
                    for unit in (["degrees"] if is_ll else (["m", "km", "rad"] if geo else ["m", "km"])):
                        sx = xv[::-1] if xdesc else xv
                        sy = yv[::-1] if s2n else yv
                        if unit == "km":
                            sx, sy = sx / 1000.0, sy / 1000.0
                        elif unit == "rad":
                            hgt = cf["perspective_point_height"]
                            sx, sy = sx / hgt, sy / hgt
                        std = {"x": "longitude" if is_ll else ("projection_x_angular_coordinate" if unit == "rad" else "projection_x_coordinate"),
                               "y": "latitude" if is_ll else ("projection_y_angular_coordinate" if unit == "rad" else "projection_y_coordinate")}
                        ux = {"degrees": "degrees_east", "rad": "radians"}.get(unit, unit)
                        uy = {"degrees": "degrees_north", "rad": "radians"}.get(unit, unit)
                        data = np.arange(h * w, dtype=float).reshape(h, w)
                        ds = xr.Dataset(
                            {"field": (("y", "x"), data, {"grid_mapping": "crs"}), "crs": ((), 0, cf)},
                            coords={"x": ("x", sx, {"standard_name": std["x"], "units": ux}), "y": ("y", sy, {"standard_name": std["y"], "units": uy})})
                        inp = {"crs": cname, "extent": [float(v) for v in area.area_extent], "shape": [h, w], "x_descending": xdesc,
                               "y_south_to_north": s2n, "units": unit}
                        for how, kw in (("guessed", {"variable": "field"}), ("explicit", {"variable": "field", "y": "y", "x": "x"}), ("search", {})):
                            if ctx.quick and how != "guessed" and r.random() < 0.6:
                                continue
                            try:
                                with warnings.catch_warnings():
                                    warnings.simplefilter("ignore")
                                    got, info = load_cf_area(ds, **kw)
                                    if how == "guessed" and r.random() < 0.3:
                                        got2 = AreaDefinition.from_cf(ds, **kw)
                                        got2 = got2[0] if isinstance(got2, tuple) else got2
                                        if got2 != got:
                                            ctx.fail("AreaDefinition.from_cf", "differs from load_cf_area", inp, size=5)
                            except Exception as e:  # noqa
                                ctx.fail("utils.load_cf_area", f"raised {type(e).__name__}: {str(e)[:150]}", {**inp, "how": how}, tags={"crs": cname, "units": unit}, size=5)
                                continue
                            # expected: pixel (r, c) of the loaded area located where element (r, c) of the stored array is
                            ex = xv[::-1] if xdesc else xv
                            ey = yv[::-1] if s2n else yv
                            probs = []
                            if got.shape != (h, w):
                                probs.append(f"shape {got.shape}")
                            else:
                                gx, gy = (np.asarray(v) for v in got.get_proj_vectors())
                                # loaded area may be in other units (km CRS) -> compare through lon/lat as well
                                scale = max(1.0, float(np.max(np.abs(area.area_extent))))
                                tol = 1e-9 * scale
                                same_units = np.allclose(gx, ex, rtol=0, atol=tol) and np.allclose(gy, ey, rtol=0, atol=tol)
                                with warnings.catch_warnings():
                                    warnings.simplefilter("ignore")
                                    lo_g, la_g = got.get_lonlats()
                                    lo_o, la_o = area.get_lonlats()
                                if xdesc:
                                    lo_o, la_o = lo_o[:, ::-1], la_o[:, ::-1]
                                if s2n:
                                    lo_o, la_o = lo_o[::-1, :], la_o[::-1, :]
                                fin = np.isfinite(lo_o) & np.isfinite(lo_g)
                                ll_ok = np.array_equal(np.isfinite(lo_o), np.isfinite(lo_g)) and \
                                    np.allclose(lo_g[fin], lo_o[fin], atol=1e-7, rtol=0) and np.allclose(la_g[fin], la_o[fin], atol=1e-7, rtol=0)
                                if not ll_ok:
                                    probs.append("pixel (r, c) of the loaded area is not located where element (r, c) of the stored array is")
                                elif unit == "m" and not same_units:
                                    probs.append("projection coordinates of the loaded area differ from the stored vectors")
                                if not xdesc and not s2n and unit in ("m", "degrees") and not np.allclose(got.area_extent, area.area_extent, rtol=0, atol=tol):
                                    probs.append("north-to-south storage does not give back the original extent")
                            if probs:
                                ctx.fail("utils.load_cf_area", "; ".join(probs), {**inp, "how": how},
                                         {"extent": [float(v) for v in got.area_extent], "shape": list(got.shape)},
                                         tags={"crs": cname, "units": unit, "reversed": xdesc or s2n}, size=5)
                            if ctx.M and how == "guessed" and unit in ("m", "km", "degrees") and not geo:
                                k = 1000 if unit == "km" else 1
                                rep = ctx.M.ask("cf", k, [_fr(v) for v in sx], [_fr(v) for v in sy])
                                if rep.startswith("err"):
                                    ctx.disagree("cf", inp, "area", rep)
                                else:
                                    t = rep.split()
                                    mext = [Fraction(v) for v in t[:4]]
                                    # a km dataset is loaded with a metre extent only if the CRS is in metres (it is: to_cf keeps the CRS)
                                    scale = max(1, max(abs(v) for v in mext))
                                    if any(abs(_fr(a) - b) > scale * Fraction(1, 10 ** 9) for a, b in zip(got.area_extent, mext)) or (int(t[4]), int(t[5])) != (got.width, got.height):
                                        ctx.disagree("cf", inp, [float(v) for v in got.area_extent], [float(v) for v in mext])
                            ctx.case("cf", (cname, x0, y0, w, h, xdesc, s2n, unit, how), nontrivial=xdesc or s2n or unit != "m" or geo,
                                     sample={"input": {**inp, "how": how}} if (s2n and unit == "km") else None)


def suite_cf_storage(ctx):
    """the same grids as they are stored in real files: coordinate vectors of small integer / single precision types, and netCDF files
    on disk whose coordinates are packed (scale_factor / add_offset)"""
    import os
    import shutil
    import tempfile

    import xarray as xr
    from pyresample.geometry import AreaDefinition
    from pyresample.utils import load_cf_area
    r = ctx.rng
    grids = [  # (name, proj, width, height, extent in m): every pixel centre is a whole number of km
        ("merc_global", {"proj": "merc", "lon_0": 0, "ellps": "WGS84"}, 40, 16, (-2.0e7, -8.0e6, 2.0e7, 8.0e6)),
        ("merc_small", {"proj": "merc", "lon_0": 0, "ellps": "WGS84"}, 7, 5, (1.0e6, 5.0e6, 1.014e6, 5.02e6)),
        ("laea_positive", {"proj": "laea", "lat_0": 52, "lon_0": 10, "x_0": 4321000, "y_0": 3210000, "ellps": "GRS80"}, 12, 9, (3.0e6, 2.0e6, 3.048e6, 2.054e6)),
        ("stere_wide", {"proj": "stere", "lat_0": 90, "lat_ts": 70, "lon_0": -45, "ellps": "WGS84"}, 30, 24, (-3.0e7 + 0.0, -2.4e7, 3.0e7, 2.4e7)),
    ]
    tmp = tempfile.mkdtemp(prefix="pyresample-verif-c20-")
    try:
        for gname, proj, w, h, ext in grids:
            area = _mk(proj, w, h, ext)
            xv, yv = (np.asarray(v, float) for v in area.get_proj_vectors())
            with warnings.catch_warnings():
                warnings.simplefilter("ignore")
                cf = area.crs.to_cf()
                lo_a, la_a = area.get_lonlats()
            for xdesc in (False, True):
                for s2n in (False, True):
                    ex = xv[::-1] if xdesc else xv
                    ey = yv[::-1] if s2n else yv
                    lo_o = lo_a[:, ::-1] if xdesc else lo_a
                    la_o = la_a[:, ::-1] if xdesc else la_a
                    if s2n:
                        lo_o, la_o = lo_o[::-1, :], la_o[::-1, :]
                    variants = []
                    for unit, k in (("km", 1000.0), ("m", 1.0)):
                        sx, sy = ex / k, ey / k
                        for dt in (np.int16, np.uint16, np.int32, np.uint32, np.int64, np.float32):
                            info = np.iinfo(dt) if np.issubdtype(dt, np.integer) else None
                            if info is not None and not (min(sx.min(), sy.min()) >= info.min and max(sx.max(), sy.max()) <= info.max):
                                continue
                            if not (np.array_equal(sx.astype(dt).astype(float), sx) and np.array_equal(sy.astype(dt).astype(float), sy)):
                                continue
                            variants.append((unit, np.dtype(dt).name, "memory", sx.astype(dt), sy.astype(dt), None))
                        # on disk: packed coordinates (int16 + scale_factor/add_offset), classic netCDF through scipy
                        stepx, stepy = abs(sx[1] - sx[0]), abs(sy[1] - sy[0])
                        enc = {"x": {"dtype": "int16", "scale_factor": float(stepx), "add_offset": float(sx.min()), "_FillValue": None},
                               "y": {"dtype": "int16", "scale_factor": float(stepy), "add_offset": float(sy.min()), "_FillValue": None}}
                        variants.append((unit, "packed-int16", "file", sx, sy, enc))
                        variants.append((unit, "float64", "file", sx, sy, None))
                    if ctx.quick:
                        variants = r.sample(variants, min(len(variants), 4))
                    for unit, dname, where, sx, sy, enc in variants:
                        data = np.arange(h * w, dtype=np.float32).reshape(h, w)
                        ds = xr.Dataset({"field": (("y", "x"), data, {"grid_mapping": "crs"}), "crs": ((), 0, cf)},
                                        coords={"x": ("x", sx, {"standard_name": "projection_x_coordinate", "units": unit}),
                                                "y": ("y", sy, {"standard_name": "projection_y_coordinate", "units": unit})})
                        inp = {"grid": gname, "extent": [float(v) for v in ext], "shape": [h, w], "x_descending": xdesc, "y_south_to_north": s2n, "units": unit,
                               "coordinate_storage": dname, "where": where}
                        src = ds
                        try:
                            with warnings.catch_warnings():
                                warnings.simplefilter("ignore")
                                if where == "file":
                                    src = os.path.join(tmp, f"{gname}-{unit}-{dname}-{int(xdesc)}{int(s2n)}.nc")
                                    ds.to_netcdf(src, engine="scipy", encoding=enc or {})
                                    if r.random() < 0.5:
                                        import pathlib
                                        src = pathlib.Path(src)
                                how = r.choice(["load_cf_area", "from_cf"])
                                if how == "load_cf_area":
                                    got, _ = load_cf_area(src, variable="field")
                                else:
                                    got = AreaDefinition.from_cf(src, variable="field")
                                    got = got[0] if isinstance(got, tuple) else got
                                lo_g, la_g = got.get_lonlats()
                        except Exception as e:  # noqa
                            ctx.fail("utils.load_cf_area", f"raised {type(e).__name__}: {str(e)[:150]}", inp, tags={"storage": dname, "where": where}, size=5)
                            continue
                        ctx.count(f"cf_storage.{where}.{dname}")
                        ctx.case("cf-storage", (gname, xdesc, s2n, unit, dname, where), nontrivial=True, sample={"input": inp})
                        probs = []
                        if got.shape != (h, w):
                            probs.append(f"shape {got.shape} instead of {(h, w)}")
                        else:
                            fin = np.isfinite(lo_o) & np.isfinite(lo_g)
                            dl = np.abs((lo_g[fin] - lo_o[fin] + 180) % 360 - 180)
                            if not np.array_equal(np.isfinite(lo_o), np.isfinite(lo_g)) or (dl.size and (dl.max() > 1e-6 or np.abs(la_g[fin] - la_o[fin]).max() > 1e-6)):
                                probs.append(f"pixel (r, c) of the loaded area is not located where element (r, c) of the stored array is "
                                             f"(max dlon {float(dl.max()) if dl.size else None} deg); loaded extent {[float(v) for v in got.area_extent]}")
                        if ctx.M:
                            rep = ctx.M.ask("cf", 1000 if unit == "km" else 1, [_fr(v) for v in np.asarray(sx, float)], [_fr(v) for v in np.asarray(sy, float)])
                            if rep.startswith("err"):
                                ctx.disagree("cf-storage", inp, "area", rep)
                            else:
                                t_ = rep.split()
                                mext = [Fraction(v) for v in t_[:4]]
                                sc_ = max(1, max(abs(v) for v in mext))
                                if any(abs(_fr(a_) - b_) > sc_ * Fraction(1, 10 ** 9) for a_, b_ in zip(got.area_extent, mext)) or (int(t_[4]), int(t_[5])) != (got.width, got.height):
                                    ctx.disagree("cf-storage", inp, [float(v) for v in got.area_extent], [float(v) for v in mext], "extent / shape of the loaded area differ from the model's")
                        if probs:
                            ctx.fail("utils.load_cf_area", f"coordinates stored as {dname} ({where}), units {unit}: " + "; ".join(probs), inp,
                                     {"extent": [float(v) for v in got.area_extent], "shape": list(got.shape)}, tags={"storage": dname, "where": where}, size=5)
    finally:
        shutil.rmtree(tmp, ignore_errors=True)


def suite_rasterio(ctx):
    import rasterio
    from rasterio.io import MemoryFile
    from rasterio.transform import Affine
    from pyresample.utils import get_area_def_from_raster
    r = ctx.rng
    for cname, proj, (ox, oy) in CRSS:
        if cname == "geos":
            continue
        for _ in range(2 if ctx.quick else 10):
            w, h = r.choice([1, 2, 5, 9]), r.choice([1, 3, 7])
            px, py = (0.25, 0.5) if cname == "geographic" else (r.choice([1000.0, 2500.0]), r.choice([500.0, 3000.0]))
            x0, y0 = ox + r.randrange(-20, 20) * px, oy + r.randrange(-20, 20) * py
            area = _mk(proj, w, h, (x0, y0, x0 + w * px, y0 + h * py))
            for s2n in (False, True):
                tr = Affine(px, 0, x0, 0, -py, y0 + h * py) if not s2n else Affine(px, 0, x0, 0, py, y0)
                data = np.arange(h * w, dtype=np.float32).reshape(1, h, w)
                inp = {"crs": cname, "extent": [float(v) for v in area.area_extent], "shape": [h, w], "south_to_north": s2n}
                try:
                    with warnings.catch_warnings():
                        warnings.simplefilter("ignore")
                        with MemoryFile() as mf:
                            with mf.open(driver="GTiff", height=h, width=w, count=1, dtype="float32", crs=area.crs.to_wkt(), transform=tr) as dst:
                                dst.write(data)
                            with mf.open() as src:
                                got = get_area_def_from_raster(src)
                                got_named = get_area_def_from_raster(src, area_id="my_id", name="my name")
                except Exception as e:  # noqa
                    ctx.fail("utils.get_area_def_from_raster", f"raised {type(e).__name__}: {str(e)[:150]}", inp, size=5)
                    continue
                probs = []
                if got.shape != (h, w):
                    probs.append(f"shape {got.shape}")
                else:
                    # element (r, c) of the stored array is at transform * (c + .5, r + .5)
                    cc, rr = np.meshgrid(np.arange(w) + 0.5, np.arange(h) + 0.5)
                    ex, ey = tr * (cc, rr)
                    gx, gy = _pixel_pos(got)
                    scale = max(1.0, float(np.max(np.abs(area.area_extent))))
                    if not (np.allclose(gx, ex, rtol=0, atol=1e-9 * scale) and np.allclose(gy, ey, rtol=0, atol=1e-9 * scale)):
                        probs.append("pixel (r, c) of the returned area is not located where element (r, c) of the raster is")
                    if not s2n and not np.allclose(got.area_extent, area.area_extent, rtol=0, atol=1e-9 * scale):
                        probs.append("north-up raster does not give back the original extent")
                    with warnings.catch_warnings():
                        warnings.simplefilter("ignore")
                        lo_g, la_g = got.get_lonlats()
                        lo_o, la_o = area.get_lonlats()
                    if s2n:
                        lo_o, la_o = lo_o[::-1], la_o[::-1]
                    if not (np.allclose(lo_g, lo_o, atol=1e-7, rtol=0, equal_nan=True) and np.allclose(la_g, la_o, atol=1e-7, rtol=0, equal_nan=True)):
                        probs.append("lon/lats differ (CRS not preserved)")
                if got_named.area_id != "my_id" or got_named.description != "my name":
                    probs.append("area_id / name not applied")
                if probs:
                    ctx.fail("utils.get_area_def_from_raster", "; ".join(probs), inp, {"extent": [float(v) for v in got.area_extent], "shape": list(got.shape)},
                             tags={"south_to_north": s2n}, size=5)
                if ctx.M and not s2n:
                    rep = ctx.M.ask("raster", *[_fr(v) for v in area.area_extent], w, h).split()
                    mext = [Fraction(v) for v in rep[:4]]
                    scale = max(1, max(abs(v) for v in mext))
                    if any(abs(_fr(a) - b) > scale * Fraction(1, 10 ** 9) for a, b in zip(got.area_extent, mext)):
                        ctx.disagree("raster", inp, [float(v) for v in got.area_extent], [float(v) for v in mext])
                ctx.case("rasterio", (cname, x0, y0, w, h, s2n), nontrivial=s2n or w == 1 or h == 1, sample={"input": inp})


def suite_odc_cartopy(ctx):
    r = ctx.rng
    for cname, proj, (ox, oy) in CRSS:
        for _ in range(2 if ctx.quick else 10):
            w, h = r.randrange(1, 12), r.randrange(1, 12)
            px, py = (0.25, 0.5) if cname == "geographic" else (r.choice([1000.0, 2500.0, 3000.403165817]), r.choice([500.0, 3000.403165817]))
            x0, y0 = ox + r.randrange(-20, 20) * px, oy + r.randrange(-20, 20) * py
            orient = r.choice(["north-up", "north-up", "rows-flipped", "columns-flipped", "both-flipped"])
            ext = [x0, y0, x0 + w * px, y0 + h * py]
            if orient in ("rows-flipped", "both-flipped"):
                ext[1], ext[3] = ext[3], ext[1]
            if orient in ("columns-flipped", "both-flipped"):
                ext[0], ext[2] = ext[2], ext[0]
            area = _mk(proj, w, h, tuple(ext))
            inp = {"crs": cname, "extent": [float(v) for v in area.area_extent], "shape": [h, w], "orientation": orient}
            ctx.count("odc.orientation." + orient)
            scale = max(1.0, float(np.max(np.abs(area.area_extent))))
            try:
                with warnings.catch_warnings():
                    warnings.simplefilter("ignore")
                    gb = area.to_odc_geobox()
                probs = []
                if tuple(gb.shape) != (h, w):
                    probs.append(f"GeoBox shape {tuple(gb.shape)} instead of {(h, w)}")
                ul = gb.affine * (0, 0)
                lr = gb.affine * (w, h)
                if not np.allclose([ul[0], lr[1], lr[0], ul[1]], area.area_extent, rtol=0, atol=1e-9 * scale):
                    probs.append("GeoBox affine does not map the array corners to the area's extent")
                import pyproj
                if pyproj.CRS.from_user_input(gb.crs.to_wkt()) != area.crs and pyproj.CRS.from_user_input(gb.crs.to_wkt()).to_dict() != area.crs.to_dict():
                    probs.append("GeoBox CRS differs")
                if probs:
                    ctx.fail("AreaDefinition.to_odc_geobox", "; ".join(probs), inp, {"affine": list(gb.affine)[:6], "shape": list(gb.shape)}, size=5)
            except Exception as e:  # noqa
                ctx.fail("AreaDefinition.to_odc_geobox", f"raised {type(e).__name__}: {str(e)[:150]}", inp, size=5)
            try:
                with warnings.catch_warnings():
                    warnings.simplefilter("ignore")
                    cc = area.to_cartopy_crs()
                e = area.area_extent
                if tuple(float(v) for v in cc.bounds) != (float(e[0]), float(e[2]), float(e[1]), float(e[3])):
                    ctx.fail("AreaDefinition.to_cartopy_crs", "bounds are not (xmin, xmax, ymin, ymax) of the extent", inp, list(cc.bounds), size=5)
            except Exception as ex:  # noqa
                ctx.fail("AreaDefinition.to_cartopy_crs", f"raised {type(ex).__name__}: {str(ex)[:150]}", inp, size=5)
            ctx.case("odc_cartopy", (cname, x0, y0, w, h, orient), nontrivial=w == 1 or h == 1 or cname == "geos" or orient != "north-up", sample={"input": inp})


UNIT_M = {"m": 1.0, "km": 1000.0, "us-ft": 1200.0 / 3937.0, "ft": 0.3048}      # metres per unit


def _lonlat_of(crs, X, Y):
    """lon/lat of projection coordinates, straight through pyproj (nothing of pyresample involved)"""
    import pyproj
    crs = pyproj.CRS.from_user_input(crs)
    return pyproj.Transformer.from_crs(crs, crs.geodetic_crs, always_xy=True).transform(X, Y)


def _centres(extent, shape):
    """pixel-centre coordinates from extent and shape: row 0 at the upper edge extent[3], column 0 at the left edge extent[0]"""
    h, w = shape
    x0, y0, x1, y1 = (float(v) for v in extent)
    xs = x0 + (np.arange(w) + 0.5) * (x1 - x0) / w
    ys = y1 - (np.arange(h) + 0.5) * (y1 - y0) / h
    return np.meshgrid(xs, ys)


def suite_cf_crs_units(ctx):
    """the unit of the CRS and the unit of the stored coordinate vectors are independent: a grid mapping whose CRS counts in
    kilometres (or feet; to_cf keeps the unit in crs_wkt) with x/y stored in m or km, and a metre CRS with x/y in m or km, all
    describe one grid.  Decided on the loaded area's own (CRS, extent, shape): its pixel (r, c), put through pyproj, is where
    element (r, c) of the stored array is (the stored coordinates, converted to the unit of the exported CRS, put through pyproj).
    The geostationary grid mapping adds a third way of storing x/y: as scanning angles in radians (projection coordinate in metres
    divided by the perspective point height in metres, which is what +h of the PROJ definition is whatever +units says); the CRS
    may still count in metres, kilometres or feet, and the same grid stored in rad, m or km must load as that one grid"""
    import itertools

    import pyproj
    import xarray as xr
    from pyresample.utils import load_cf_area
    r = ctx.rng
    projs = [("laea", {"proj": "laea", "lat_0": 52, "lon_0": 10, "x_0": 4321000, "y_0": 3210000, "ellps": "GRS80"}, (3.0e6, 2.0e6)),
             ("stere", {"proj": "stere", "lat_0": 90, "lat_ts": 70, "lon_0": -45, "ellps": "WGS84"}, (-1.0e6, -2.0e6)),
             ("merc", {"proj": "merc", "lon_0": 0, "ellps": "WGS84"}, (1.0e6, 5.0e6)),
             ("utm33", {"proj": "utm", "zone": 33, "ellps": "WGS84"}, (4.0e5, 5.5e6)),
             ("lcc", {"proj": "lcc", "lat_1": 30, "lat_2": 60, "lat_0": 45, "lon_0": 10, "ellps": "WGS84"}, (-3.0e5, -2.0e5))]

    def geos_projs():
        """geostationary CRSs (drawn after the other projections are done): satellite longitude, height, ellipsoid, sweep axis"""
        for k in range(3 if ctx.quick else 8):
            sat = r.choice([("msg", 0.0, 35785831.0, {"a": 6378169.0, "b": 6356583.8}, "y"), ("msg-iodc", 41.5, 35785831.0, {"a": 6378169.0, "b": 6356583.8}, "y"),
                            ("goes-east", -75.0, 35786023.0, {"ellps": "GRS80"}, "x"), ("goes-west", -137.0, 35786023.0, {"ellps": "GRS80"}, "x"),
                            ("himawari", 140.7, 35785863.0, {"ellps": "WGS84"}, "y"), ("generic", float(r.randrange(-179, 180)), float(r.randrange(35000000, 36500000)), {"ellps": "WGS84"}, r.choice("xy"))])
            name, lon_0, hgt, ell, sweep = sat
            # regional (inside the disk) and full-disk sized grids (corner pixels look past the limb)
            centre = r.choice([(-1.5e6, 1.0e6), (2.0e6, -2.5e6), (0.0, 0.0), (-3.6e6, 1.5e6), (1.0e5, 3.9e6)])
            yield f"geos-{name}", dict({"proj": "geos", "lon_0": lon_0, "h": hgt, "sweep": sweep}, **ell), centre

    for pname, proj, (ox, oy) in itertools.chain(projs, geos_projs()):
        geos = proj["proj"] == "geos"
        for crs_unit in (["m", "km"] + [r.choice(["us-ft", "ft"])] if ctx.quick else ["m", "km", "us-ft", "ft"]):
            um = UNIT_M[crs_unit]
            pd = dict(proj, units=crs_unit)
            for _ in range(1 if ctx.quick else 6):
                w, h = r.randrange(2, 9), r.randrange(2, 9)
                px, py = r.choice([1024.0, 2000.0, 3000.403165817]), r.choice([512.0, 2500.0, 3000.403165817])     # metres
                x0, y0 = ox + r.randrange(-50, 50) * px, oy + r.randrange(-50, 50) * py
                if geos and r.random() < 0.4:         # full-disk sized pixels: the grid spans the whole disk, corner pixels look past the limb
                    px, py = r.choice([10.5e6, 11.0e6, 12.0e6]) / w, r.choice([10.5e6, 11.0e6, 12.0e6]) / h
                    x0, y0 = -w * px / 2 + r.randrange(-1, 2) * px / 4, -h * py / 2 + r.randrange(-1, 2) * py / 4
                ext = tuple(v / um for v in (x0, y0, x0 + w * px, y0 + h * py))       # in the unit of the CRS
                area = _mk(pd, w, h, ext)
                with warnings.catch_warnings():
                    warnings.simplefilter("ignore")
                    cf = area.crs.to_cf()
                XC, YC = _centres(ext, (h, w))        # unit of the CRS
                for coord_unit in (("rad", "m", "km") if geos else ("m", "km")):
                    xdesc, s2n = r.random() < 0.3, r.random() < 0.3
                    ex, ey = XC[0, :], YC[:, 0]
                    ex = ex[::-1] if xdesc else ex
                    ey = ey[::-1] if s2n else ey
                    if coord_unit == "rad":
                        # scanning angle = projection coordinate in metres / perspective point height in metres (the +h of the definition)
                        sx, sy = ex * um / proj["h"], ey * um / proj["h"]
                        ang = r.choice(["angular", "angular", "old"])      # CF >= 1.9 standard names, or the ones written before them
                        xattrs = {"standard_name": "projection_x_angular_coordinate" if ang == "angular" else "projection_x_coordinate", "units": r.choice(["radians", "rad", "radian"])}
                        yattrs = {"standard_name": "projection_y_angular_coordinate" if ang == "angular" else "projection_y_coordinate", "units": xattrs["units"]}
                    else:
                        sx, sy = ex * um / UNIT_M[coord_unit], ey * um / UNIT_M[coord_unit]
                        xattrs = {"standard_name": "projection_x_coordinate", "units": coord_unit}
                        yattrs = {"standard_name": "projection_y_coordinate", "units": coord_unit}
                    ds = xr.Dataset({"field": (("y", "x"), np.arange(h * w, dtype=float).reshape(h, w), {"grid_mapping": "crs"}), "crs": ((), 0, cf)},
                                    coords={"x": ("x", sx, xattrs), "y": ("y", sy, yattrs)})
                    how, kw = r.choice([("guessed", {"variable": "field"}), ("explicit", {"variable": "field", "y": "y", "x": "x"}), ("search", {})])
                    inp = {"projection": pname, "crs_units": crs_unit, "coordinate_units": coord_unit, "extent_in_crs_units": [float(v) for v in ext], "shape": [h, w],
                           "x_descending": xdesc, "y_south_to_north": s2n, "how": how}
                    ctx.count(f"cf_units.crs_{crs_unit}.coords_{coord_unit}")
                    ctx.case("cf-crs-units", (pname, crs_unit, coord_unit, x0, y0, w, h, xdesc, s2n, how), nontrivial=crs_unit != coord_unit or xdesc or s2n, sample={"input": inp})
                    try:
                        with warnings.catch_warnings():
                            warnings.simplefilter("ignore")
                            got, _ = load_cf_area(ds, **kw)
                    except Exception as e:  # noqa
                        ctx.fail("utils.load_cf_area", f"raised {type(e).__name__}: {str(e)[:150]}", inp, tags={"crs_units": crs_unit, "units": coord_unit}, size=5)
                        continue
                    probs = []
                    if got.shape != (h, w):
                        probs.append(f"shape {got.shape} instead of {(h, w)}")
                    else:
                        with warnings.catch_warnings():
                            warnings.simplefilter("ignore")
                            lo_e, la_e = _lonlat_of(pd, *np.meshgrid(ex, ey))
                            lo_g, la_g = _lonlat_of(got.crs, *_centres(got.area_extent, got.shape))
                        fin = np.isfinite(lo_e) & np.isfinite(lo_g)
                        if geos:
                            ctx.count("cf_units.geos." + ("all_pixels_on_disk" if np.isfinite(lo_e).all() else "some_pixels_on_disk" if np.isfinite(lo_e).any() else "no_pixel_on_disk"))
                        dl = np.abs((lo_g[fin] - lo_e[fin] + 180) % 360 - 180)
                        if not np.array_equal(np.isfinite(lo_e), np.isfinite(lo_g)):
                            probs.append(f"pixel (r, c) of the loaded area is not located where element (r, c) of the stored array is ({int((~np.isfinite(lo_g)).sum())} pixels of "
                                         f"the loaded area have no lon/lat at all, {int((~np.isfinite(lo_e)).sum())} elements of the stored array have none)")
                        elif dl.size and (dl.max() > 1e-7 or np.abs(la_g[fin] - la_e[fin]).max() > 1e-7):
                            probs.append(f"pixel (r, c) of the loaded area is not located where element (r, c) of the stored array is (up to "
                                         f"{float(dl.max())} deg in longitude, {float(np.abs(la_g[fin] - la_e[fin]).max())} deg in latitude)")
                        if not xdesc and not s2n:
                            # the original area itself: equal extent once both are expressed in metres
                            gm = float(pyproj.CRS.from_user_input(got.crs).axis_info[0].unit_conversion_factor)
                            scale = max(1.0, float(np.max(np.abs(ext))) * um)
                            if not np.allclose(np.asarray(got.area_extent, float) * gm, np.asarray(ext) * um, rtol=0, atol=1e-9 * scale):
                                probs.append("north-to-south storage does not give back the original extent")
                    if probs:
                        ctx.fail("utils.load_cf_area", f"CRS in {crs_unit}, x/y stored in {coord_unit}: " + "; ".join(probs), inp,
                                 {"extent": [float(v) for v in got.area_extent], "shape": list(got.shape), "crs": got.crs.to_proj4()},
                                 tags={"crs_units": crs_unit, "units": coord_unit, "reversed": xdesc or s2n}, size=5)


def suite_cartopy_geographic(ctx):
    """geographic areas (lon/lat, rotated pole) are not confined to -180..180 x -90..90: 0..360 global grids, regions across the
    antimeridian counted past 180, global grids with pixel CENTRES on whole degrees (extent half a pixel beyond the poles and the
    antimeridian), rotated grids.  Whatever the extent, the cartopy CRS carries it as its bounds"""
    r = ctx.rng
    crss = [("epsg4326", "EPSG:4326"), ("longlat", {"proj": "longlat", "datum": "WGS84"}), ("longlat_sphere", "+proj=longlat +R=6371229"),
            ("longlat_pm180", {"proj": "longlat", "ellps": "WGS84", "pm": 180}),
            ("rotated_pole", {"proj": "ob_tran", "o_proj": "longlat", "o_lon_p": 0, "o_lat_p": r.choice([30.0, 37.5, 60.0]), "lon_0": r.choice([-170.0, 10.0, 180.0]), "ellps": "WGS84"})]
    for cname, proj in crss:
        kinds = ["global 0..360", "across the antimeridian", "cell-centred global", "inside the box", "random", "random"]
        for kind in (kinds if not ctx.quick else r.sample(kinds[:4], 3) + ["random"]):
            for _ in range(1 if ctx.quick else 5):
                px = r.choice([0.25, 0.5, 1.0, 2.0, 2.5])
                if kind == "global 0..360":
                    ext = [0.0, -90.0, 360.0, 90.0]
                    if r.random() < 0.5:       # cell-centred 0..360
                        ext = [-px / 2, -90.0 - px / 2, 360.0 - px / 2, 90.0 + px / 2]
                elif kind == "across the antimeridian":
                    x0, y0 = r.randrange(120, 179) * 1.0, r.randrange(-80, 40) * 1.0
                    ext = [x0, y0, x0 + r.randrange(int(181 - x0), 120) * 1.0, y0 + r.randrange(5, 50)]
                    if r.random() < 0.3:       # the same region counted from the other side
                        ext = [ext[0] - 360, ext[1], ext[2] - 360, ext[3]]
                elif kind == "cell-centred global":
                    ext = [-180.0 - px / 2, -90.0 - px / 2, 180.0 - px / 2, 90.0 + px / 2]
                elif kind == "inside the box":
                    x0, y0 = r.randrange(-180, 100) * 1.0, r.randrange(-90, 40) * 1.0
                    ext = [x0, y0, x0 + r.randrange(1, 80), y0 + r.randrange(1, 50)]
                else:
                    x0, y0 = r.uniform(-400, 300), r.uniform(-100, 60)
                    ext = [x0, y0, x0 + r.uniform(1, 360), y0 + r.uniform(1, 100 - y0) if y0 < 99 else y0 + 1]
                w, h = max(1, int(round(abs(ext[2] - ext[0]) / px))), max(1, int(round(abs(ext[3] - ext[1]) / px)))
                orient = r.choice(["north-up", "north-up", "north-up", "rows-flipped", "columns-flipped"])
                if orient == "rows-flipped":
                    ext[1], ext[3] = ext[3], ext[1]
                if orient == "columns-flipped":
                    ext[0], ext[2] = ext[2], ext[0]
                area = _mk(proj, w, h, tuple(ext))
                e = [float(v) for v in area.area_extent]
                outside = min(e[0], e[2]) < -180 or max(e[0], e[2]) > 180 or min(e[1], e[3]) < -90 or max(e[1], e[3]) > 90
                inp = {"crs": cname if cname != "rotated_pole" else str(proj), "extent": e, "shape": [h, w], "kind": kind, "orientation": orient}
                ctx.count("cartopy.geographic." + ("extent_leaves_the_box" if outside else "extent_inside_the_box"))
                ctx.case("cartopy-geographic", (cname, kind, tuple(e), orient), nontrivial=outside, sample={"input": inp} if outside else None)
                try:
                    with warnings.catch_warnings():
                        warnings.simplefilter("ignore")
                        cc = area.to_cartopy_crs()
                    if tuple(float(v) for v in cc.bounds) != (e[0], e[2], e[1], e[3]):
                        ctx.fail("AreaDefinition.to_cartopy_crs", "bounds are not (x0, x1, y0, y1) of the extent", inp, [float(v) for v in cc.bounds],
                                 tags={"family": "geographic", "outside_box": outside}, size=5)
                except Exception as ex_:  # noqa
                    ctx.fail("AreaDefinition.to_cartopy_crs", f"raised {type(ex_).__name__}: {str(ex_)[:150]}", inp, tags={"family": "geographic", "cause": "raises"}, size=5)


def run(ctx):
    suite_cf(ctx)
    suite_cf_storage(ctx)
    suite_cf_crs_units(ctx)
    suite_rasterio(ctx)
    suite_odc_cartopy(ctx)
    suite_cartopy_geographic(ctx)
