"""C15 — multiprocessing Scheduler: controlled interleavings of the REAL `Scheduler.__iter__`
against the Lean small-step model, plus real multi-process runs vs single-process results."""
import itertools
import threading

import warnings

import numpy as np

META = {
    "rule": "one case = one (n, nprocs, chunk, schedule kind, worker count, interleaving); the real generator is "
            "run by one thread per worker with _lock/_ndata/_start replaced on the instance by instrumented "
            "objects, and a controller decides every acquire/read/write/release/yield/return; the event trace "
            "is compared with the model's trace of the same schedule. Non-trivial: >= 2 workers each got a "
            "slice, or a worker was chosen while waiting for the lock. Distinct = distinct (config, schedule).",
    "assumptions": ["mp.Lock is a mutex; RawValue c_int reads/writes are atomic; n < 2**31",
                    "OS scheduling of the real processes in the Proj_MP/cKDTree_MP runs is sampled, not controlled"],
    "trusted_base": ["thread-gating controller in harness/props/c15.py (decides the interleaving of the real generator)"],
}

KINDS = ["guided", "dynamic", "static"]


class Abort(BaseException):
    pass


class Controller:
    """Runs W worker threads over one real Scheduler; exactly one thread moves at a time."""

    def __init__(self, sched_obj, nworkers):
        self.s = sched_obj
        self.W = nworkers
        self.go = [threading.Semaphore(0) for _ in range(nworkers)]
        self.parked = threading.Semaphore(0)
        self.pending = [None] * nworkers      # kind of the event the worker is about to perform
        self.finished = [False] * nworkers
        self.holder = None
        self.trace = []
        self.yields = [[] for _ in range(nworkers)]
        self.discipline = []
        self.aborting = False
        self.tl = threading.local()
        self.errors = []
        ctl = self

        class Lock:
            def acquire(self_):
                w = ctl.tl.w
                ctl.point(w, "acquire")
                if ctl.holder is not None:
                    ctl.discipline.append(f"worker {w} acquired while {ctl.holder} holds the lock")
                ctl.holder = w
                ctl.trace.append("acq")

            def release(self_):
                w = ctl.tl.w
                ctl.point(w, "release")
                if ctl.holder != w:
                    ctl.discipline.append(f"worker {w} released a lock held by {ctl.holder}")
                ctl.holder = None
                ctl.trace.append("rel")

            __enter__ = acquire

            def __exit__(self_, *a):
                self_.release()

        class Val:
            def __init__(self_, tag, v):
                self_.tag, self_.v = tag, v

            @property
            def value(self_):
                w = ctl.tl.w
                ctl.point(w, "read")
                if ctl.holder != w:
                    ctl.discipline.append(f"worker {w} read _{self_.tag} without holding the lock")
                ctl.trace.append(f"r{self_.tag}{self_.v}")
                return self_.v

            @value.setter
            def value(self_, x):
                w = ctl.tl.w
                ctl.point(w, "write")
                if ctl.holder != w:
                    ctl.discipline.append(f"worker {w} wrote _{self_.tag} without holding the lock")
                self_.v = int(x)
                ctl.trace.append(f"w{self_.tag}{self_.v}")

        self.s._lock = Lock()
        self.s._ndata = Val("n", int(self.s._ndata.value))
        self.s._start = Val("s", int(self.s._start.value))

    def point(self, w, kind):
        self.pending[w] = kind
        self.parked.release()
        self.go[w].acquire()
        if self.aborting:
            raise Abort()

    def worker(self, w):
        self.tl.w = w
        try:
            for sl in self.s:
                self.point(w, "yield")
                self.yields[w].append((sl.start, sl.stop))
                self.trace.append(f"y{sl.start}:{sl.stop}")
            self.point(w, "return")
            self.trace.append("ret")
        except Abort:
            pass
        except BaseException as e:  # noqa
            self.errors.append(f"worker {w}: {type(e).__name__}: {e}")
        self.finished[w] = True
        self.pending[w] = None
        self.parked.release()

    def run(self, prefix, max_steps):
        """Follow `prefix` (list of worker ids), then round-robin; returns the schedule actually used."""
        threads = [threading.Thread(target=self.worker, args=(w,), daemon=True) for w in range(self.W)]
        for t in threads:
            t.start()
        for _ in range(self.W):
            self.parked.acquire()       # everybody parked at its first point
        used = []
        it = itertools.chain(prefix, itertools.cycle(range(self.W))) if self.W else iter(())
        steps = 0
        blocked_run = 0
        while not all(self.finished) and steps < max_steps and blocked_run <= 2 * self.W + len(prefix):
            w = next(it)
            used.append(w)
            enabled = (not self.finished[w]) and not (self.pending[w] == "acquire" and self.holder is not None)
            if not enabled:
                self.trace.append("-")
                blocked_run += 1
                continue
            blocked_run = 0
            steps += 1
            self.go[w].release()
            self.parked.acquire()
        self.completed = all(self.finished)
        if not self.completed:
            self.aborting = True
            for w in range(self.W):
                if not self.finished[w]:
                    self.go[w].release()
        for t in threads:
            t.join(timeout=5)
        return used


def oracle(n, yields):
    """the property, straight from the statement: disjoint, inside [0,n), exact cover"""
    allsl = sorted(s for ys in yields for s in ys)
    probs = []
    pos = 0
    for a, b in allsl:
        if not (0 <= a < b <= n):
            probs.append(f"slice ({a},{b}) empty or outside [0,{n})")
        if a < pos:
            probs.append(f"slice ({a},{b}) overlaps an earlier one")
        elif a > pos:
            probs.append(f"items [{pos},{a}) handed to nobody")
        pos = max(pos, b)
    if pos < n:
        probs.append(f"items [{pos},{n}) handed to nobody")
    return probs


def one_run(ctx, n, nprocs, chunk, kind, W, prefix, suite):
    from pyresample._multi_proc import Scheduler
    s = Scheduler(n, nprocs, chunk=chunk, schedule=kind)
    cfg_chunk = s._chunk
    ctl = Controller(s, W)
    bound = 10 * n + 5 * W + 10
    used = ctl.run(prefix, max_steps=bound + 50)
    inp = {"n": n, "nprocs": nprocs, "chunk": chunk, "schedule": kind, "workers": W, "interleaving": used}
    impl = " ".join(ctl.trace)
    probs = oracle(n, ctl.yields) if ctl.completed else []
    if ctl.errors:
        probs.append("worker raised: " + "; ".join(ctl.errors))
    if not ctl.completed:
        probs.append(f"workers did not all terminate within {bound + 50} events under this interleaving")
    if probs:
        ctx.fail("Scheduler.__iter__", "; ".join(probs[:3]), inp, {"yields": ctl.yields, "trace": impl},
                 tags={"kind": kind}, size=len(used) + n)
    if ctl.discipline:
        ctx.note("lock discipline: " + ctl.discipline[0])
        ctx.count("discipline_violations", len(ctl.discipline))
    if ctx.M:
        rep = ctx.M.ask("sched", kind, cfg_chunk, nprocs, n, W, list(used))
        if rep != impl:
            ctx.disagree(suite, inp, impl, rep, note="; ".join(ctl.discipline[:2]))
    got = sum(1 for ys in ctl.yields if ys)
    ctx.case(suite, (n, nprocs, chunk, kind, W, tuple(used)), nontrivial=got >= 2 or "-" in ctl.trace,
             sample={"input": {k: v for k, v in inp.items() if k != "interleaving"},
                     "interleaving_head": used[:24], "trace_head": ctl.trace[:24], "yields": ctl.yields})
    ctx.count(f"sched.{kind}")
    ctx.count("workers_with_slices.%d" % min(got, 4))
    return bool(probs)


def suite_initchunk(ctx):
    from pyresample._multi_proc import Scheduler
    ns = list(range(0, 45)) + [99, 100, 101, 1000, 12345, 2 ** 20 + 3]
    for kind in KINDS:
        for n in ns:
            for nprocs in (1, 2, 3, 4, 7, 16):
                for chunk in (None, 0, 1, 2, 5, 17, 5000, -3):
                    s = Scheduler(n, nprocs, chunk=chunk, schedule=kind)
                    impl = str(s._chunk)
                    if not (isinstance(s._chunk, int) and s._chunk >= 1):
                        ctx.fail("Scheduler.__init__", "stored chunk is not an integer >= 1",
                                 [n, nprocs, chunk, kind], impl)
                    if ctx.M:
                        rep = ctx.M.ask("initchunk", kind, n, nprocs, chunk or 0)
                        if rep != impl:
                            ctx.disagree("initchunk", [n, nprocs, chunk, kind], impl, rep)
                    ctx.case("initchunk", (kind, n, nprocs, chunk), nontrivial=n > 0)
    ctx.exhaustive["initchunk"] = "n in 0..44 + 6 large x nprocs in {1,2,3,4,7,16} x chunk in {None,0,1,2,5,17,5000,-3} x 3 kinds"


def _prefixes_exhaustive(W, depth):
    return itertools.product(range(W), repeat=depth)


def suite_controlled(ctx):
    # (a) systematic: every schedule prefix of a given depth (all interleavings of the first events), tiny configs
    depth = 7 if ctx.quick else 9
    cfgs = [(n, W, chunk, kind) for n in (0, 1, 2, 3) for W in (1, 2) for chunk in (None, 1, 2)
            for kind in KINDS]
    cfgs += [(n, 3, chunk, kind) for n in (2, 4) for chunk in (None, 1) for kind in KINDS]
    for n, W, chunk, kind in cfgs:
        d = depth if W <= 2 else (4 if ctx.quick else 6)
        for prefix in _prefixes_exhaustive(W, d):
            one_run(ctx, n, W, chunk, kind, W, list(prefix), "controlled.systematic")
    ctx.exhaustive["controlled.systematic"] = (
        f"all worker-choice prefixes of length {depth} (W<=2) / {4 if ctx.quick else 6} (W=3), then round-robin, "
        "for n<=4, chunk in {None,1,2}, 3 kinds")
    # (b) random schedules with bursts, larger n / W; nprocs passed to the Scheduler may differ from the
    #     number of workers actually iterating (as the property quantifies over nprocs independently)
    nrand = 500 if ctx.quick else 4000
    for _ in range(nrand):
        n = ctx.rng.choice([ctx.rng.randrange(0, 12), ctx.rng.randrange(0, 60), ctx.rng.randrange(0, 200)])
        W = ctx.rng.choice([1, 2, 2, 3, 3, 4, 5, 8])
        nprocs = ctx.rng.choice([W, W, W, 1, 2, 16])
        chunk = ctx.rng.choice([None, None, 1, 2, 5, 7, n, n + 3, max(1, n // 2)])
        kind = ctx.rng.choice(KINDS)
        L = ctx.rng.randrange(0, 12 * (n // max(1, (chunk or 1)) + W) + 5)
        prefix = []
        while len(prefix) < L:
            w = ctx.rng.randrange(W)
            prefix += [w] * ctx.rng.choice([1, 1, 1, 2, 3, 5, 8])
        one_run(ctx, n, nprocs, chunk, kind, W, prefix[:L], "controlled.random")


def suite_real_mp(ctx):
    """real processes: Proj_MP and cKDTree_MP vs their single-process counterparts (bitwise)"""
    import pyproj
    import scipy.spatial as sp
    from pyresample._spatial_mp import Proj_MP, cKDTree_MP
    reps = 3 if ctx.quick else 24
    for r in range(reps):
        n = ctx.rng.choice([0, 1, 7, 100, 1001]) if r else 37
        nprocs = ctx.rng.choice([2, 3, 4])
        kind = KINDS[r % 3]
        chunk = ctx.rng.choice([None, 1, 5, 64])
        lons = np.array([ctx.rng.uniform(-180, 180) for _ in range(n)])
        lats = np.array([ctx.rng.uniform(-85, 85) for _ in range(n)])
        inp = {"n": n, "nprocs": nprocs, "chunk": chunk, "schedule": kind}
        proj_def = [{"proj": "laea", "lat_0": 10, "lon_0": 20, "ellps": "WGS84"},
                    {"proj": "longlat", "pm": 180, "datum": "WGS84"},          # non-Greenwich prime meridian
                    {"proj": "eqc", "lon_0": 0, "pm": -30, "ellps": "WGS84"}][r % 3]
        inp["proj"] = str(proj_def)
        try:
            x, y = Proj_MP(**proj_def)(lons, lats, nprocs=nprocs, chunk=chunk, schedule=kind)
            crs = pyproj.CRS.from_user_input(proj_def)
            from pyresample.utils.proj4 import get_geodetic_crs_with_no_datum_shift
            tr = pyproj.Transformer.from_crs(get_geodetic_crs_with_no_datum_shift(crs), crs, always_xy=True)
            x1, y1 = tr.transform(lons, lats)
            if not (np.array_equal(x, x1, equal_nan=True) and np.array_equal(y, y1, equal_nan=True)):
                ctx.fail("Proj_MP.__call__", "multi-process projection differs from single-process", inp,
                         {"ndiff": int((x != x1).sum() + (y != y1).sum())}, size=n)
            ctx.case("real.proj_mp", (r, n, nprocs, kind, chunk), nontrivial=n > nprocs, sample={"input": inp})
            # swaths as they come: 2-D, any memory layout, with runs of missing geolocation (NaN / inf) long enough to fill whole work items
            if n >= 7:
                rows_ = ctx.rng.choice([2, 3, 5, 7])
                cols_ = n // rows_
                m_ = rows_ * cols_
                lo2, la2 = lons[:m_].copy(), lats[:m_].copy()
                for _ in range(ctx.rng.randint(1, 3)):
                    a_ = ctx.rng.randrange(0, m_)
                    b_ = min(m_, a_ + ctx.rng.choice([1, 3, m_ // 3 + 1, m_ // 2 + 1]))
                    bad = ctx.rng.choice([np.nan, np.inf, 1e30])
                    lo2[a_:b_] = bad
                    if ctx.rng.random() < 0.7:
                        la2[a_:b_] = bad
                if ctx.rng.random() < 0.3:
                    lo2[: m_ - 2] = np.nan          # (nearly) everything missing
                lo2, la2 = lo2.reshape(rows_, cols_), la2.reshape(rows_, cols_)
                with warnings.catch_warnings():
                    warnings.simplefilter("ignore")
                    x1, y1 = tr.transform(lo2.copy(), la2.copy())
                for layout in ("C", "F", "transposed-view", "strided"):
                    if layout == "F":
                        lo3, la3 = np.asfortranarray(lo2), np.asfortranarray(la2)
                    elif layout == "transposed-view":
                        lo3, la3 = np.ascontiguousarray(lo2.T).T, np.ascontiguousarray(la2.T).T
                    elif layout == "strided":
                        lo3, la3 = np.repeat(lo2, 2, axis=1)[:, ::2], np.repeat(la2, 2, axis=1)[:, ::2]
                    else:
                        lo3, la3 = lo2.copy(), la2.copy()
                    inp2 = {**inp, "shape": [rows_, cols_], "layout": layout, "n_nonfinite": int((~np.isfinite(lo2) | ~np.isfinite(la2)).sum())}
                    with warnings.catch_warnings():
                        warnings.simplefilter("ignore")
                        x, y = Proj_MP(**proj_def)(lo3, la3, nprocs=nprocs, chunk=chunk, schedule=kind)
                    ctx.count(f"real.proj_mp.layout.{layout}")
                    ctx.case("real.proj_mp.2d", (r, n, nprocs, kind, chunk, layout, inp2["n_nonfinite"]), nontrivial=True, sample={"input": inp2})
                    if x.shape != lo2.shape or not (np.array_equal(x, x1, equal_nan=True) and np.array_equal(y, y1, equal_nan=True)):
                        nd = int((~((x == x1) | (np.isnan(x) & np.isnan(x1)))).sum() + (~((y == y1) | (np.isnan(y) & np.isnan(y1)))).sum()) if x.shape == x1.shape else -1
                        ctx.fail("Proj_MP.__call__", f"{layout} {lo2.shape} input with {inp2['n_nonfinite']} points without geolocation: multi-process projection differs from the "
                                 f"single-process one at {nd} coordinates", inp2, {"ndiff": nd}, tags={"cause": "layout-or-missing"}, size=n)
            if n > 0:
                k = ctx.rng.choice([1, 3])
                data = np.array([[ctx.rng.uniform(-1, 1) for _ in range(3)] for _ in range(50)])
                q = np.array([[ctx.rng.uniform(-1, 1) for _ in range(3)] for _ in range(n)])
                d, i = cKDTree_MP(data, nprocs=nprocs, chunk=chunk, schedule=kind).query(q, k=k, distance_upper_bound=0.8)
                d1, i1 = sp.cKDTree(data).query(q, k=k, distance_upper_bound=0.8)
                if not (np.array_equal(d, d1) and np.array_equal(i, i1)):
                    ctx.fail("cKDTree_MP.query", "multi-process kd-tree query differs from single-process", inp,
                             {"ndiff": int((i != i1).sum())}, size=n)
                ctx.case("real.ckdtree_mp", (r, n, nprocs, kind, chunk, k), nontrivial=n > nprocs)
                # the same tree object queried again (what kd_tree does per target segment): equal-sized and different-sized query sets
                tree = cKDTree_MP(data, nprocs=nprocs, chunk=chunk, schedule=kind)
                for rep_i, qq in enumerate((q, q[::-1].copy(), q[: max(1, n // 2)], q)):
                    d, i = tree.query(qq, k=k, distance_upper_bound=0.8)
                    d1, i1 = sp.cKDTree(data).query(qq, k=k, distance_upper_bound=0.8)
                    if not (np.array_equal(d, d1) and np.array_equal(i, i1)):
                        ctx.fail("cKDTree_MP.query", f"query number {rep_i + 1} on the same cKDTree_MP object ({len(qq)} points) differs from the single-process query",
                                 {**inp, "repeat": rep_i + 1, "n_query": len(qq)}, {"ndiff": int((i != i1).sum())}, tags={"cause": "repeated-query"}, size=n)
                        break
                ctx.case("real.ckdtree_mp.repeat", (r, n, nprocs, kind, chunk, k), nontrivial=n > nprocs)
        except Exception as e:  # a worker error surfaces as RuntimeError
            ctx.fail("_spatial_mp", f"multi-process run raised {type(e).__name__}: {e}", inp, size=n)


def _flag_definitions(rng):
    """Projection definitions in keyword form (a PROJ dictionary, as AreaDefinition.proj_dict = crs.to_dict() hands to Proj_MP) that
    carry VALUE-LESS parameters: in such a dictionary `key: None` is how a PROJ flag is written (+south, +no_uoff, +czech, +guam,
    +R_A, +approx, ... and the inert +no_defs).  Yields (family, definition, (lon, lat) of a place inside the projection's domain, half-width in degrees)."""
    import pyproj
    zone = rng.randrange(2, 60)
    lon_z = -183.0 + 6.0 * zone
    ell = rng.choice(["WGS84", "GRS80", "intl", "clrk66"])
    with warnings.catch_warnings():
        warnings.simplefilter("ignore")
        epsg_dict = pyproj.CRS.from_user_input("EPSG:327%02d" % zone).to_dict()       # {'proj': 'utm', 'zone': .., 'south': None, 'datum': 'WGS84', 'units': 'm', 'no_defs': None, 'type': 'crs'}
    yield "utm-south-epsg", epsg_dict, (lon_z + rng.uniform(-2.5, 2.5), rng.uniform(-70.0, -2.0)), 2.0
    zone2 = rng.randrange(2, 60)
    yield "utm-south", {"proj": "utm", "zone": zone2, "south": None, "ellps": ell}, (-183.0 + 6.0 * zone2 + rng.uniform(-2.5, 2.5), rng.uniform(-70.0, -2.0)), 2.0
    yield "utm-north", {"proj": "utm", "zone": zone2, "ellps": ell, "no_defs": None}, (-183.0 + 6.0 * zone2 + rng.uniform(-2.5, 2.5), rng.uniform(2.0, 70.0)), 2.0
    yield "ups-south", {"proj": "ups", "south": None, "ellps": "WGS84"}, (rng.uniform(-170.0, 170.0), rng.uniform(-86.0, -72.0)), 3.0
    lat_c, lon_c = rng.uniform(-50.0, 50.0), rng.uniform(-160.0, 160.0)
    om = {"proj": "omerc", "lat_0": round(lat_c, 3), "lonc": round(lon_c, 3), "alpha": round(rng.uniform(15.0, 75.0), 4), "k_0": rng.choice([1.0, 0.9996, 0.99984]),
          "x_0": rng.choice([0.0, 590476.87]), "y_0": rng.choice([0.0, 442857.65]), "ellps": ell}
    yield "omerc-no_uoff", dict(om, **{rng.choice(["no_uoff", "no_off"]): None}), (lon_c + rng.uniform(-1, 1), lat_c + rng.uniform(-1, 1)), 2.0
    yield "omerc-no_rot", dict(om, no_rot=None), (lon_c + rng.uniform(-1, 1), lat_c + rng.uniform(-1, 1)), 2.0
    yield "omerc-plain", dict(om, no_defs=None), (lon_c + rng.uniform(-1, 1), lat_c + rng.uniform(-1, 1)), 2.0
    lat_g, lon_g = rng.uniform(-40.0, 40.0), rng.uniform(-160.0, 160.0)
    yield "aeqd-guam", {"proj": "aeqd", "guam": None, "lat_0": round(lat_g, 2), "lon_0": round(lon_g, 2), "x_0": 50000.0, "y_0": 50000.0, "ellps": "clrk66"}, (lon_g, lat_g), 1.0
    lat_a, lon_a = rng.choice([-1, 1]) * rng.uniform(15.0, 60.0), rng.uniform(-150.0, 150.0)
    sph = rng.choice(["R_A", "R_V", "R_g", "R_h"])
    pr = rng.choice([{"proj": "laea", "lat_0": round(lat_a, 1), "lon_0": round(lon_a, 1)}, {"proj": "eqearth", "lon_0": round(lon_a, 1)},
                     {"proj": "aea", "lat_1": round(lat_a - 10, 1), "lat_2": round(lat_a + 10, 1), "lat_0": round(lat_a, 1), "lon_0": round(lon_a, 1)}])
    yield "sphere-of-ellipsoid-" + sph, dict(pr, ellps=ell, **{sph: None}), (lon_a, lat_a), 4.0
    lon_t = rng.uniform(-150.0, 150.0)
    yield "tmerc-approx", {"proj": "tmerc", "lon_0": round(lon_t, 1), "lat_0": 0.0, "k_0": 0.9996, "ellps": ell, "approx": None}, (lon_t + rng.choice([-1, 1]) * rng.uniform(8.0, 14.0), rng.uniform(-60.0, 60.0)), 3.0
    yield "krovak-czech", {"proj": "krovak", "lat_0": 49.5, "lon_0": 24.8333333333333, "alpha": 30.2881397527778, "k": 0.9999, "czech": None, "ellps": "bessel"}, (rng.uniform(13.0, 22.0), rng.uniform(48.0, 50.5)), 1.5
    yield "stere-south-plain", {"proj": "stere", "lat_0": -90.0, "lat_ts": -71.0, "lon_0": float(rng.randrange(-170, 170, 10)), "ellps": "WGS84", "no_defs": None}, (rng.uniform(-170, 170), rng.uniform(-85.0, -62.0)), 3.0


def _same_coords(a, b, atol):
    a, b = np.asarray(a, float), np.asarray(b, float)
    if a.shape != b.shape or not np.array_equal(np.isfinite(a), np.isfinite(b)):
        return False, float("inf")
    fin = np.isfinite(a)
    d = float(np.abs(a[fin] - b[fin]).max()) if fin.any() else 0.0
    return d <= atol, d


def suite_real_proj_definitions(ctx):
    """The projection DEFINITION must reach the worker processes as it was given: Proj_MP(**definition), forward and inverse, under any
    (nprocs, schedule, chunk), against its single-process counterpart pyproj.Proj(**definition) on the same points - for definitions
    whose PROJ dictionary carries value-less flags.  Then the library paths that call Proj_MP this way (keyword form of
    AreaDefinition.proj_dict): grid.get_linesample and image.ImageContainerQuick.resample with nprocs=2 against nprocs=1, and
    get_linesample against first principles (the lon/lat of the centre of pixel (r, c), computed by pyproj alone, has line r, sample c)."""
    import pyproj
    from pyresample import geometry, grid, image
    from pyresample._spatial_mp import Proj_MP
    r = ctx.rng
    defs = list(_flag_definitions(r))
    if not ctx.quick:
        for _ in range(3):
            defs += list(_flag_definitions(r))
    n_lib = 0
    for fam, definition, (lon_c, lat_c), half in defs:
        flags = sorted(k for k, v in definition.items() if v is None and k != "no_defs")
        with warnings.catch_warnings():
            warnings.simplefilter("ignore")
            as_area_gives = pyproj.CRS.from_user_input(definition).to_dict()
        # only what a CRS can carry (and so an AreaDefinition can hand over): every flag survives crs.to_dict() (possibly under its alias)
        if len([k for k, v in as_area_gives.items() if v is None and k != "no_defs"]) != len(flags):
            ctx.count("real.proj_def.flag_not_representable_in_a_crs")
            continue
        n = r.choice([37, 200, 1001])
        lons = np.array([lon_c + r.uniform(-half, half) / max(0.15, np.cos(np.radians(lat_c))) * (0.3 if abs(lat_c) > 70 else 1.0) for _ in range(n)])
        lats = np.clip(np.array([lat_c + r.uniform(-half, half) for _ in range(n)]), -89.5, 89.5)
        sp = pyproj.Proj(**definition)
        with warnings.catch_warnings():
            warnings.simplefilter("ignore")
            x_sp, y_sp = sp(lons, lats)
            lo_sp, la_sp = sp(x_sp, y_sp, inverse=True)
            # what the flags are worth at these points (single process, pyproj only)
            plain = pyproj.Proj(**{k: v for k, v in definition.items() if v is not None})
            x_pl, y_pl = plain(lons, lats)
        flag_effect = float(np.nanmax(np.abs(np.asarray(x_sp) - x_pl) + np.abs(np.asarray(y_sp) - y_pl))) if flags else 0.0
        failed_here = False
        forms = [("as-given", definition)] + ([("crs.to_dict()", as_area_gives)] if as_area_gives != definition else [])
        for form, dd in forms:
            for _ in range(1 if ctx.quick else 3):
                cfg = {"nprocs": r.choice([2, 2, 3, 4]), "schedule": r.choice(KINDS), "chunk": r.choice([None, 1, 5, 64])}
                for direction in ("forward", "inverse"):
                    inp = {"definition": {k: v for k, v in dd.items()}, "form": form, "flags": flags, "direction": direction, "n": n, **cfg,
                           "first_point": [float(lons[0]), float(lats[0])] if direction == "forward" else [float(x_sp[0]), float(y_sp[0])]}
                    ctx.case("real.proj_mp.definition", (fam, form, direction, n, cfg["nprocs"], cfg["schedule"], cfg["chunk"], float(lons[0])),
                             nontrivial=bool(flags) and flag_effect > 1e-3, sample={"input": inp, "flag_effect_m": flag_effect})
                    ctx.count("real.proj_def." + fam)
                    try:
                        with warnings.catch_warnings():
                            warnings.simplefilter("ignore")
                            if direction == "forward":
                                a, b = Proj_MP(**dd)(lons, lats, **cfg)
                                ra, rb, atol, unit = x_sp, y_sp, 1e-6, "projection units"
                            else:
                                a, b = Proj_MP(**dd)(np.asarray(x_sp), np.asarray(y_sp), inverse=True, **cfg)
                                ra, rb, atol, unit = lo_sp, la_sp, 1e-9, "degrees"
                    except Exception as e:  # noqa
                        ctx.fail("Proj_MP.__call__", f"multi-process run raised {type(e).__name__}: {str(e)[:150]}", inp, tags={"cause": "raises", "family": fam}, size=n)
                        failed_here = True
                        continue
                    ok1, d1 = _same_coords(a, ra, atol)
                    ok2, d2 = _same_coords(b, rb, atol)
                    if not (ok1 and ok2):
                        failed_here = True
                        ctx.fail("Proj_MP.__call__", f"{direction} projection with the definition in keyword form ({form}; value-less flags {flags or 'none but no_defs'}) differs from "
                                 f"pyproj.Proj(**definition) in a single process by up to {max(d1, d2):.6g} {unit}", inp,
                                 {"multi_process_first": [float(np.ravel(a)[0]), float(np.ravel(b)[0])], "single_process_first": [float(np.ravel(ra)[0]), float(np.ravel(rb)[0])],
                                  "max_abs_difference": max(d1, d2), "effect_of_the_flags_on_these_points": flag_effect},
                                 tags={"cause": "projection-definition", "family": fam, "direction": direction}, size=n)
        # ---- the library paths that hand AreaDefinition.proj_dict to Proj_MP in keyword form
        if failed_here:
            ctx.count("real.proj_def.library_paths_skipped_same_cause_already_reported")
            continue
        if ctx.quick and n_lib >= 5 and fam not in ("utm-south", "utm-south-epsg"):
            continue
        n_lib += 1
        w, h = r.randrange(20, 48), r.randrange(16, 40)
        px, py = r.choice([2000.0, 4000.0, 7500.0]), r.choice([2000.0, 5000.0])
        with warnings.catch_warnings():
            warnings.simplefilter("ignore")
            xc, yc = (float(v) for v in sp(lon_c, lat_c))
        ext = (xc - w * px / 2, yc - h * py / 2, xc + w * px / 2, yc + h * py / 2)
        with warnings.catch_warnings():
            warnings.simplefilter("ignore")
            area = geometry.AreaDefinition("src", "src", "src", dict(definition), w, h, ext)
            # pixel centres by hand, their lon/lat by pyproj alone
            cx = ext[0] + (np.arange(w) + 0.5) * px
            cy = ext[3] - (np.arange(h) + 0.5) * py
            CX, CY = np.meshgrid(cx, cy)
            plon, plat = sp(CX, CY, inverse=True)
            bx, by = sp(plon, plat)
        rr, cc = np.meshgrid(np.arange(h), np.arange(w), indexing="ij")
        well_inside = np.isfinite(bx) & (np.abs(bx - CX) < 0.25 * px) & (np.abs(by - CY) < 0.25 * py)      # the projection's own inverse is good enough here
        with warnings.catch_warnings():
            warnings.simplefilter("ignore")
            inp = {"definition": dict(definition), "flags": flags, "proj_dict_of_the_area": {k: v for k, v in area.proj_dict.items()}, "shape": [h, w], "extent": list(ext)}
        out = {}
        try:
            with warnings.catch_warnings():
                warnings.simplefilter("ignore")
                for nprocs in (1, 2):
                    out[nprocs] = grid.get_linesample(plon, plat, area, nprocs=nprocs)
        except Exception as e:  # noqa
            ctx.fail("grid.get_linesample", f"raised {type(e).__name__}: {str(e)[:150]}", inp, tags={"cause": "raises", "family": fam}, size=w * h)
            continue
        ctx.case("real.get_linesample.definition", (fam, w, h, px, py, xc, yc), nontrivial=bool(flags) and flag_effect > 1e-3, sample={"input": inp})
        for nprocs in (1, 2):
            rows, cols = out[nprocs]
            bad = well_inside & ((rows != rr) | (cols != cc))
            if bad.any():
                i, j = (int(v[0]) for v in np.nonzero(bad))
                ctx.fail("grid.get_linesample", f"nprocs={nprocs}: the lon/lat of the centre of pixel (r, c) does not get line r, sample c at {int(bad.sum())} of {int(well_inside.sum())} pixels "
                         f"(value-less flags of the projection: {flags or 'none but no_defs'})", {**inp, "nprocs": nprocs},
                         {"pixel": [i, j], "lonlat": [float(plon[i, j]), float(plat[i, j])], "got_line_sample": [int(rows[i, j]), int(cols[i, j])]},
                         tags={"cause": "projection-definition", "family": fam, "nprocs": nprocs}, size=w * h)
        if not (np.array_equal(out[1][0], out[2][0]) and np.array_equal(out[1][1], out[2][1])):
            ctx.fail("grid.get_linesample", f"nprocs=2 differs from nprocs=1 at {int(((out[1][0] != out[2][0]) | (out[1][1] != out[2][1])).sum())} of {w * h} positions", inp,
                     tags={"cause": "projection-definition", "family": fam, "nprocs": 2}, size=w * h)
        # a lon/lat target over the same region, resampled from the area with 1 and with 2 processes
        fin = np.isfinite(plon) & np.isfinite(plat)
        if not fin.all() or float(plon.max() - plon.min()) > 90.0:
            ctx.count("real.proj_def.no_lonlat_target")
            continue
        tw, th = r.randrange(12, 30), r.randrange(10, 24)
        with warnings.catch_warnings():
            warnings.simplefilter("ignore")
            target = geometry.AreaDefinition("t", "t", "t", {"proj": "longlat", "ellps": "WGS84"}, tw, th,
                                             (float(plon.min()), float(plat.min()), float(plon.max()), float(plat.max())))
            data = np.arange(w * h, dtype=np.float64).reshape(h, w) + 1.0
            res = {}
            try:
                for nprocs in (1, 2):
                    res[nprocs] = np.asarray(image.ImageContainerQuick(data, area, nprocs=nprocs, segments=1, fill_value=-1).resample(target).image_data)
            except Exception as e:  # noqa
                ctx.fail("image.ImageContainerQuick.resample", f"raised {type(e).__name__}: {str(e)[:150]}", inp, tags={"cause": "raises", "family": fam}, size=w * h)
                continue
        ctx.case("real.image_quick.definition", (fam, w, h, tw, th, xc, yc), nontrivial=bool(flags) and flag_effect > 1e-3 and bool((res[1] != -1).any()))
        if res[1].shape != res[2].shape or not np.array_equal(res[1], res[2]):
            nd = int((res[1] != res[2]).sum()) if res[1].shape == res[2].shape else -1
            ctx.fail("image.ImageContainerQuick.resample", f"nprocs=2 differs from nprocs=1 at {nd} of {tw * th} target pixels (value-less flags of the source projection: {flags or 'none but no_defs'})",
                     {**inp, "target_shape": [th, tw], "target_extent": [float(v) for v in target.area_extent]}, {"n_valid_nprocs1": int((res[1] != -1).sum()), "n_valid_nprocs2": int((res[2] != -1).sum())},
                     tags={"cause": "projection-definition", "family": fam, "nprocs": 2}, size=w * h)


def _kd_points(rng, kind, n, dim):
    """source points: distinct / on a coarse lattice (many coincident points and exact distance ties) / with duplicated rows (overlapping scans)"""
    pts = np.array([[rng.uniform(-1, 1) for _ in range(dim)] for _ in range(n)]).reshape(n, dim)
    if kind == "lattice":
        pts = np.round(pts * 4) / 4
    elif kind == "duplicated" and n >= 2:
        m = rng.randrange(1, n)
        pts[m:] = pts[[rng.randrange(0, m) for _ in range(n - m)]]
        pts = pts[rng.sample(range(n), n)]
    return np.ascontiguousarray(pts)


def suite_real_kdtree_params(ctx):
    """cKDTree_MP.query(x, k, eps, p, distance_upper_bound) of a tree built with (data, leafsize) against the single-process query it
    parallelises, scipy.spatial.cKDTree(data, leafsize).query(x, k, eps, p, distance_upper_bound): every argument of the constructor and
    of the query over its range, bitwise.  Each query point is answered on its own, so the partition of the query set among the workers
    cannot show - also where the answer depends on the layout of the tree (approximate queries eps > 0, coincident source points,
    equidistant neighbours) or on the metric (Minkowski p)."""
    import inspect
    import scipy.spatial as sp
    from pyresample._spatial_mp import cKDTree_MP
    r = ctx.rng
    default_leaf = inspect.signature(cKDTree_MP.__init__).parameters["leafsize"].default
    for rep in range(70 if ctx.quick else 700):
        dim = r.choice([2, 3, 3])
        nd = r.choice([1, 2, 5, 17, 50, 200, 200, 600, 600])
        dkind = r.choice(["distinct", "lattice", "duplicated"])
        data = _kd_points(r, dkind, nd, dim)
        nq = r.choice([1, 7, 100, 257, 401])
        q = _kd_points(r, r.choice(["distinct", "distinct", "lattice"]), nq, dim)
        if r.random() < 0.4:       # query points that coincide with source points: zero distances, ties among coincident sources
            for j in range(0, nq, 2):
                q[j] = data[r.randrange(nd)]
        leafsize = r.choice([None, None, 1, 2, 3, 5, 8, 10, 15, 16, 32])
        k = r.choice([1, 1, 2, 4])
        eps = r.choice([0, 0, 0.1, 0.5, 1.0, 3.0])
        pnorm = r.choice([2, 2, 1, 3, float("inf"), 1.5])
        dub = r.choice([float("inf"), float("inf"), 0.8, 0.25])
        nprocs, chunk, kind = r.choice([2, 3, 4]), r.choice([None, 1, 5, 13, 64]), r.choice(KINDS)
        leaf_eff = default_leaf if leafsize is None else leafsize
        inp = {"n_data": nd, "dim": dim, "data_kind": dkind, "n_query": nq, "leafsize": "default" if leafsize is None else leafsize, "k": k, "eps": eps, "p": pnorm,
               "distance_upper_bound": dub, "nprocs": nprocs, "chunk": chunk, "schedule": kind}
        try:
            tree = cKDTree_MP(data, nprocs=nprocs, chunk=chunk, schedule=kind) if leafsize is None else \
                cKDTree_MP(data, leafsize=leafsize, nprocs=nprocs, chunk=chunk, schedule=kind)
            d, i = tree.query(q, k=k, eps=eps, p=pnorm, distance_upper_bound=dub)
        except Exception as e:  # noqa
            ctx.fail("cKDTree_MP.query", f"multi-process run raised {type(e).__name__}: {e}", inp, tags={"cause": "raises"}, size=nq + nd)
            continue
        single = sp.cKDTree(data, leafsize=leaf_eff)
        d1, i1 = single.query(q, k=k, eps=eps, p=pnorm, distance_upper_bound=dub)
        # what this case can tell apart (single-process only): another tree layout, the Euclidean metric
        d2, i2 = sp.cKDTree(data, leafsize=4 * max(leaf_eff, 16)).query(q, k=k, eps=eps, p=pnorm, distance_upper_bound=dub)
        layout_sensitive = not (np.array_equal(d1, d2) and np.array_equal(i1, i2))
        d3, i3 = single.query(q, k=k, eps=eps, p=2, distance_upper_bound=dub)
        metric_sensitive = not (np.array_equal(d1, d3) and np.array_equal(i1, i3))
        ctx.count("kd.layout_sensitive" if layout_sensitive else "kd.layout_insensitive")
        if pnorm != 2:
            ctx.count("kd.metric_sensitive" if metric_sensitive else "kd.metric_insensitive")
        if d.shape != d1.shape or i.shape != i1.shape or not (np.array_equal(d, d1) and np.array_equal(i, i1)):
            if d.shape == d1.shape and i.shape == i1.shape:
                rows = np.nonzero(((d != d1) | (i != i1)).reshape(nq, -1).any(axis=1))[0]
                j = int(rows[0])
                obs = {"n_query_points_differing": int(rows.size), "first": {"query_index": j, "query_point": q[j].tolist(), "multi_process": [np.ravel(d[j]).tolist(), np.ravel(i[j]).tolist()],
                                                                           "single_process": [np.ravel(d1[j]).tolist(), np.ravel(i1[j]).tolist()]}}
            else:
                obs = {"shapes": [list(d.shape), list(i.shape)], "single_process_shapes": [list(d1.shape), list(i1.shape)]}
            if nd <= 50:
                inp = {**inp, "data": data.tolist()}
            ctx.fail("cKDTree_MP.query", f"multi-process kd-tree query (leafsize {inp['leafsize']}, k={k}, eps={eps}, p={pnorm}, distance_upper_bound={dub}) differs from "
                     f"scipy.spatial.cKDTree(data, leafsize={leaf_eff}).query with the same arguments", inp, obs,
                     tags={"cause": "query-arguments", "layout_sensitive": layout_sensitive, "metric_sensitive": metric_sensitive}, size=nq + nd)
        ctx.case("real.ckdtree_mp.params", (rep, nd, dim, dkind, nq, leafsize, k, eps, pnorm, dub, nprocs, chunk, kind), nontrivial=layout_sensitive or metric_sensitive or nq > nprocs,
                 sample={"input": inp, "layout_sensitive": layout_sensitive, "metric_sensitive": metric_sensitive})


# ---------------------------------------------------------------------------------------------------------------------------------
# sequences of multi-process calls in one interpreter, some of which fail legitimately

_SEQ_DEFS = [{"proj": "laea", "lat_0": 10, "lon_0": 20, "ellps": "WGS84"},
             {"proj": "stere", "lat_0": 90, "lon_0": 0, "lat_ts": 60, "ellps": "WGS84"},
             {"proj": "eqc", "lon_0": 0, "ellps": "WGS84"},
             {"proj": "merc", "lon_0": -40, "ellps": "WGS84"},
             {"proj": "lcc", "lat_1": 30, "lat_2": 60, "lat_0": 45, "lon_0": 10, "ellps": "WGS84"}]


def _seq_cfg(r):
    return {"nprocs": r.choice([1, 2, 2, 3, 4]), "chunk": r.choice([None, None, 1, 5, 7, 64]), "schedule": r.choice(KINDS)}


def _seq_step(r):
    """one call of a sequence, as plain data (replayable): what is called, on what (a seed for the arrays), with which arguments"""
    if r.random() < 0.5:
        bad = r.choice([None, None, None, "latitude-out-of-range", "latitude-out-of-range", "inverse-far-outside", "unknown-projection"])
        st = {"op": "proj", "object": r.choice(["A", "B", "fresh"]), "definition": r.randrange(len(_SEQ_DEFS)), "n": r.choice([1, 4, 7, 100, 1001]),
              "data_seed": r.randrange(10 ** 6), "direction": {"inverse-far-outside": "inverse", "latitude-out-of-range": "forward"}.get(bad) or r.choice(["forward", "forward", "inverse"]),
              "errcheck": True if bad else r.random() < 0.3, "bad": bad, **_seq_cfg(r)}
        if bad in ("latitude-out-of-range", "inverse-far-outside"):
            st["n_bad_points"] = r.choice([1, 1, 2, "all"])
            if r.random() < 0.15:
                st["errcheck"] = False        # then nothing raises anywhere: infinities in both results
    else:
        bad = r.choice([None, None, None, "p<1", "p<1", "k<1", "dimension-mismatch"])
        st = {"op": "tree", "object": r.choice(["A", "B", "fresh"]), "n_data": r.choice([1, 5, 50, 200]), "n_query": r.choice([1, 7, 100, 401]), "data_seed": r.randrange(10 ** 6),
              "k": r.choice([0, -1]) if bad == "k<1" else r.choice([1, 1, 3]), "p": r.choice([0.5, 0, -1]) if bad == "p<1" else r.choice([2, 2, 1, float("inf")]),
              "eps": r.choice([0, 0, 0.5]), "distance_upper_bound": r.choice([float("inf"), 0.8]), "bad": bad, **_seq_cfg(r)}
    return st


def _seq_tree_data(seed, n_data):
    return np.random.default_rng([seed, 1]).uniform(-1, 1, size=(n_data, 3))


def _seq_call(st, objects):
    """Run one step in both forms. Returns (single, multi), each ('returns', (a, b)) or ('raises', text)."""
    import pyproj
    import scipy.spatial as sp
    from pyresample._spatial_mp import Proj_MP, cKDTree_MP
    from pyresample.utils.proj4 import get_geodetic_crs_with_no_datum_shift
    g = np.random.default_rng([st["data_seed"], 0])
    cfg = {"nprocs": st["nprocs"], "chunk": st["chunk"], "schedule": st["schedule"]}

    def attempt(f):
        try:
            with warnings.catch_warnings():
                warnings.simplefilter("ignore")
                a, b = f()
            return ("returns", (np.asarray(a), np.asarray(b)))
        except Exception as e:  # noqa
            return ("raises", f"{type(e).__name__}: {str(e)[:120]}")

    if st["op"] == "proj":
        d = {"proj": "no_such_projection"} if st["bad"] == "unknown-projection" else _SEQ_DEFS[st["definition"]]
        n = st["n"]
        lons, lats = g.uniform(-180, 180, n), g.uniform(-80, 80, n)
        inverse = st["direction"] == "inverse"
        if inverse and st["bad"] != "unknown-projection":
            with warnings.catch_warnings():
                warnings.simplefilter("ignore")
                a, b = (np.asarray(v, float) for v in pyproj.Proj(**d)(lons, lats))
        else:
            a, b = lons, lats
        if st["bad"] in ("latitude-out-of-range", "inverse-far-outside"):
            where = np.arange(n) if st["n_bad_points"] == "all" else g.choice(n, size=min(n, st["n_bad_points"]), replace=False)
            if inverse:
                a[where] = 1e30
            else:
                b[where] = g.choice([-1.0, 1.0], size=len(where)) * g.uniform(90.5, 150.0, size=len(where))

        def single_transformer():
            crs = pyproj.CRS.from_user_input(d)
            tr = pyproj.Transformer.from_crs(get_geodetic_crs_with_no_datum_shift(crs), crs, always_xy=True)
            return tr.transform(a.copy(), b.copy(), errcheck=st["errcheck"], direction="INVERSE" if inverse else "FORWARD")

        def single_proj():
            return pyproj.Proj(**d)(a.copy(), b.copy(), inverse=inverse, errcheck=st["errcheck"])

        def multi():
            key = ("proj", st["object"], st["definition"], st["bad"] == "unknown-projection")
            obj = objects.get(key) if st["object"] != "fresh" else None
            if obj is None:
                obj = Proj_MP(**d)
                objects[key] = obj
            return obj(a.copy(), b.copy(), inverse=inverse, errcheck=st["errcheck"], **cfg)

        s1, s2 = attempt(single_transformer), attempt(single_proj)
        single = s1 if s1[0] == s2[0] else ("ambiguous", f"Transformer {s1[0]}, Proj {s2[0]}")
        return single, attempt(multi)
    data = _seq_tree_data(st["data_seed"] if st["object"] == "fresh" else {"A": 101, "B": 202}[st["object"]], st["n_data"])
    q = g.uniform(-1, 1, size=(st["n_query"], 4 if st["bad"] == "dimension-mismatch" else 3))
    kw = {"k": st["k"], "eps": st["eps"], "p": st["p"], "distance_upper_bound": st["distance_upper_bound"]}

    def multi_tree():
        # the pooled objects keep the (nprocs, chunk, schedule) of the step that built them
        key = ("tree", st["object"], st["n_data"])
        obj = objects.get(key) if st["object"] != "fresh" else None
        if obj is None:
            obj = cKDTree_MP(data, **cfg)
            objects[key] = obj
        return obj.query(q, **kw)

    return attempt(lambda: sp.cKDTree(data, leafsize=10).query(q, **kw)), attempt(multi_tree)


_SEQ_FAILED_CALLS_SO_FAR = [0]      # calls of all sequences run by this interpreter that raised in both forms
_SEQ_HISTORY = []                   # every call of the sequences run so far by this interpreter, {"op": "new-sequence"} between them


def _run_sequence(ctx, steps, suite, seq_id=None):
    """Every call that returns in its single-process form must return the same arrays in its multi-process form, whatever the calls before it did."""
    objects = {}
    failed_before = 0       # calls so far that raised in BOTH forms
    clean = lambda h: {k: v for k, v in h.items() if not k.startswith("_")}  # noqa: E731
    earlier = list(_SEQ_HISTORY)
    _SEQ_HISTORY.append({"op": "new-sequence"})
    for idx, st in enumerate(steps):
        if st["op"] == "new-sequence":      # (replay of a record that carries the calls of earlier sequences) the objects in use are dropped here
            objects.clear()
            continue
        _SEQ_HISTORY.append(clean(st))
        single, multi = _seq_call(st, objects)
        site = "Proj_MP.__call__" if st["op"] == "proj" else "cKDTree_MP.query"
        history = [("ok" if h.get("_outcome") == "returns" else "failed") + ":" + h["op"] for h in steps[:idx] if h["op"] != "new-sequence"]
        inp = {"sequence": [clean(h) for h in steps[: idx + 1]], "failing_step": idx,
               "outcomes_of_the_earlier_calls": history, "n_earlier_calls_that_failed_in_both_forms": failed_before,
               "n_calls_of_earlier_sequences_in_this_interpreter_that_failed_in_both_forms": _SEQ_FAILED_CALLS_SO_FAR[0] - failed_before}
        if not failed_before and _SEQ_FAILED_CALLS_SO_FAR[0]:      # nothing failed yet in this sequence: what the interpreter did before belongs to the input
            inp["sequence"] = earlier + [{"op": "new-sequence"}] + inp["sequence"]
            inp["failing_step"] = len(inp["sequence"]) - 1
        st["_outcome"] = single[0] if single[0] != "ambiguous" else multi[0]
        ctx.count(f"{suite}.single_{single[0]}.multi_{multi[0]}")
        if single[0] == "ambiguous":
            continue
        if single[0] == "raises":
            if multi[0] == "raises":
                failed_before += 1
                _SEQ_FAILED_CALLS_SO_FAR[0] += 1
                ctx.count(f"{suite}.failed_call.{st['op']}.{st['bad']}")
            continue
        ctx.case(suite, (seq_id, idx, st["op"], st["data_seed"], st["nprocs"], st["chunk"], st["schedule"], failed_before), nontrivial=failed_before > 0,
                 sample={"input": inp} if failed_before else None)
        ctx.count(f"{suite}.good_call_after_%s_failed" % min(failed_before, 3))
        if multi[0] == "raises":
            ctx.fail(site, f"call number {idx + 1} of a sequence in one interpreter raises {multi[1]} in its multi-process form while the single-process call on the same input returns; "
                     f"{failed_before} earlier call(s) of the sequence had failed (in both forms, on bad input)", inp, {"multi_process": multi[1]},
                     tags={"cause": "state-after-failed-call" if failed_before else "raises", "op": st["op"]}, size=len(inp["sequence"]))
            return True
        (a, b), (a1, b1) = multi[1], single[1]
        if a.shape != a1.shape or b.shape != b1.shape or not (np.array_equal(a, a1, equal_nan=True) and np.array_equal(b, b1, equal_nan=True)):
            ctx.fail(site, f"call number {idx + 1} of a sequence in one interpreter differs from the single-process call on the same input ({failed_before} earlier call(s) had failed on bad input)",
                     inp, {"shapes": [list(a.shape), list(a1.shape)]}, tags={"cause": "state-after-failed-call" if failed_before else "differs", "op": st["op"]}, size=len(inp["sequence"]))
            return True
    return False


def suite_real_call_sequences(ctx):
    """SEQUENCES of Proj_MP / cKDTree_MP calls in this one interpreter - fresh objects and objects used before, any (nprocs, chunk, schedule) - in which some calls fail
    legitimately (errcheck=True with latitudes beyond the poles or planar coordinates far outside the projection, an unknown projection, a Minkowski p < 1, k < 1, query
    points of the wrong dimension: whatever raises in the single-process form too).  The single-process counterpart of each call decides what the call has to do; every call
    that returns there must return the same arrays here, bitwise, whatever happened earlier in the sequence."""
    import random
    r = random.Random(f"c15-sequences-{ctx.seed}")
    nseq = 10 if ctx.quick else 120
    for seq_id in range(nseq):
        length = r.randrange(4, 9)
        steps = [_seq_step(r) for _ in range(length)]
        # at least one call meant to fail, followed by at least two calls meant to succeed
        j = r.randrange(0, length - 2)
        while not steps[j]["bad"]:
            steps[j] = _seq_step(r)
        for j in (length - 2, length - 1):
            while steps[j]["bad"]:
                steps[j] = _seq_step(r)
        if _run_sequence(ctx, steps, "real.sequence", seq_id):
            # whatever is shared between calls is wrong from here on in this interpreter: later sequences would not be independent evidence
            ctx.count("real.sequence.stopped_after_the_first_failing_sequence")
            break


def run(ctx):
    suite_initchunk(ctx)
    suite_controlled(ctx)
    suite_real_mp(ctx)
    suite_real_kdtree_params(ctx)
    suite_real_proj_definitions(ctx)
    suite_real_call_sequences(ctx)


def search(ctx):
    """correspondence or proof broken: look for an interleaving on which the property itself fails"""
    found = False
    for d in ctx.disagreements[:20]:
        i = d["input"]
        if not isinstance(i, dict) or "interleaving" not in i:
            continue
        # variations around the disagreeing configuration: many random interleavings
        for _ in range(300):
            W = max(2, i["workers"])
            L = ctx.rng.randrange(0, 40)
            prefix = []
            while len(prefix) < L:
                prefix += [ctx.rng.randrange(W)] * ctx.rng.choice([1, 1, 2, 3, 5])
            if one_run(ctx, i["n"], i["nprocs"], i["chunk"], i["schedule"], W, prefix[:L], "search"):
                found = True
                break
        if found:
            break
    if not found:
        for _ in range(1500):
            n = ctx.rng.randrange(0, 40)
            W = ctx.rng.choice([2, 3, 4])
            L = ctx.rng.randrange(0, 60)
            prefix = []
            while len(prefix) < L:
                prefix += [ctx.rng.randrange(W)] * ctx.rng.choice([1, 1, 2, 3, 5])
            if one_run(ctx, n, W, ctx.rng.choice([None, 1, 2, 5]), ctx.rng.choice(KINDS), W, prefix[:L], "search"):
                break


def replay(ctx, rec):
    i = rec.get("input", {})
    if "interleaving" in i:
        bad = one_run(ctx, i["n"], i["nprocs"], i["chunk"], i["schedule"], i["workers"], i["interleaving"], "replay")
        print("replay:", "property FAILS on the real code" if bad else "property holds on this input now")
        for f in ctx.failures:
            print("  ", f["what"])
        return 1 if bad else 0
    if "sequence" in i:
        bad = _run_sequence(ctx, [dict(st) for st in i["sequence"]], "replay")
        print("replay:", "property FAILS on the real code" if bad else "property holds on this input now")
        for f in ctx.failures:
            print("  ", f["what"])
        return 1 if bad else 0
    print(rec)
    return 0
