"""C03 — kd-tree resampling results do not depend on how the work is organised."""
import math
import warnings

import numpy as np

from . import kdcommon as kc

META = {
    "rule": "one case = (geometry pair, radius, resample type, reduce_data, segments, nprocs). Every combination's output must "
            "be identical to the plain call (reduce_data=False, segments=1, nprocs=1); neighbour info computed once is reused "
            "on several datasets and compared with one-shot calls; the reduction window of data_reduce is decided per pair by "
            "brute force (is every valid source within the radius of a valid target kept?). Geometry pairs incl. targets at "
            "high latitude, off the central meridian, across the dateline, over a pole, flipped grids; targets with >= 200 rows / columns "
            "(source clusters at corners, side midpoints, centre, outside); geostationary area sources (sectors on the disk, over the limb, full disk) "
            "sampled at a swath; lon/lat grid / area sources stored east -> west and small high-latitude area sources sampled at swaths inside / reaching past them "
            "(pairs whose coarse output window is too tight), there also get_neighbour_info(reduce_data=False, segments >= 2) + get_sample_from_neighbour_info "
            "against the plain call and the plain call against brute force; get_neighbour_info(reduce_data=True, segments) + get_sample_from_neighbour_info. A reduction that drops a needed location "
            "is the known finding F7 only while the mask the library applies equals the frozen F7 window on the harness's own outline. Non-trivial: reduce_data "
            "drops >= 1 source, or segments >= 2, or nprocs >= 2. Distinct = distinct canonical input.",
    "assumptions": ["pairs with exact distance ties (two sources within 1e-9 relative for one target) are skipped: pykdtree (nprocs=1) and "
                    "scipy cKDTree (nprocs>1) break ties differently", "OS scheduling of worker processes is sampled"],
}

R = 6370997.0


def _ties(d, radius, k):
    """True if some target has an ambiguous k-nearest set or a neighbour at the radius threshold"""
    if d.shape[1] < 2:
        return False
    srt = np.sort(d, axis=1)[:, :k + 1]
    with np.errstate(invalid="ignore"):
        fin = np.isfinite(srt)
        gaps = np.abs(np.diff(srt, axis=1)) <= 1e-9 * np.maximum(srt[:, :-1], 1.0)
        tie = (gaps & fin[:, 1:] & (srt[:, :-1] <= radius * (1 + 1e-9))).any()
        thr = (np.abs(srt - radius) <= 1e-9 * max(radius, 1.0)).any()
    return bool(tie or thr)


def _brute_force_scan(slo, sla, tlo, tla, radius, k):
    """all source x target chord distances
    -> (some target has a distance tie / a neighbour at the radius threshold, valid sources within the radius of a valid target,
        valid targets with a valid source within the radius, valid sources, valid targets).
    Small pairs: one distance matrix.  Big pairs: targets that are farther than the radius from every source are set aside first by the triangle
    inequality (bounding spheres of the sources falling in one cell of a coarse cartesian grid; such a target has no neighbour, no tie and
    nothing at the threshold), the remaining targets are taken in blocks."""
    n_src, n_tgt = slo.size, tlo.size
    sv = kc.valid(slo, sla)
    tv = kc.valid(tlo, tla)
    if n_src * n_tgt <= 4_000_000:
        d, _, _ = kc.dist_matrix(slo, sla, tlo, tla)
        within = d <= radius
        return _ties(d, radius, k), within.any(axis=0) & sv, within.any(axis=1) & tv, sv, tv
    S = kc.xyz(slo[sv], sla[sv])
    T = kc.xyz(np.where(tv, tlo, 0.0), np.where(tv, tla, 0.0))
    near = np.zeros(n_tgt, dtype=bool)
    if S.shape[0]:
        cell = max(4.0 * radius, float((S.max(axis=0) - S.min(axis=0)).max()) / 12.0, 1.0)
        _, group = np.unique(np.floor(S / cell).astype(np.int64), axis=0, return_inverse=True)
        group = np.asarray(group).ravel()
        for g in range(int(group.max()) + 1):
            P = S[group == g]
            c = P.mean(axis=0)
            rho = float(np.sqrt(((P - c) ** 2).sum(axis=1)).max())
            near |= ((T - c) ** 2).sum(axis=1) <= (rho + radius * (1 + 1e-6) + 1.0) ** 2
    idx = np.flatnonzero(near & tv)
    tie = False
    needed_src = np.zeros(n_src, dtype=bool)
    needed_tgt = np.zeros(n_tgt, dtype=bool)
    block = max(1, 2_000_000 // max(n_src, 1))
    for i in range(0, idx.size, block):
        sel = idx[i:i + block]
        d, _, _ = kc.dist_matrix(slo, sla, tlo[sel], tla[sel])
        tie = tie or _ties(d, radius, k)
        within = d <= radius
        needed_src |= within.any(axis=0)
        needed_tgt[sel] = within.any(axis=1)
    return tie, needed_src & sv, needed_tgt & tv, sv, tv


def _same(a, b):
    if isinstance(a, tuple):
        return len(a) == len(b) and all(_same(x, y) for x, y in zip(a, b))
    a_m, b_m = np.ma.getmaskarray(a), np.ma.getmaskarray(b)
    if a.shape != b.shape or a.dtype != b.dtype or not np.array_equal(a_m, b_m):
        return False
    return bool(np.array_equal(np.ma.filled(a, 0)[~a_m], np.ma.filled(b, 0)[~b_m], equal_nan=True))


def _special_pairs(ctx):
    """targets that stress the reduction window"""
    from pyresample.geometry import SwathDefinition
    r = ctx.rng
    out = []
    # laea at 75N off the central meridian, source swath all around
    for lat0, lon0, name in ((75.0, 40.0, "laea75N"), (-72.0, -100.0, "laea72S"), (60.0, 178.0, "laea_dateline"), (88.5, 10.0, "near_pole")):
        tgt = kc.mk_area({"proj": "laea", "lat_0": lat0, "lon_0": lon0 - 25.0, "ellps": "WGS84"}, 6, 5, (4.0e5, -3.0e5, 1.0e6, 2.0e5))
        lon, lat = kc.swath(r, 9, 9, lon0, lat0, 14.0)
        out.append((SwathDefinition(lon, lat), tgt, 60000.0, f"special {name}: swath[9x9] -> laea off-centre 5x6, r=60000"))
    # flipped eqc target
    tgt = kc.mk_area({"proj": "eqc", "lon_0": 0, "ellps": "WGS84"}, 6, 5, (1.0e6, 5.0e6, 2.0e5, 4.2e6))
    lon, lat = kc.swath(r, 10, 10, 6.0, 42.0, 10.0)
    out.append((SwathDefinition(lon, lat), tgt, 50000.0, "special flipped_eqc: swath[10x10] -> eqc 5x6 with x flipped, r=50000"))
    # polar stere target containing the pole
    tgt = kc.mk_area({"proj": "stere", "lat_0": 90, "lat_ts": 60, "lon_0": 0, "ellps": "WGS84"}, 6, 6, (-4.0e5, -4.0e5, 4.0e5, 4.0e5))
    lon, lat = kc.swath(r, 9, 9, 30.0, 88.0, 8.0)
    out.append((SwathDefinition(lon, lat), tgt, 80000.0, "special over_pole: swath[9x9] -> stere 6x6 over the pole, r=80000"))
    # area whose CRS has a non-Greenwich prime meridian (what antimeridian_mode="modify_crs" produces), across the dateline
    tgt = kc.mk_area({"proj": "longlat", "pm": 180, "datum": "WGS84"}, 8, 5, (-4.0, 10.0, 4.0, 15.0))
    lon, lat = kc.swath(r, 9, 9, 179.5, 12.5, 9.0)
    out.append((SwathDefinition(lon, lat), tgt, 60000.0, "special pm180: swath[9x9] at the dateline -> longlat +pm=180 5x8, r=60000"))
    # regional polar-stereographic targets whose own right (resp. left) edge straddles the antimeridian, regular lon/lat mesh as source
    for lon0, ext, name in ((150.0, (-1.0e6, -3.5e6, 1.5e6, -1.5e6), "bering_right_edge"), (-150.0, (-1.5e6, -3.5e6, 1.0e6, -1.5e6), "bering_left_edge")):
        tgt = kc.mk_area({"proj": "stere", "lat_0": 90, "lat_ts": 70, "lon_0": lon0, "ellps": "WGS84"}, 7, 6, ext)
        lo = np.arange(100.0, 260.0, 4.0)
        lo = np.where(lo > 180, lo - 360, lo)
        la = np.arange(85.0, 40.0, -3.0)
        mlon, mlat = np.meshgrid(lo, la)
        out.append((SwathDefinition(mlon, mlat), tgt, 250000.0, f"special {name}: lon/lat mesh {mlon.shape} across 180 -> stere 6x7 with an edge straddling 180, r=250000"))
    # source and target far apart: the reduction leaves nothing and the "nothing to resample" shortcut answers
    tgt = kc.mk_area({"proj": "laea", "lat_0": 50, "lon_0": 10, "ellps": "WGS84"}, 6, 5, (-3.0e5, -2.5e5, 3.0e5, 2.5e5))
    lon, lat = kc.swath(r, 8, 8, -70.0, -20.0, 8.0)
    out.append((SwathDefinition(lon, lat), tgt, 50000.0, "special disjoint: swath[8x8] over South America -> laea Europe 5x6, r=50000"))
    # grid -> swath (output reduction)
    src = kc.mk_area({"proj": "laea", "lat_0": 70, "lon_0": 20, "ellps": "WGS84"}, 8, 7, (-4.0e5, -3.0e5, 4.0e5, 4.0e5))
    lon, lat = kc.swath(r, 8, 8, 20.0, 70.0, 12.0)
    out.append((src, SwathDefinition(lon, lat), 70000.0, "special grid_to_swath: laea70N 7x8 -> swath[8x8], r=70000"))
    return out


def _own_transformer(area):
    """harness-side projection of an area's CRS (lon/lat on the CRS's own datum), independent of the library's lon/lat accessors"""
    import pyproj
    crs = pyproj.CRS.from_user_input(area.crs)
    return pyproj.Transformer.from_crs(crs.geodetic_crs, crs, always_xy=True)


def _big_target_pairs(ctx):
    """targets with >= 200 rows or columns (the other pairs stop at 64 / 200 elements): long outlines, many row segments.  The target lies off the
    central meridian of its projection (either hemisphere, either side), so its sides are slanted against the meridians and the extremes of the
    outline sit in its corners.  Source: a swath of small jittered lattices (resolution similar to the target's) around the places where an outline
    matters - the four corners, the four side midpoints, the centre - plus one cluster well outside the target that a sound reduction may drop.
    The brute-force oracle runs over all source x target distances in blocks."""
    import pyproj
    from pyresample.geometry import SwathDefinition
    r = ctx.rng
    out = []
    for it in range(14 if ctx.quick else 24):
        long_ = r.randrange(200, 330 if ctx.quick else 520)
        other = r.randrange(long_ // 2, long_)
        h, w = (long_, other) if r.random() < 0.75 else (other, long_)
        hemi = r.choice([1, -1])
        lon_0 = r.choice([0.0, -60.0, 100.0, 170.0])
        latc = hemi * r.uniform(20.0, 78.0)
        lonc = lon_0 + r.choice([1, -1]) * r.uniform(12.0, 45.0)
        pname = r.choice(["stere", "laea", "lcc"])
        if pname == "stere":
            proj = {"proj": "stere", "lat_0": 90.0 * hemi, "lat_ts": 60.0 * hemi, "lon_0": lon_0, "ellps": "WGS84"}
        elif pname == "laea":
            proj = {"proj": "laea", "lat_0": hemi * r.choice([90.0, 60.0, 45.0]), "lon_0": lon_0, "ellps": "WGS84"}
        else:
            proj = {"proj": "lcc", "lat_1": 30.0 * hemi, "lat_2": 60.0 * hemi, "lat_0": 45.0 * hemi, "lon_0": lon_0, "ellps": "WGS84"}
        pix = r.choice([1000.0, 2500.0, 4000.0])
        xc, yc = pyproj.Proj(proj)((lonc + 180) % 360 - 180, latc)
        ext = (xc - w * pix / 2, yc - h * pix / 2, xc + w * pix / 2, yc + h * pix / 2)
        tgt = kc.mk_area(proj, w, h, ext)
        sp = pix * r.choice([0.6, 0.9, 1.3])
        n = 6
        far_side = r.randrange(4)
        anchors = [(fx, fy) for fy in (0.0, 0.5, 1.0) for fx in (0.0, 0.5, 1.0)] + \
            [[(-0.5, r.random()), (1.5, r.random()), (r.random(), -0.5), (r.random(), 1.5)][far_side]]
        px, py = [], []
        jit = np.random.default_rng(r.getrandbits(32)).uniform(-0.2, 0.2, size=(2, len(anchors) * n, n))
        for fx, fy in anchors:      # fractions of the extent, (0, 0) = upper left corner
            ax, ay = ext[0] + fx * (ext[2] - ext[0]), ext[3] - fy * (ext[3] - ext[1])
            for q in range(n):
                px.append([ax + (c - (n - 1) / 2) * sp for c in range(n)])
                py.append([ay - (q - (n - 1) / 2) * sp for c in range(n)])
        lon, lat = _own_transformer(tgt).transform(np.array(px) + jit[0] * sp, np.array(py) + jit[1] * sp, direction="INVERSE")
        if not (np.isfinite(lon).all() and np.isfinite(lat).all()):
            continue
        radius = sp * r.choice([1.0, 1.5, 2.5])
        desc = (f"big target {it}: swath[{lon.shape[0]}x{lon.shape[1]}] = {len(anchors)} lattices of {sp:.0f} m at the corners / side midpoints / centre / outside -> "
                f"{pname} {h}x{w} of {pix:.0f} m pixels centred at ({lonc:.1f}E,{latc:.1f}N), lon_0={lon_0}, r={radius:.0f}")
        out.append((SwathDefinition(lon, lat), tgt, radius, desc, sorted({1, r.randrange(2, 12)}) if ctx.quick else sorted({1, 3, r.randrange(2, 12), r.randrange(12, 40)})))
    return out


def _geos_source_pairs(ctx):
    """grid -> swath with a geostationary source: image sectors on the Earth disk (north or south of the sub-satellite point or across the equator, straddling
    the sub-satellite meridian or beside it, wide-and-flat or tall), sectors that stick out over the limb, and a coarse full disk.  The output
    reduction works with the source's outline, and rows / columns of constant y / x of this projection are curves in lon/lat.  Targets: a
    swath of positions scattered over the source's footprint (jittered pixel centres of randomly drawn source pixels, a few thrown further out)"""
    from pyresample.geometry import SwathDefinition
    r = ctx.rng
    out = []
    for it in range(8 if ctx.quick else 40):
        lon_0 = r.choice([0.0, -75.2, 140.7, 9.5])
        proj = {"proj": "geos", "lon_0": lon_0, "h": 35785831.0, "a": 6378169.0, "b": 6356583.8}
        kind = r.choice(["wide", "wide", "wide", "tall", "tall", "over_limb", "full_disk"])
        pix = r.choice([20000.0, 25000.0, 30000.0])
        if kind == "wide":
            w, h = r.randrange(150, 300), r.randrange(4, 12)
            xc = r.uniform(-6.0e5, 6.0e5)
            y0 = r.choice([1, -1]) * r.uniform(0.0, 3.2e6)
        elif kind == "tall":
            w, h = r.randrange(4, 12), r.randrange(150, 300)
            xc = r.choice([1, -1]) * r.uniform(0.0, 3.2e6)
            y0 = r.uniform(-6.0e5, 6.0e5)
        elif kind == "over_limb":
            w, h = r.randrange(60, 120), r.randrange(6, 14)
            xc = r.choice([1, -1]) * (5.4e6 - w * pix / 4)
            y0 = r.uniform(-2.0e6, 2.0e6)
        else:
            w = h = r.randrange(40, 60)
            pix = 1.1e7 / w
            xc = y0 = 0.0
        if kind == "wide":
            ext = (xc - w * pix / 2, min(y0, y0 + np.sign(y0 or 1) * h * pix), xc + w * pix / 2, max(y0, y0 + np.sign(y0 or 1) * h * pix))
        elif kind == "tall":
            ext = (min(xc, xc + np.sign(xc or 1) * w * pix), y0 - h * pix / 2, max(xc, xc + np.sign(xc or 1) * w * pix), y0 + h * pix / 2)
        else:
            ext = (xc - w * pix / 2, y0 - h * pix / 2, xc + w * pix / 2, y0 + h * pix / 2)
        src = kc.mk_area(proj, w, h, tuple(float(v) for v in ext))
        tr = _own_transformer(src)
        t_rows, t_cols = r.randrange(6, 14), r.randrange(12, 24)
        xs, ys = [], []
        while len(xs) < t_rows * t_cols:
            c, q = r.randrange(w), r.randrange(h)
            j = 3.0 if r.random() < 0.15 else 0.45
            x = ext[0] + (c + 0.5 + r.uniform(-j, j)) * pix
            y = ext[3] - (q + 0.5 + r.uniform(-j, j)) * pix
            lo, la = tr.transform(x, y, direction="INVERSE")
            if np.isfinite(lo) and np.isfinite(la):
                xs.append(lo)
                ys.append(la)
        lon = np.array(xs).reshape(t_rows, t_cols)
        lat = np.array(ys).reshape(t_rows, t_cols)
        radius = pix * r.choice([0.8, 1.2, 2.0])
        desc = f"geos source {it}: {kind} sector {h}x{w} of {pix:.0f} m pixels, lon_0={lon_0} -> swath[{t_rows}x{t_cols}] over its footprint, r={radius:.0f}"
        out.append((src, SwathDefinition(lon, lat), radius, desc))
    return out


def _tight_output_window_pairs(ctx):
    """grid / area SOURCES sampled at SWATH targets (the only combination with an output reduction) whose coarse lon/lat window of the source outline
    is narrower than "within the radius of a source pixel", so that a caller has a reason to pass reduce_data=False and every organisation of that
    unreduced call must still return what the plain call returns:
      * regular lon/lat meshes stored with the columns running east -> west (GridDefinition, or a longlat AreaDefinition with the x extent flipped),
        rows in either order, anywhere on the globe; target positions scattered inside the mesh;
      * small laea / polar-stereographic areas at 72..85 degrees latitude (either hemisphere, any central meridian, centred on or beside it);
        target positions on a jittered lattice reaching a few pixels (less than the radius) past every side of the area."""
    from pyresample.geometry import GridDefinition, SwathDefinition
    import pyproj
    r = ctx.rng
    out = []
    n = 3 if ctx.quick else 12
    for it in range(n):
        rows, cols = r.randrange(5, 12), r.randrange(8, 18)
        step = r.choice([0.25, 0.5, 1.0])
        lon_c, lat_c = r.uniform(-150.0, 150.0), r.uniform(-60.0, 60.0)
        lons = lon_c + ((cols - 1) / 2 - np.arange(cols)) * step                 # first column = eastern edge
        north_up = r.random() < 0.5
        lats = lat_c + ((rows - 1) / 2 - np.arange(rows)) * step * (1 if north_up else -1)
        kind = r.choice(["grid", "grid", "area"])
        if kind == "grid":
            mlon, mlat = np.meshgrid(lons, lats)
            src = GridDefinition(mlon, mlat)
        else:
            north_up = True
            src = kc.mk_area({"proj": "longlat", "datum": "WGS84"}, cols, rows,
                             (float(lons[0] + step / 2), float(lat_c - rows * step / 2), float(lons[-1] - step / 2), float(lat_c + rows * step / 2)))
        g = np.random.default_rng(r.getrandbits(32))
        t_rows, t_cols = r.randrange(6, 12), r.randrange(5, 10)
        tlon = g.uniform(lons.min() + 0.3 * step, lons.max() - 0.3 * step, size=(t_rows, t_cols))
        tlat = g.uniform(lats.min() + 0.3 * step, lats.max() - 0.3 * step, size=(t_rows, t_cols))
        radius = step * 111000.0 * r.choice([0.8, 1.3])
        out.append((src, SwathDefinition(tlon, tlat), radius,
                    f"tight window {it}: lon/lat {kind} {rows}x{cols} of {step} deg stored east->west ({'north' if north_up else 'south'} row first) around "
                    f"({lon_c:.1f}E,{lat_c:.1f}N) -> swath[{t_rows}x{t_cols}] inside it, r={radius:.0f}"))
    for it in range(n):
        hemi = r.choice([1, -1])
        lat_0, lon_0 = hemi * r.uniform(72.0, 85.0), r.uniform(-180.0, 180.0)
        pname = r.choice(["laea", "laea", "stere"])
        if pname == "laea":
            proj = {"proj": "laea", "lat_0": lat_0, "lon_0": lon_0, "ellps": "WGS84"}
            xc, yc = r.choice([0.0, 0.0, r.uniform(-2.0e5, 2.0e5)]), 0.0
        else:
            proj = {"proj": "stere", "lat_0": 90.0 * hemi, "lat_ts": 70.0 * hemi, "lon_0": lon_0, "ellps": "WGS84"}
            xc, yc = pyproj.Proj(proj)((lon_0 + r.uniform(-40.0, 40.0) + 180) % 360 - 180, lat_0)
        w, h = r.randrange(10, 22), r.randrange(10, 22)
        pix = r.choice([8000.0, 12000.0, 20000.0])
        ext = (xc - w * pix / 2, yc - h * pix / 2, xc + w * pix / 2, yc + h * pix / 2)
        src = kc.mk_area(proj, w, h, ext)
        margin = r.choice([2, 3])
        radius = (margin + 0.75) * pix
        t_rows, t_cols = r.randrange(8, 15), r.randrange(8, 15)
        g = np.random.default_rng(r.getrandbits(32))
        fx = (np.arange(t_cols) + 0.5) / t_cols
        fy = (np.arange(t_rows) + 0.5) / t_rows
        gx, gy = np.meshgrid(ext[0] - margin * pix + fx * ((w + 2 * margin) * pix), ext[3] + margin * pix - fy * ((h + 2 * margin) * pix))
        gx = gx + g.uniform(-0.3, 0.3, size=gx.shape) * (w + 2 * margin) * pix / t_cols
        gy = gy + g.uniform(-0.3, 0.3, size=gy.shape) * (h + 2 * margin) * pix / t_rows
        tlon, tlat = _own_transformer(src).transform(gx, gy, direction="INVERSE")
        if not (np.isfinite(tlon).all() and np.isfinite(tlat).all()):
            continue
        out.append((src, SwathDefinition(np.asarray(tlon), np.asarray(tlat)), radius,
                    f"tight window hl{it}: {pname} {h}x{w} of {pix:.0f} m pixels at lat_0={lat_0:.1f} lon_0={lon_0:.1f} centre=({xc:.0f},{yc:.0f}) -> "
                    f"swath[{t_rows}x{t_cols}] reaching {margin} px past every side, r={radius:.0f}"))
    return out


def check_unreduced_split(ctx, src, tgt, radius, desc):
    """get_neighbour_info(reduce_data=False, segments >= 2[, nprocs 2]) + get_sample_from_neighbour_info on two datasets against the plain one-shot
    calls (reduce_data=False, segments=1, nprocs=1): the caller switched the coarse reduction off, so the way the search is cut into segments must
    not bring it back.  In addition the plain nearest-neighbour call is held against brute force: with the reduction off every valid target position
    that has a valid source within the radius gets a value, every other one is masked."""
    from pyresample import kd_tree
    slo, sla = kc.lonlats(src)
    tlo, tla = kc.lonlats(tgt)
    n_src, n_tgt = int(slo.size), int(tlo.size)
    k = ctx.rng.choice([2, 4])
    tie, _, needed_tgt, _, _ = _brute_force_scan(slo.ravel(), sla.ravel(), tlo.ravel(), tla.ravel(), radius, k)
    if tie:
        ctx.count("skipped.tie")
        return
    rows = tgt.shape[0]
    geo = {"source": kc.describe(src), "target": kc.describe(tgt)}
    inp0 = {"pair": desc, "n_src": n_src, "n_tgt": n_tgt, "radius": float(radius)}
    ids = np.arange(n_src, dtype=np.float64).reshape(src.shape)
    datasets = [ids + 1.0, np.sqrt(ids) + 3.0]

    def wf(dist):
        return np.where(dist < radius / 3, 1.0, 0.25)
    with warnings.catch_warnings():
        warnings.simplefilter("ignore")
        plain = {"nn": [kd_tree.resample_nearest(src, d, tgt, radius, epsilon=0, fill_value=None, reduce_data=False, segments=1, nprocs=1) for d in datasets],
                 "custom": [kd_tree.resample_custom(src, d, tgt, radius, wf, neighbours=k, epsilon=0, fill_value=None, reduce_data=False, segments=1, nprocs=1)
                            for d in datasets]}
    got_value = ~np.ma.getmaskarray(plain["nn"][0]).ravel()
    if not np.array_equal(got_value, needed_tgt):
        ctx.fail("kd_tree.resample_nearest", "the plain unreduced call does not give a value to exactly the target positions that have a valid source within the radius",
                 {**inp0, "type": "nn", "reduce_data": False, "segments": 1, "nprocs": 1, **geo},
                 {"positions_with_source_in_range": int(needed_tgt.sum()), "positions_with_value": int(got_value.sum())},
                 tags={"cause": "plain-vs-brute-force", "reduce_data": False}, size=n_src + n_tgt)
    ctx.case("unreduced_plain", desc, nontrivial=bool(needed_tgt.any() and not needed_tgt.all()))
    combos = [(sg, 1) for sg in sorted({ctx.rng.choice([2, 3]), rows} if ctx.quick else {2, 3, rows})]
    if not ctx.quick or ctx.rng.random() < 0.34:
        combos.append((ctx.rng.choice([2, 3, rows]), 2))
    for sg, npr in combos:
        for rtype, neighbours in (("nn", 1), ("custom", k)):
            inp = {**inp0, "type": rtype, "reduce_data": False, "segments": sg, "nprocs": npr, "k": neighbours, "split": True}
            with warnings.catch_warnings():
                warnings.simplefilter("ignore")
                try:
                    info = kd_tree.get_neighbour_info(src, tgt, radius, neighbours=neighbours, epsilon=0, reduce_data=False, segments=sg, nprocs=npr)
                    kw = {"weight_funcs": wf} if rtype == "custom" else {}
                    got = [kd_tree.get_sample_from_neighbour_info(rtype, tgt.shape, d, info[0], info[1], info[2], distance_array=info[3], fill_value=None, **kw)
                           for d in datasets]
                except Exception as e:  # noqa
                    ctx.fail("kd_tree", f"raised {type(e).__name__}: {e} (get_neighbour_info with reduce_data=False, segments={sg} + get_sample_from_neighbour_info; "
                             "the plain call does not)", {**inp, **geo}, tags={"cause": "raises"}, size=n_src + n_tgt)
                    got = None
            if got is not None:
                for i, (one, g) in enumerate(zip(plain[rtype], got)):
                    if not _same(one, g):
                        ndiff = int(np.sum(np.ma.getmaskarray(one) != np.ma.getmaskarray(g)) + np.sum(np.ma.filled(one, -12345.0) != np.ma.filled(g, -12345.0)))
                        ctx.fail("kd_tree.get_neighbour_info", "get_neighbour_info(reduce_data=False, segments >= 2) + get_sample_from_neighbour_info differs from the plain "
                                 "single-segment, single-process, unreduced one-shot call", {**inp, "dataset": i + 1, **geo},
                                 {"elements_differing": ndiff, "positions_with_value_plain": int((~np.ma.getmaskarray(one)).sum()),
                                  "positions_with_value_segmented": int((~np.ma.getmaskarray(g)).sum())},
                                 tags={"cause": "organisation", "reduce_data": False, "segments_gt1": True, "nprocs_gt1": npr > 1}, size=n_src + n_tgt)
                        break
            ctx.case("unreduced_split", (desc, rtype, sg, npr), nontrivial=True, sample={"input": inp} if sg == 3 and rtype == "nn" else None)


def check_thin_targets(ctx, src, tgt, radius, desc):
    """targets of one column and 1-3 rows cut into one-row segments, searched by worker processes with k >= 2: every segment then holds a single
    target location, the shape in which a result array with a neighbour axis is easiest to get wrong.  Against the plain call."""
    from pyresample import geometry, kd_tree
    tlo, tla = kc.lonlats(tgt)
    tlo, tla = np.atleast_2d(tlo), np.atleast_2d(tla)
    ok = np.argwhere(np.isfinite(tlo) & np.isfinite(tla) & (np.abs(tlo) <= 180) & (np.abs(tla) <= 90))
    if len(ok) == 0:
        return
    rows = int(ctx.rng.choice([1, 2, 3]))
    pick = [tuple(ok[int(ctx.rng.randrange(len(ok)))]) for _ in range(rows)]
    lons = np.array([[tlo[p]] for p in pick], dtype=float)
    lats = np.array([[tla[p]] for p in pick], dtype=float)
    thin = geometry.SwathDefinition(lons, lats)
    slo, sla = kc.lonlats(src)
    k = int(ctx.rng.choice([2, 3, 4]))
    tie = _brute_force_scan(slo.ravel(), sla.ravel(), lons.ravel(), lats.ravel(), radius, k)[0]
    if tie:
        ctx.count("skipped.tie")
        return
    ids = np.arange(slo.size, dtype=np.float64).reshape(src.shape)

    def wf(dist):
        return np.where(dist < radius / 3, 1.0, 0.25)
    inp0 = {"pair": desc + f" -> thin target {rows}x1", "n_src": int(slo.size), "n_tgt": rows, "radius": float(radius), "k": k,
            "source": kc.describe(src), "target": kc.describe(thin)}
    calls = {"gauss": lambda **kw: kd_tree.resample_gauss(src, ids, thin, radius, radius / 2, neighbours=k, epsilon=0, fill_value=None, with_uncert=True, **kw),
             "custom": lambda **kw: kd_tree.resample_custom(src, ids, thin, radius, wf, neighbours=k, epsilon=0, fill_value=-1, **kw)}
    for tname, call in calls.items():
        with warnings.catch_warnings():
            warnings.simplefilter("ignore")
            try:
                base = call(reduce_data=False, segments=1, nprocs=1)
            except Exception as e:  # noqa
                ctx.fail("kd_tree", f"plain call raised {type(e).__name__}: {e}", {**inp0, "type": tname}, size=int(slo.size) + rows)
                continue
            for sg, npr in ((rows, 2), (1, 2), (rows, 1)):
                inp = {**inp0, "type": tname, "reduce_data": False, "segments": sg, "nprocs": npr}
                ctx.case("thin_target", [desc, rows, k, tname, sg, npr, float(radius)], nontrivial=npr > 1 or sg > 1)
                try:
                    out = call(reduce_data=False, segments=sg, nprocs=npr)
                except Exception as e:  # noqa
                    ctx.fail("kd_tree", f"raised {type(e).__name__}: {e} (the plain call does not)", inp,
                             tags={"cause": "raises"}, size=int(slo.size) + rows)
                    continue
                if not _same(base, out):
                    ctx.fail("kd_tree", "result differs from the plain single-segment, single-process, unreduced call", inp,
                             tags={"cause": "organisation", "reduce_data": False, "segments_gt1": sg > 1, "nprocs_gt1": npr > 1}, size=int(slo.size) + rows)


def _f7_reference_window(b_lons, b_lats, lons, lats, radius):
    """FROZEN copy of data_reduce._get_valid_index as it stands with known finding F7 (sin-for-cos longitude buffer, longitude
    extent from sides 2 and 4 only).  It pins the finding: a window that drops a needed location is the KNOWN finding only if
    the library's window is still exactly this one; any other window that drops needed locations is a new violation."""
    s1, s2, s3, s4 = (np.asarray(x, float) for x in (b_lons.side1, b_lons.side2, b_lons.side3, b_lons.side4))
    t1, t2, t3, t4 = (np.asarray(x, float) for x in (b_lats.side1, b_lats.side2, b_lats.side3, b_lats.side4))
    lons, lats = np.asarray(lons, float), np.asarray(lats, float)
    if any(((x < -180) | (x > 180)).any() for x in (s1, s2, s3, s4)) or any(((x < -90) | (x > 90)).any() for x in (t1, t2, t3, t4)):
        return np.ones(lons.size, dtype=bool)
    angle_sum = 0
    for side in (s1, s2, s3, s4):
        prev = None
        for lon in side:
            if prev:
                delta = lon - prev
                if abs(delta) > 180:
                    delta = (abs(delta) - 360) * (delta // abs(delta))
                angle_sum += delta
            prev = lon
    with np.errstate(all="ignore"):
        lat_min_b = min(t1.min(), t2.min(), t3.min(), t4.min()) - np.degrees(float(radius) / R)
        lat_max_b = max(t1.max(), t2.max(), t3.max(), t4.max()) + np.degrees(float(radius) / R)
        a2 = max(abs(t2.max()), abs(t2.min()))
        a4 = max(abs(t4.max()), abs(t4.min()))
        lon_min_b = s4.min() - np.degrees(float(radius) / (np.sin(np.radians(a4)) * R))
        lon_max_b = s2.max() + np.degrees(float(radius) / (np.sin(np.radians(a2)) * R))
        if round(angle_sum) == -360:
            return lats >= lat_min_b
        if round(angle_sum) == 360:
            return lats <= lat_max_b
        if round(angle_sum) == 0:
            valid_lats = (lats >= lat_min_b) & (lats <= lat_max_b)
            if s2.min() > s4.max():
                valid_lons = (lons >= lon_min_b) & (lons <= lon_max_b)
            else:
                valid_lons = ((lons >= lon_min_b) & (lons <= 180)) | ((lons <= lon_max_b) & (lons >= -180))
            return valid_lats & valid_lons
    return np.ones(lons.size, dtype=bool)


class _Sides:
    def __init__(self, s1, s2, s3, s4):
        self.side1, self.side2, self.side3, self.side4 = s1, s2, s3, s4


def _outline(geo):
    """the outline finding F7 is stated on, taken by the harness itself from the geometry's full lon/lat arrays: all pixel centres of the first
    row (left to right), last column (top to bottom), last row (right to left) and first column (bottom to top)"""
    lo, la = kc.lonlats(geo)
    return tuple(_Sides(a[0, :].ravel(), a[:, -1].ravel(), a[-1, ::-1].ravel(), a[::-1, 0].ravel()) for a in (lo, la))


def _library_masks(src, tgt, radius, slo, sla, tlo, tla):
    """the reduction the resampling calls really apply (kd_tree's own helpers); None where they cannot be asked"""
    from pyresample import kd_tree
    act_src = act_tgt = None
    try:
        act_src = np.asarray(kd_tree._get_valid_input_index(src, tgt, True, radius)[0]).astype(bool).ravel()
        if act_src.size != slo.size:
            act_src = None
    except Exception:  # noqa
        act_src = None
    try:
        act_tgt = np.asarray(kd_tree._get_valid_output_index(src, tgt, tlo.ravel(), tla.ravel(), True, radius)).astype(bool).ravel()
        if act_tgt.size != tlo.size:
            act_tgt = None
    except Exception:  # noqa
        act_tgt = None
    return act_src, act_tgt


def _window_diagnosis(src, tgt, radius, needed_src, needed_tgt, sv, tv):
    """is data_reduce's window sound for this pair? both reductions are examined:
    sources against the target's boundary (target griddish) and targets against the source's boundary
    (source griddish, target a coordinate definition).  returns (sound, cause, n_dropped_needed, keep_src, side).
    A location counts as dropped if the window function drops it for the library's own boundary OR the mask the resampling calls apply
    (kd_tree._get_valid_input_index / _get_valid_output_index) drops it.  The drop is the KNOWN finding F7 only if both of these equal the frozen F7
    window evaluated on the outline the harness takes itself from the geometry's full lon/lat arrays (every pixel centre of the four sides)."""
    from pyresample import data_reduce, geometry
    griddish = (geometry.GridDefinition, geometry.AreaDefinition)
    slo, sla = kc.lonlats(src)
    tlo, tla = kc.lonlats(tgt)
    buf = math.degrees(radius / R)
    results = []
    keep_src = None
    with warnings.catch_warnings():
        warnings.simplefilter("ignore")
        act_src, act_tgt = _library_masks(src, tgt, radius, slo, sla, tlo, tla)
        if isinstance(tgt, griddish):
            b = tgt.get_boundary_lonlats()
            own = _outline(tgt)
            keep_src = np.asarray(data_reduce.get_valid_index_from_lonlat_boundaries(b[0], b[1], slo.ravel(), sla.ravel(), radius)).astype(bool)
            needed = needed_src                                # valid sources within r of some valid target
            ref = np.asarray(_f7_reference_window(own[0], own[1], slo.ravel(), sla.ravel(), radius), bool)
            applied = keep_src if act_src is None else (keep_src & act_src)
            results.append(("source", own, sla.ravel(), needed & ~applied, bool(np.array_equal(ref[sv], keep_src[sv]) and np.array_equal(ref[sv], applied[sv]))))
        if isinstance(src, griddish) and isinstance(tgt, geometry.CoordinateDefinition):
            b = src.get_boundary_lonlats()
            own = _outline(src)
            keep_t = np.asarray(data_reduce.get_valid_index_from_lonlat_boundaries(b[0], b[1], tlo.ravel(), tla.ravel(), radius)).astype(bool)
            needed = needed_tgt                                # valid targets that have a valid source within r
            ref = np.asarray(_f7_reference_window(own[0], own[1], tlo.ravel(), tla.ravel(), radius), bool)
            applied = keep_t if act_tgt is None else (keep_t & act_tgt)
            results.append(("target", own, tla.ravel(), needed & ~applied, bool(np.array_equal(ref[tv], keep_t[tv]) and np.array_equal(ref[tv], applied[tv]))))
    for side, b, pts_lat, dropped, same_as_f7 in results:
        if dropped.any():
            lats_b = np.concatenate([np.asarray(x).ravel() for x in (b[1].side1, b[1].side2, b[1].side3, b[1].side4)])
            lat_ok = (pts_lat >= lats_b.min() - buf) & (pts_lat <= lats_b.max() + buf)
            cause = "lon_window" if lat_ok[dropped].all() else "lat_window"
            if cause == "lon_window" and not same_as_f7:
                cause = "lon_window_changed"       # not the known window any more: a different (new) way of dropping needed locations
            return False, cause, int(dropped.sum()), keep_src, side
    return True, None, 0, keep_src, ("source" if keep_src is not None else None)


def check(ctx, src, tgt, radius, desc, segs=None, with_nprocs=True, types=None, reuse=True, light=False):
    """segs / with_nprocs / types / reuse / light: the families of big geometries pass a short list of segment counts and, in the quick tier, leave
    the worker-process combination, two of the four resample types, the reuse of unreduced neighbour info and (light) all but the reduced +
    most-segmented combination of the weighted types to the thorough tier (every other pair keeps the full lists)"""
    from pyresample import kd_tree
    slo, sla = kc.lonlats(src)
    tlo, tla = kc.lonlats(tgt)
    n_src, n_tgt = int(slo.size), int(tlo.size)
    k = ctx.rng.choice([2, 4, 8])
    tie, needed_src, needed_tgt, sv, tv = _brute_force_scan(slo.ravel(), sla.ravel(), tlo.ravel(), tla.ravel(), radius, k)
    if tie:
        ctx.count("skipped.tie")
        return
    rows = tgt.shape[0]
    inp0 = {"pair": desc, "n_src": int(n_src), "n_tgt": int(n_tgt), "radius": float(radius)}
    geo = {"source": kc.describe(src), "target": kc.describe(tgt)}
    try:
        sound, cause, n_dropped, keep, side = _window_diagnosis(src, tgt, radius, needed_src, needed_tgt, sv, tv)
    except Exception as e:  # noqa: data_reduce itself raised; the combos below will report it
        sound, cause, n_dropped, keep, side = True, None, 0, None, None
        ctx.count("window.raises")
    ctx.count("window." + ("sound" if sound else cause))
    ids = np.arange(n_src, dtype=np.float64).reshape(src.shape)
    data2 = np.stack([ids.ravel() * 3 % 17, ids.ravel() * 0 + 2.5], axis=-1).reshape(tuple(src.shape) + (2,))

    def wf(dist):
        return np.where(dist < radius / 3, 1.0, 0.25)
    calls = {
        "nn": lambda **kw: kd_tree.resample_nearest(src, ids, tgt, radius, epsilon=0, fill_value=None, **kw),
        "gauss": lambda **kw: kd_tree.resample_gauss(src, data2, tgt, radius, [radius / 2, radius], neighbours=k, epsilon=0, fill_value=-1, with_uncert=True, **kw),
        "custom": lambda **kw: kd_tree.resample_custom(src, ids, tgt, radius, wf, neighbours=k, epsilon=0, fill_value=None, **kw),
        # integer data with a fill value that is not representable in the data's dtype
        "custom_int": lambda **kw: kd_tree.resample_custom(src, ids.astype(np.int32), tgt, radius, wf, neighbours=k, epsilon=0, fill_value=-999.5, **kw),
    }
    segs = sorted(set([1, 2, 3, rows, rows + 3])) if segs is None else sorted(set(segs))
    plain = {}
    for tname, call in calls.items():
        if types is not None and tname not in types:
            continue
        with warnings.catch_warnings():
            warnings.simplefilter("ignore")
            try:
                base = call(reduce_data=False, segments=1, nprocs=1)
            except Exception as e:  # noqa
                ctx.fail("kd_tree", f"plain call raised {type(e).__name__}: {e}", {**inp0, "type": tname}, size=n_src + n_tgt)
                continue
        plain[tname] = base
        combos = [(rd, sg, 1) for rd in (False, True) for sg in segs if not (rd is False and sg == 1)]
        if light and tname != "nn":
            combos = [(True, segs[-1], 1)]
        if (tname == "nn" or not ctx.quick) and with_nprocs:
            combos += [(ctx.rng.choice([False, True]), ctx.rng.choice(segs), 2)]
            if desc.startswith("special pm180"):
                combos += [(False, 1, 2)]
            if not ctx.quick:
                combos += [(True, 1, 3)]
        for rd, sg, npr in combos:
            inp = {**inp0, "type": tname, "reduce_data": rd, "segments": sg, "nprocs": npr, "k": k}
            with warnings.catch_warnings():
                warnings.simplefilter("ignore")
                try:
                    out = call(reduce_data=rd, segments=sg, nprocs=npr)
                except Exception as e:  # noqa
                    ctx.fail("kd_tree", f"raised {type(e).__name__}: {e} (the plain call does not)", {**inp, **geo}, tags={"cause": "raises"}, size=n_src + n_tgt)
                    continue
            if not _same(base, out):
                o0, b0 = (out[0], base[0]) if isinstance(out, tuple) else (out, base)
                ndiff = int(np.sum(np.ma.getmaskarray(o0) != np.ma.getmaskarray(b0)) + np.sum(np.ma.filled(o0, -12345.0) != np.ma.filled(b0, -12345.0)))
                if rd and not sound:
                    tags = {"cause": cause}
                    site = "data_reduce.get_valid_index_from_lonlat_boundaries"
                    what = (f"reduce_data=True changes the result: the boundary window drops {n_dropped} {side} location(s) lying within the "
                            f"radius (they pass the latitude window of the geometry's outline and fail the longitude window"
                            + ("" if cause == "lon_window" else "; the reduction the library applies is NOT the known window of finding F7 evaluated on "
                               "every pixel centre of the four sides of the outline") + ")" if cause.startswith("lon_window") else
                            f"reduce_data=True changes the result: the boundary window drops {n_dropped} needed {side} location(s) (latitude window)")
                else:
                    tags = {"cause": "organisation", "reduce_data": rd, "segments_gt1": sg > 1, "nprocs_gt1": npr > 1}
                    site = "kd_tree.get_neighbour_info"
                    what = "result differs from the plain single-segment, single-process, unreduced call"
                ctx.fail(site, what, {**inp, **geo}, {"elements_differing": ndiff}, tags=tags, size=n_src + n_tgt)
            ctx.case("combos", (desc, tname, rd, sg, npr), nontrivial=(rd and keep is not None and not keep.all()) or sg > 1 or npr > 1,
                     sample={"input": inp} if sg == 3 and rd else None)
    # ---- neighbour info computed once, reused on several datasets ---------------------------------
    with warnings.catch_warnings():
        warnings.simplefilter("ignore")
        for neighbours, rtype in ((1, "nn"), (k, "custom")) if reuse else ():
            info = kd_tree.get_neighbour_info(src, tgt, radius, neighbours=neighbours, epsilon=0, reduce_data=False, segments=1)
            snap = [np.array(a, copy=True) for a in info]
            for rep in range(3):
                ds = (ids * (rep + 1) + rep).astype(np.float64)
                kw = {"weight_funcs": wf} if rtype == "custom" else {}
                got = kd_tree.get_sample_from_neighbour_info(rtype, tgt.shape, ds, info[0], info[1], info[2],
                                                             distance_array=info[3], fill_value=None, **kw)
                one = (kd_tree.resample_nearest(src, ds, tgt, radius, epsilon=0, fill_value=None, reduce_data=False, segments=1) if rtype == "nn"
                       else kd_tree.resample_custom(src, ds, tgt, radius, wf, neighbours=k, epsilon=0, fill_value=None, reduce_data=False, segments=1))
                if not _same(one, got):
                    ctx.fail("kd_tree.get_sample_from_neighbour_info", f"neighbour info reused for dataset #{rep + 1} gives a result different from the one-shot call",
                             {**inp0, "type": rtype, "reuse": rep + 1}, tags={"cause": "info-reuse"}, size=n_src + n_tgt)
                    break
                if any(not np.array_equal(a, b, equal_nan=True) for a, b in zip(snap, info)):
                    ctx.fail("kd_tree.get_sample_from_neighbour_info", "sampling modified the caller's neighbour info arrays",
                             {**inp0, "type": rtype, "reuse": rep + 1}, tags={"cause": "info-mutated"}, size=n_src + n_tgt)
                    break
            ctx.case("info_reuse", (desc, rtype), nontrivial=True)
    # ---- the split interface with the search itself reduced / segmented: one more way of organising the same work -----------------------
    with warnings.catch_warnings():
        warnings.simplefilter("ignore")
        sg = ctx.rng.choice(segs)
        inp = {**inp0, "type": "nn", "reduce_data": True, "segments": sg, "nprocs": 1, "split": True}
        try:
            info = kd_tree.get_neighbour_info(src, tgt, radius, neighbours=1, epsilon=0, reduce_data=True, segments=sg)
            got = kd_tree.get_sample_from_neighbour_info("nn", tgt.shape, ids, info[0], info[1], info[2], fill_value=None)
            one = plain["nn"] if "nn" in plain else kd_tree.resample_nearest(src, ids, tgt, radius, epsilon=0, fill_value=None, reduce_data=False, segments=1)
        except Exception as e:  # noqa
            got = one = None
            ctx.fail("kd_tree", f"raised {type(e).__name__}: {e} (get_neighbour_info with reduce_data=True + get_sample_from_neighbour_info)", {**inp, **geo},
                     tags={"cause": "raises"}, size=n_src + n_tgt)
        if got is not None and not _same(one, got):
            if not sound:
                tags, site = {"cause": cause}, "data_reduce.get_valid_index_from_lonlat_boundaries"
                what = (f"get_neighbour_info(reduce_data=True) + get_sample_from_neighbour_info differs from the plain one-shot call: the boundary window drops "
                        f"{n_dropped} needed {side} location(s)" + ("" if cause != "lon_window_changed" else "; the reduction the library applies is NOT the known window of finding F7"))
            else:
                tags, site = {"cause": "organisation", "reduce_data": True, "segments_gt1": sg > 1, "nprocs_gt1": False}, "kd_tree.get_neighbour_info"
                what = "get_neighbour_info(reduce_data=True) + get_sample_from_neighbour_info differs from the plain single-segment, unreduced one-shot call"
            ctx.fail(site, what, {**inp, **geo}, tags=tags, size=n_src + n_tgt)
        ctx.case("info_reduced", (desc, sg), nontrivial=(keep is not None and not keep.all()) or sg > 1)
    # ---- model: the reduced validity mask -----------------------------------------------------------
    if ctx.M and keep is not None and side == "source":
        from pyresample.kd_tree import _get_valid_input_index
        with warnings.catch_warnings():
            warnings.simplefilter("ignore")
            vii, _, _ = _get_valid_input_index(src, tgt, True, radius)
        rep = ctx.M.ask("reduce", [bool(v) for v in sv], [bool(v) for v in keep])
        if [t == "1" for t in rep.split()[1:]] != [bool(v) for v in np.asarray(vii)]:
            ctx.disagree("reduce", inp0, np.asarray(vii).astype(int).tolist(), rep)
    if ctx.M:
        seg = ctx.rng.choice(segs)
        rep = ctx.M.ask("segq", n_tgt if len(tgt.shape) == 1 else rows, seg)
        want = list(range(n_tgt if len(tgt.shape) == 1 else rows))
        if rep.startswith("err") and want:
            ctx.disagree("segq", {**inp0, "segments": seg}, "rows in order", rep)
        elif want and [int(t) for t in rep.split()[1:]] != want:
            ctx.disagree("segq", {**inp0, "segments": seg}, want, rep)


def run(ctx):
    for src, tgt, radius, desc in _special_pairs(ctx):
        check(ctx, src, tgt, radius, desc)
    n = 14 if ctx.quick else 150
    lim = (100, 64) if ctx.quick else (300, 200)
    done = 0
    while done < n:
        src, tgt, radius, desc = kc.geometry_pair(ctx.rng, *lim, invalid=True)
        if radius == 0.0 or len(tgt.shape) < 1:
            continue
        check(ctx, src, tgt, radius, desc)
        done += 1
    nthin = 0
    while nthin < (4 if ctx.quick else 40):
        src, tgt, radius, desc = kc.geometry_pair(ctx.rng, 60, 40, invalid=True)
        if radius == 0.0 or len(tgt.shape) < 1:
            continue
        check_thin_targets(ctx, src, tgt, radius, desc)
        nthin += 1
    few = ("nn", "gauss") if ctx.quick else None
    for src, tgt, radius, desc, segs in _big_target_pairs(ctx):
        check(ctx, src, tgt, radius, desc, segs=segs, with_nprocs=not ctx.quick, types=few, reuse=not ctx.quick, light=ctx.quick)
        ctx.count("pairs.big_target")
    for src, tgt, radius, desc in _geos_source_pairs(ctx):
        check(ctx, src, tgt, radius, desc, segs=[1, 3, tgt.shape[0]], with_nprocs=not ctx.quick, types=few, reuse=not ctx.quick, light=ctx.quick)
        ctx.count("pairs.geos_source")
    for src, tgt, radius, desc in _tight_output_window_pairs(ctx):
        before = ctx.counters.get("window.lon_window", 0) + ctx.counters.get("window.lat_window", 0) + ctx.counters.get("window.lon_window_changed", 0)
        if ctx.quick:       # the reuse of unreduced neighbour info is exercised by check_unreduced_split below
            check(ctx, src, tgt, radius, desc, segs=[1, ctx.rng.choice([2, 3, tgt.shape[0]])], with_nprocs=ctx.rng.random() < 0.34, reuse=False)
        else:
            check(ctx, src, tgt, radius, desc)
        after = ctx.counters.get("window.lon_window", 0) + ctx.counters.get("window.lat_window", 0) + ctx.counters.get("window.lon_window_changed", 0)
        ctx.count("pairs.tight_output_window")
        if after > before:
            ctx.count("pairs.tight_output_window.coarse_window_drops_needed_targets")
        check_unreduced_split(ctx, src, tgt, radius, desc)
