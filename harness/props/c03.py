"""C03 — kd-tree resampling results do not depend on how the work is organised."""
import math
import warnings

import numpy as np

from . import kdcommon as kc

META = {
    "rule": "one case = (geometry pair, radius, resample type, reduce_data, segments, nprocs). Every combination's output must "
            "be identical to the plain call (reduce_data=False, segments=1, nprocs=1); neighbour info computed once is reused "
            "on several datasets and compared with one-shot calls; the reduction window of data_reduce is decided per pair by "
            "brute force (is every valid source within the radius of a valid target kept?). Geometry pairs incl. targets at "
            "high latitude, off the central meridian, across the dateline, over a pole, flipped grids. Non-trivial: reduce_data "
            "drops >= 1 source, or segments >= 2, or nprocs >= 2. Distinct = distinct canonical input.",
    "assumptions": ["pairs with exact distance ties (two sources within 1e-9 relative for one target) are skipped: pykdtree (nprocs=1) and "
                    "scipy cKDTree (nprocs>1) break ties differently", "OS scheduling of worker processes is sampled"],
}

R = 6370997.0


def _ties(d, radius, k):
    """True if some target has an ambiguous k-nearest set or a neighbour at the radius threshold"""
    if d.shape[1] < 2:
        return False
    srt = np.sort(d, axis=1)[:, :k + 1]
    with np.errstate(invalid="ignore"):
        fin = np.isfinite(srt)
        gaps = np.abs(np.diff(srt, axis=1)) <= 1e-9 * np.maximum(srt[:, :-1], 1.0)
        tie = (gaps & fin[:, 1:] & (srt[:, :-1] <= radius * (1 + 1e-9))).any()
        thr = (np.abs(srt - radius) <= 1e-9 * max(radius, 1.0)).any()
    return bool(tie or thr)


def _same(a, b):
    if isinstance(a, tuple):
        return len(a) == len(b) and all(_same(x, y) for x, y in zip(a, b))
    a_m, b_m = np.ma.getmaskarray(a), np.ma.getmaskarray(b)
    if a.shape != b.shape or a.dtype != b.dtype or not np.array_equal(a_m, b_m):
        return False
    return bool(np.array_equal(np.ma.filled(a, 0)[~a_m], np.ma.filled(b, 0)[~b_m], equal_nan=True))


def _special_pairs(ctx):
    """targets that stress the reduction window"""
    from pyresample.geometry import SwathDefinition
    r = ctx.rng
    out = []
    # laea at 75N off the central meridian, source swath all around
    for lat0, lon0, name in ((75.0, 40.0, "laea75N"), (-72.0, -100.0, "laea72S"), (60.0, 178.0, "laea_dateline"), (88.5, 10.0, "near_pole")):
        tgt = kc.mk_area({"proj": "laea", "lat_0": lat0, "lon_0": lon0 - 25.0, "ellps": "WGS84"}, 6, 5, (4.0e5, -3.0e5, 1.0e6, 2.0e5))
        lon, lat = kc.swath(r, 9, 9, lon0, lat0, 14.0)
        out.append((SwathDefinition(lon, lat), tgt, 60000.0, f"special {name}: swath[9x9] -> laea off-centre 5x6, r=60000"))
    # flipped eqc target
    tgt = kc.mk_area({"proj": "eqc", "lon_0": 0, "ellps": "WGS84"}, 6, 5, (1.0e6, 5.0e6, 2.0e5, 4.2e6))
    lon, lat = kc.swath(r, 10, 10, 6.0, 42.0, 10.0)
    out.append((SwathDefinition(lon, lat), tgt, 50000.0, "special flipped_eqc: swath[10x10] -> eqc 5x6 with x flipped, r=50000"))
    # polar stere target containing the pole
    tgt = kc.mk_area({"proj": "stere", "lat_0": 90, "lat_ts": 60, "lon_0": 0, "ellps": "WGS84"}, 6, 6, (-4.0e5, -4.0e5, 4.0e5, 4.0e5))
    lon, lat = kc.swath(r, 9, 9, 30.0, 88.0, 8.0)
    out.append((SwathDefinition(lon, lat), tgt, 80000.0, "special over_pole: swath[9x9] -> stere 6x6 over the pole, r=80000"))
    # area whose CRS has a non-Greenwich prime meridian (what antimeridian_mode="modify_crs" produces), across the dateline
    tgt = kc.mk_area({"proj": "longlat", "pm": 180, "datum": "WGS84"}, 8, 5, (-4.0, 10.0, 4.0, 15.0))
    lon, lat = kc.swath(r, 9, 9, 179.5, 12.5, 9.0)
    out.append((SwathDefinition(lon, lat), tgt, 60000.0, "special pm180: swath[9x9] at the dateline -> longlat +pm=180 5x8, r=60000"))
    # regional polar-stereographic targets whose own right (resp. left) edge straddles the antimeridian, regular lon/lat mesh as source
    for lon0, ext, name in ((150.0, (-1.0e6, -3.5e6, 1.5e6, -1.5e6), "bering_right_edge"), (-150.0, (-1.5e6, -3.5e6, 1.0e6, -1.5e6), "bering_left_edge")):
        tgt = kc.mk_area({"proj": "stere", "lat_0": 90, "lat_ts": 70, "lon_0": lon0, "ellps": "WGS84"}, 7, 6, ext)
        lo = np.arange(100.0, 260.0, 4.0)
        lo = np.where(lo > 180, lo - 360, lo)
        la = np.arange(85.0, 40.0, -3.0)
        mlon, mlat = np.meshgrid(lo, la)
        out.append((SwathDefinition(mlon, mlat), tgt, 250000.0, f"special {name}: lon/lat mesh {mlon.shape} across 180 -> stere 6x7 with an edge straddling 180, r=250000"))
    # source and target far apart: the reduction leaves nothing and the "nothing to resample" shortcut answers
    tgt = kc.mk_area({"proj": "laea", "lat_0": 50, "lon_0": 10, "ellps": "WGS84"}, 6, 5, (-3.0e5, -2.5e5, 3.0e5, 2.5e5))
    lon, lat = kc.swath(r, 8, 8, -70.0, -20.0, 8.0)
    out.append((SwathDefinition(lon, lat), tgt, 50000.0, "special disjoint: swath[8x8] over South America -> laea Europe 5x6, r=50000"))
    # grid -> swath (output reduction)
    src = kc.mk_area({"proj": "laea", "lat_0": 70, "lon_0": 20, "ellps": "WGS84"}, 8, 7, (-4.0e5, -3.0e5, 4.0e5, 4.0e5))
    lon, lat = kc.swath(r, 8, 8, 20.0, 70.0, 12.0)
    out.append((src, SwathDefinition(lon, lat), 70000.0, "special grid_to_swath: laea70N 7x8 -> swath[8x8], r=70000"))
    return out


def _f7_reference_window(b_lons, b_lats, lons, lats, radius):
    """FROZEN copy of data_reduce._get_valid_index as it stands with known finding F7 (sin-for-cos longitude buffer, longitude
    extent from sides 2 and 4 only).  It pins the finding: a window that drops a needed location is the KNOWN finding only if
    the library's window is still exactly this one; any other window that drops needed locations is a new violation."""
    s1, s2, s3, s4 = (np.asarray(x, float) for x in (b_lons.side1, b_lons.side2, b_lons.side3, b_lons.side4))
    t1, t2, t3, t4 = (np.asarray(x, float) for x in (b_lats.side1, b_lats.side2, b_lats.side3, b_lats.side4))
    lons, lats = np.asarray(lons, float), np.asarray(lats, float)
    if any(((x < -180) | (x > 180)).any() for x in (s1, s2, s3, s4)) or any(((x < -90) | (x > 90)).any() for x in (t1, t2, t3, t4)):
        return np.ones(lons.size, dtype=bool)
    angle_sum = 0
    for side in (s1, s2, s3, s4):
        prev = None
        for lon in side:
            if prev:
                delta = lon - prev
                if abs(delta) > 180:
                    delta = (abs(delta) - 360) * (delta // abs(delta))
                angle_sum += delta
            prev = lon
    with np.errstate(all="ignore"):
        lat_min_b = min(t1.min(), t2.min(), t3.min(), t4.min()) - np.degrees(float(radius) / R)
        lat_max_b = max(t1.max(), t2.max(), t3.max(), t4.max()) + np.degrees(float(radius) / R)
        a2 = max(abs(t2.max()), abs(t2.min()))
        a4 = max(abs(t4.max()), abs(t4.min()))
        lon_min_b = s4.min() - np.degrees(float(radius) / (np.sin(np.radians(a4)) * R))
        lon_max_b = s2.max() + np.degrees(float(radius) / (np.sin(np.radians(a2)) * R))
        if round(angle_sum) == -360:
            return lats >= lat_min_b
        if round(angle_sum) == 360:
            return lats <= lat_max_b
        if round(angle_sum) == 0:
            valid_lats = (lats >= lat_min_b) & (lats <= lat_max_b)
            if s2.min() > s4.max():
                valid_lons = (lons >= lon_min_b) & (lons <= lon_max_b)
            else:
                valid_lons = ((lons >= lon_min_b) & (lons <= 180)) | ((lons <= lon_max_b) & (lons >= -180))
            return valid_lats & valid_lons
    return np.ones(lons.size, dtype=bool)


def _window_diagnosis(src, tgt, radius, d, sv, tv):
    """is data_reduce's window sound for this pair? both reductions are examined:
    sources against the target's boundary (target griddish) and targets against the source's boundary
    (source griddish, target a coordinate definition).  returns (sound, cause, n_dropped_needed, keep_src, side)"""
    from pyresample import data_reduce, geometry
    griddish = (geometry.GridDefinition, geometry.AreaDefinition)
    slo, sla = kc.lonlats(src)
    tlo, tla = kc.lonlats(tgt)
    buf = math.degrees(radius / R)
    results = []
    keep_src = None
    with warnings.catch_warnings():
        warnings.simplefilter("ignore")
        if isinstance(tgt, griddish):
            b = tgt.get_boundary_lonlats()
            keep_src = np.asarray(data_reduce.get_valid_index_from_lonlat_boundaries(b[0], b[1], slo.ravel(), sla.ravel(), radius)).astype(bool)
            needed = (d <= radius).any(axis=0) & sv            # sources within r of some valid target
            ref = _f7_reference_window(b[0], b[1], slo.ravel(), sla.ravel(), radius)
            results.append(("source", b, sla.ravel(), needed & ~keep_src, bool(np.array_equal(np.asarray(ref, bool)[sv], keep_src[sv]))))
        if isinstance(src, griddish) and isinstance(tgt, geometry.CoordinateDefinition):
            b = src.get_boundary_lonlats()
            keep_t = np.asarray(data_reduce.get_valid_index_from_lonlat_boundaries(b[0], b[1], tlo.ravel(), tla.ravel(), radius)).astype(bool)
            needed = (d <= radius).any(axis=1) & tv            # targets that have a valid source within r
            ref = _f7_reference_window(b[0], b[1], tlo.ravel(), tla.ravel(), radius)
            results.append(("target", b, tla.ravel(), needed & ~keep_t, bool(np.array_equal(np.asarray(ref, bool)[tv], keep_t[tv]))))
    for side, b, pts_lat, dropped, same_as_f7 in results:
        if dropped.any():
            lats_b = np.concatenate([np.asarray(x).ravel() for x in (b[1].side1, b[1].side2, b[1].side3, b[1].side4)])
            lat_ok = (pts_lat >= lats_b.min() - buf) & (pts_lat <= lats_b.max() + buf)
            cause = "lon_window" if lat_ok[dropped].all() else "lat_window"
            if cause == "lon_window" and not same_as_f7:
                cause = "lon_window_changed"       # not the known window any more: a different (new) way of dropping needed locations
            return False, cause, int(dropped.sum()), keep_src, side
    return True, None, 0, keep_src, ("source" if keep_src is not None else None)


def check(ctx, src, tgt, radius, desc):
    from pyresample import kd_tree
    slo, sla = kc.lonlats(src)
    tlo, tla = kc.lonlats(tgt)
    d, sv, tv = kc.dist_matrix(slo.ravel(), sla.ravel(), tlo.ravel(), tla.ravel())
    n_src, n_tgt = d.shape[1], d.shape[0]
    k = ctx.rng.choice([2, 4, 8])
    if _ties(d, radius, k):
        ctx.count("skipped.tie")
        return
    rows = tgt.shape[0]
    inp0 = {"pair": desc, "n_src": int(n_src), "n_tgt": int(n_tgt), "radius": float(radius)}
    geo = {"source": kc.describe(src), "target": kc.describe(tgt)}
    try:
        sound, cause, n_dropped, keep, side = _window_diagnosis(src, tgt, radius, d, sv, tv)
    except Exception as e:  # noqa: data_reduce itself raised; the combos below will report it
        sound, cause, n_dropped, keep, side = True, None, 0, None, None
        ctx.count("window.raises")
    ctx.count("window." + ("sound" if sound else cause))
    ids = np.arange(n_src, dtype=np.float64).reshape(src.shape)
    data2 = np.stack([ids.ravel() * 3 % 17, ids.ravel() * 0 + 2.5], axis=-1).reshape(tuple(src.shape) + (2,))

    def wf(dist):
        return np.where(dist < radius / 3, 1.0, 0.25)
    calls = {
        "nn": lambda **kw: kd_tree.resample_nearest(src, ids, tgt, radius, epsilon=0, fill_value=None, **kw),
        "gauss": lambda **kw: kd_tree.resample_gauss(src, data2, tgt, radius, [radius / 2, radius], neighbours=k, epsilon=0, fill_value=-1, with_uncert=True, **kw),
        "custom": lambda **kw: kd_tree.resample_custom(src, ids, tgt, radius, wf, neighbours=k, epsilon=0, fill_value=None, **kw),
        # integer data with a fill value that is not representable in the data's dtype
        "custom_int": lambda **kw: kd_tree.resample_custom(src, ids.astype(np.int32), tgt, radius, wf, neighbours=k, epsilon=0, fill_value=-999.5, **kw),
    }
    segs = sorted(set([1, 2, 3, rows, rows + 3]))
    for tname, call in calls.items():
        with warnings.catch_warnings():
            warnings.simplefilter("ignore")
            try:
                base = call(reduce_data=False, segments=1, nprocs=1)
            except Exception as e:  # noqa
                ctx.fail("kd_tree", f"plain call raised {type(e).__name__}: {e}", {**inp0, "type": tname}, size=n_src + n_tgt)
                continue
        combos = [(rd, sg, 1) for rd in (False, True) for sg in segs if not (rd is False and sg == 1)]
        if tname == "nn" or not ctx.quick:
            combos += [(ctx.rng.choice([False, True]), ctx.rng.choice(segs), 2)]
            if desc.startswith("special pm180"):
                combos += [(False, 1, 2)]
            if not ctx.quick:
                combos += [(True, 1, 3)]
        for rd, sg, npr in combos:
            inp = {**inp0, "type": tname, "reduce_data": rd, "segments": sg, "nprocs": npr, "k": k}
            with warnings.catch_warnings():
                warnings.simplefilter("ignore")
                try:
                    out = call(reduce_data=rd, segments=sg, nprocs=npr)
                except Exception as e:  # noqa
                    ctx.fail("kd_tree", f"raised {type(e).__name__}: {e} (the plain call does not)", {**inp, **geo}, tags={"cause": "raises"}, size=n_src + n_tgt)
                    continue
            if not _same(base, out):
                o0, b0 = (out[0], base[0]) if isinstance(out, tuple) else (out, base)
                ndiff = int(np.sum(np.ma.getmaskarray(o0) != np.ma.getmaskarray(b0)) + np.sum(np.ma.filled(o0, -12345.0) != np.ma.filled(b0, -12345.0)))
                if rd and not sound:
                    tags = {"cause": cause}
                    site = "data_reduce.get_valid_index_from_lonlat_boundaries"
                    what = (f"reduce_data=True changes the result: the boundary window drops {n_dropped} {side} location(s) lying within the "
                            f"radius (they pass the latitude window and fail the longitude window"
                            + ("" if cause == "lon_window" else "; the window is NOT the known one of finding F7") + ")" if cause.startswith("lon_window") else
                            f"reduce_data=True changes the result: the boundary window drops {n_dropped} needed {side} location(s) (latitude window)")
                else:
                    tags = {"cause": "organisation", "reduce_data": rd, "segments_gt1": sg > 1, "nprocs_gt1": npr > 1}
                    site = "kd_tree.get_neighbour_info"
                    what = "result differs from the plain single-segment, single-process, unreduced call"
                ctx.fail(site, what, {**inp, **geo}, {"elements_differing": ndiff}, tags=tags, size=n_src + n_tgt)
            ctx.case("combos", (desc, tname, rd, sg, npr), nontrivial=(rd and keep is not None and not keep.all()) or sg > 1 or npr > 1,
                     sample={"input": inp} if sg == 3 and rd else None)
    # ---- neighbour info computed once, reused on several datasets ---------------------------------
    with warnings.catch_warnings():
        warnings.simplefilter("ignore")
        for neighbours, rtype in ((1, "nn"), (k, "custom")):
            info = kd_tree.get_neighbour_info(src, tgt, radius, neighbours=neighbours, epsilon=0, reduce_data=False, segments=1)
            snap = [np.array(a, copy=True) for a in info]
            for rep in range(3):
                ds = (ids * (rep + 1) + rep).astype(np.float64)
                kw = {"weight_funcs": wf} if rtype == "custom" else {}
                got = kd_tree.get_sample_from_neighbour_info(rtype, tgt.shape, ds, info[0], info[1], info[2],
                                                             distance_array=info[3], fill_value=None, **kw)
                one = (kd_tree.resample_nearest(src, ds, tgt, radius, epsilon=0, fill_value=None, reduce_data=False, segments=1) if rtype == "nn"
                       else kd_tree.resample_custom(src, ds, tgt, radius, wf, neighbours=k, epsilon=0, fill_value=None, reduce_data=False, segments=1))
                if not _same(one, got):
                    ctx.fail("kd_tree.get_sample_from_neighbour_info", f"neighbour info reused for dataset #{rep + 1} gives a result different from the one-shot call",
                             {**inp0, "type": rtype, "reuse": rep + 1}, tags={"cause": "info-reuse"}, size=n_src + n_tgt)
                    break
                if any(not np.array_equal(a, b, equal_nan=True) for a, b in zip(snap, info)):
                    ctx.fail("kd_tree.get_sample_from_neighbour_info", "sampling modified the caller's neighbour info arrays",
                             {**inp0, "type": rtype, "reuse": rep + 1}, tags={"cause": "info-mutated"}, size=n_src + n_tgt)
                    break
            ctx.case("info_reuse", (desc, rtype), nontrivial=True)
    # ---- model: the reduced validity mask -----------------------------------------------------------
    if ctx.M and keep is not None and side == "source":
        from pyresample.kd_tree import _get_valid_input_index
        with warnings.catch_warnings():
            warnings.simplefilter("ignore")
            vii, _, _ = _get_valid_input_index(src, tgt, True, radius)
        rep = ctx.M.ask("reduce", [bool(v) for v in sv], [bool(v) for v in keep])
        if [t == "1" for t in rep.split()[1:]] != [bool(v) for v in np.asarray(vii)]:
            ctx.disagree("reduce", inp0, np.asarray(vii).astype(int).tolist(), rep)
    if ctx.M:
        seg = ctx.rng.choice(segs)
        rep = ctx.M.ask("segq", n_tgt if len(tgt.shape) == 1 else rows, seg)
        want = list(range(n_tgt if len(tgt.shape) == 1 else rows))
        if rep.startswith("err") and want:
            ctx.disagree("segq", {**inp0, "segments": seg}, "rows in order", rep)
        elif want and [int(t) for t in rep.split()[1:]] != want:
            ctx.disagree("segq", {**inp0, "segments": seg}, want, rep)


def run(ctx):
    for src, tgt, radius, desc in _special_pairs(ctx):
        check(ctx, src, tgt, radius, desc)
    n = 14 if ctx.quick else 150
    lim = (100, 64) if ctx.quick else (300, 200)
    done = 0
    while done < n:
        src, tgt, radius, desc = kc.geometry_pair(ctx.rng, *lim, invalid=True)
        if radius == 0.0 or len(tgt.shape) < 1:
            continue
        check(ctx, src, tgt, radius, desc)
        done += 1
