"""C18 — every module assigns a point to the same grid cell, or to none.

Seven observation points on shared areas and point lattices (pixel centres, every cell border, up to two
pixels outside each edge, the 0.02-px tolerance band).  For each module the projected position is obtained
with the same pyproj call the module makes (parameter class) and sent to the Lean model as an exact rational."""
import warnings
from fractions import Fraction

import numpy as np


META = {
    "rule": "one case = (area, point, module). Points: quarter-pixel lattice from 2 px outside to 2 px inside "
            "every edge + pixel centres + the +-0.01/0.03 px bands around the outer edges, mapped to lon/lat by "
            "the inverse projection; for geographic (longlat) areas lon/lat are nudged by ulps so that the "
            "module's own forward projection lands exactly on the lattice (exact borders). Non-trivial: the "
            "point lies within 1 px of a cell border or outside the area. Distinct = distinct (area, x', y', module). "
            "ewa_sliced: one case = (parent area, target = parent / slice / slice of a slice / slice along one axis, 1 or several output chunks): "
            "DaskEWAResampler's kept mapping = ewa.ll2cr = the target's array coordinates = first principles, and a dense swath carrying its own "
            "fractional column / row arrives within 0.5 cell of c / r in cell (r, c), equal to the result for the same grid built from scratch. "
            "geographic: lon/lat areas (global, at the antimeridian, sphere, other prime meridian; two projected controls) x points inside and "
            "within 1 px of the edges, longitudes as is / +360 / -360 / 0..360, clear of cell borders by 0.1 px: index lookup (array, scalar, "
            "fractional), get_linesample, GridFilter, bucket indices against pyproj.Proj(area.crs) + arithmetic on the extent.",
    "assumptions": ["float evaluation of (x-x0)/dx equals the exact quotient whenever the exact fractional index is "
                    "more than 1e-9 px away from an integer; inside that band either adjacent cell is accepted "
                    "unless the position is exactly on the border of an exact-class (dyadic) area"],
}

GUARD = Fraction(1, 10 ** 9)


def _areas(ctx):
    from pyresample.geometry import AreaDefinition
    specs = [
        # (name, proj, w, h, extent, exact-class?)
        ("ll_8x4", {"proj": "longlat", "datum": "WGS84"}, 8, 4, (-8.0, -2.0, 8.0, 6.0), True),
        ("ll_1x1", {"proj": "longlat", "datum": "WGS84"}, 1, 1, (10.0, 20.0, 12.0, 21.0), True),
        ("ll_5x3_quarter", {"proj": "longlat", "datum": "WGS84"}, 5, 3, (-1.25, 40.0, 0.0, 40.75), True),
        ("ll_nonsq", {"proj": "longlat", "datum": "WGS84"}, 4, 16, (100.0, -8.0, 116.0, 0.0), True),
        ("eqc_4x4", {"proj": "eqc", "lon_0": 0, "ellps": "WGS84"}, 4, 4, (0.0, 0.0, 400000.0, 400000.0), False),
        ("merc_6x5", {"proj": "merc", "lon_0": 10, "ellps": "WGS84"}, 6, 5, (-300000.0, 5000000.0, 300000.0, 5600000.0), False),
        ("laea_7x9", {"proj": "laea", "lat_0": 60, "lon_0": 20, "ellps": "WGS84"}, 7, 9, (-350000.0, -450000.0, 350000.0, 450000.0), False),
        ("stere_n", {"proj": "stere", "lat_0": 90, "lat_ts": 60, "lon_0": 0, "ellps": "WGS84"}, 5, 5, (-1000000.0, -3500000.0, 1500000.0, -1000000.0), False),
        # areas whose extent is given max -> min on one or both axes (negative pixel sizes): the cell whose extent contains a point
        # is still well defined, and every module must still agree on it
        ("ll_8x4_flipx", {"proj": "longlat", "datum": "WGS84"}, 8, 4, (8.0, -2.0, -8.0, 6.0), True),
        ("ll_5x3_flipy", {"proj": "longlat", "datum": "WGS84"}, 5, 3, (-1.25, 40.75, 0.0, 40.0), True),
        ("eqc_4x4_flipxy", {"proj": "eqc", "lon_0": 0, "ellps": "WGS84"}, 4, 4, (400000.0, 400000.0, 0.0, 0.0), False),
    ]
    if not ctx.quick:
        specs += [
            ("ll_16x16", {"proj": "longlat", "datum": "WGS84"}, 16, 16, (-16.0, -16.0, 16.0, 16.0), True),
            ("utm33", {"proj": "utm", "zone": 33, "ellps": "WGS84"}, 9, 4, (300000.0, 6000000.0, 750000.0, 6200000.0), False),
            ("lcc", {"proj": "lcc", "lat_1": 30, "lat_2": 60, "lat_0": 45, "lon_0": 10, "ellps": "WGS84"}, 6, 6, (-600000.0, -600000.0, 600000.0, 600000.0), False),
            ("stere_s", {"proj": "stere", "lat_0": -90, "lat_ts": -70, "lon_0": 0, "ellps": "WGS84"}, 4, 7, (-800000.0, -700000.0, 0.0, 700000.0), False),
        ]
        for k in range(6):
            w, h = ctx.rng.randrange(1, 12), ctx.rng.randrange(1, 12)
            x0 = ctx.rng.uniform(-2e6, 2e6)
            y0 = ctx.rng.uniform(-2e6, 2e6)
            specs.append((f"rand_laea_{k}", {"proj": "laea", "lat_0": ctx.rng.uniform(-60, 60), "lon_0": ctx.rng.uniform(-170, 170),
                                             "ellps": "WGS84"}, w, h,
                          (x0, y0, x0 + w * ctx.rng.uniform(500, 50000), y0 + h * ctx.rng.uniform(500, 50000)), False))
    out = []
    with warnings.catch_warnings():
        warnings.simplefilter("ignore")
        for name, proj, w, h, ext, exact in specs:
            out.append((name, AreaDefinition(name, name, name, proj, w, h, ext), exact))
    return out


def _lattice(area):
    """projection-coordinate lattice around and inside the grid"""
    x0, y0, x1, y1 = area.area_extent
    dx, dy = area.pixel_size_x, area.pixel_size_y
    W, H = area.width, area.height

    def axis(n):
        if n <= 6:
            base = np.arange(-2, n + 2.01, 0.25)
        else:   # both ends + a few interior cells
            base = np.concatenate([np.arange(-2, 2.01, 0.25), np.arange(n // 2 - 0.5, n // 2 + 1.01, 0.25),
                                   np.arange(n - 2, n + 2.01, 0.25)])
        band = np.array([-0.03, -0.01, 0.01, 0.03])
        return np.unique(np.concatenate([base, band, n + band]))
    us, vs = axis(W), axis(H)
    U, V = np.meshgrid(us, vs)
    return x0 + U.ravel() * dx, y1 - V.ravel() * dy


def _nudge_exact(fwd, lons, lats, xt, yt):
    """nudge lon/lat by a few ulps so that fwd(lon, lat) == (xt, yt) exactly where possible"""
    lons, lats = lons.copy(), lats.copy()
    for arr, tgt, idx in ((lons, xt, 0), (lats, yt, 1)):
        cur = fwd(lons, lats)[idx]
        for _ in range(6):
            bad = cur != tgt
            if not bad.any():
                break
            arr[bad] = np.where(cur[bad] < tgt[bad], np.nextafter(arr[bad], np.inf), np.nextafter(arr[bad], -np.inf))
            cur = fwd(lons, lats)[idx]
    return lons, lats


class Case:
    def __init__(self, ctx, name, area, exact):
        self.ctx, self.name, self.area, self.exact = ctx, name, area, exact
        self.g = [Fraction(float(v)) for v in area.area_extent] + [area.width, area.height]

    def model(self, xs, ys):
        """ask the model for every point; returns list of dicts"""
        out = []
        M = self.ctx.M
        for x, y in zip(xs, ys):
            rep = M.ask("cells", *self.g, Fraction(float(x)), Fraction(float(y)))
            d = dict(t.split("=", 1) for t in rep.split())
            out.append(d)
        return out


def _cell(s):
    return None if s == "none" else tuple(int(v) for v in s.split(","))


def _frac_guard(d):
    fx, fy = (Fraction(v) for v in d["fx"].split(","))
    gx = abs(fx - round(fx))
    gy = abs(fy - round(fy))
    return fx, fy, gx, gy


def _oracle(case, fx, fy, cell, module, eps=Fraction(0)):
    """the property itself on one module's answer; fx, fy exact fractional positions ((x-x0)/dx, (y1-y)/dy)"""
    W, H = case.area.width, case.area.height
    if cell is not None:
        r, c = cell
        if not (0 <= r < H and 0 <= c < W):
            return f"{module} returned cell {cell} outside the grid"
        okx = (c - (eps if c == 0 else 0) <= fx <= c + 1 + (eps if c == W - 1 else 0))
        oky = (r - (eps if r == 0 else 0) <= fy <= r + 1 + (eps if r == H - 1 else 0))
        if not (okx and oky):
            return f"{module} attributes the point to cell {cell} whose extent does not contain it (frac idx {float(fx):.4f},{float(fy):.4f})"
    else:
        if 0 < fx < W and 0 < fy < H and fx != int(fx) and fy != int(fy):
            return f"{module} attributes an interior point to no cell (frac idx {float(fx):.4f},{float(fy):.4f})"
    return None


def _accept(case, d, got, want, exact_pt):
    """got == want, or within the guard band of a border where either neighbour is fine"""
    if got == want:
        return True
    fx, fy, gx, gy = _frac_guard(d)
    near = (gx < GUARD) or (gy < GUARD)
    if not near:
        return False
    if exact_pt and case.exact:
        return False
    return True


def run_area(ctx, name, area, exact):
    import dask.array as da
    import pyproj
    from pyproj import Proj
    from pyresample import geo_filter, geometry, grid, image
    from pyresample.bucket import BucketResampler
    from pyresample.ewa import ll2cr
    case = Case(ctx, name, area, exact)
    W, H = area.width, area.height
    xt, yt = _lattice(area)
    inv = pyproj.Transformer.from_crs(area.crs.geodetic_crs, area.crs, always_xy=True)
    lons, lats = inv.transform(xt, yt, direction="INVERSE")
    ok = np.isfinite(lons) & np.isfinite(lats) & (np.abs(lats) <= 90) & (np.abs(lons) <= 180)
    lons, lats, xt, yt = lons[ok], lats[ok], xt[ok], yt[ok]
    with warnings.catch_warnings():
        warnings.simplefilter("ignore")
        p_dict = Proj(**area.proj_dict)
        p_crs = Proj(area.crs)
        p_bucket = Proj(area.proj_dict)
    if exact:
        lons, lats = _nudge_exact(lambda a, b: p_crs(a, b), lons, lats, xt, yt)
    n = lons.size
    lon2, lat2 = lons.reshape(1, n), lats.reshape(1, n)
    cellid = (np.arange(H * W).reshape(H, W) + 1).astype(np.int64)

    def fwd(p):
        x, y = p(lons, lats)
        return np.asarray(x, dtype=float), np.asarray(y, dtype=float)

    results = {}   # module -> (xs, ys, list of cell-or-None, extra)
    with warnings.catch_warnings():
        warnings.simplefilter("ignore")
        # 1 get_linesample
        rows, cols = grid.get_linesample(lon2, lat2, area)
        xs, ys = fwd(p_dict)
        results["linesample"] = (xs, ys, [(int(r), int(c)) for r, c in zip(rows.ravel(), cols.ravel())])
        # 1b the same points as a 2-D array in another memory order, projected by worker processes: same cells, point by point
        if n >= 6 and ctx.rng.random() < (0.35 if ctx.quick else 0.7):
            b_ = n // 2
            lonC, latC = lons[:2 * b_].reshape(2, b_), lats[:2 * b_].reshape(2, b_)
            # reference: the same worker-process path on the C-ordered array (border ties may differ between Proj and Proj_MP, memory order may not)
            r1, c1 = grid.get_linesample(lonC, latC, area, nprocs=2)
            for order_name, conv in (("F-ordered", np.asfortranarray), ("transposed-view", lambda a_: np.ascontiguousarray(a_.T).T)):
                r2, c2 = grid.get_linesample(conv(lonC), conv(latC), area, nprocs=2)
                ctx.count("linesample.nprocs2." + order_name)
                if not (np.array_equal(np.ma.filled(r1, -9), np.ma.filled(r2, -9)) and np.array_equal(np.ma.filled(c1, -9), np.ma.filled(c2, -9))):
                    k_ = int(np.flatnonzero((np.ma.filled(r1, -9) != np.ma.filled(r2, -9)).ravel() | (np.ma.filled(c1, -9) != np.ma.filled(c2, -9)).ravel())[0])
                    ctx.fail("grid.get_linesample", f"{order_name} 2-D lon/lat arrays with nprocs=2: point {k_} ({float(lonC.ravel()[k_]):.5f}, {float(latC.ravel()[k_]):.5f}) is attributed to "
                             f"(row {np.ma.filled(r2, -9).ravel()[k_]}, col {np.ma.filled(c2, -9).ravel()[k_]}) but to (row {np.ma.filled(r1, -9).ravel()[k_]}, col {np.ma.filled(c1, -9).ravel()[k_]}) "
                             f"with the C-ordered array", {"area": name, "shape": [H, W], "extent": [float(v) for v in area.area_extent], "memory_order": order_name,
                                                                            "lons": lonC.tolist(), "lats": latC.tolist()}, tags={"cause": "memory-order-mp"}, size=n)
        # 2 get_image_from_lonlats (cell id image, fill 0)
        img = grid.get_image_from_lonlats(lon2, lat2, area, cellid, fill_value=0).ravel()
        results["image_from_lonlats"] = (xs, ys, [None if v == 0 else divmod(int(v) - 1, W) for v in img])
        # 3 GridFilter: reconstruct the cell id bit by bit
        nbits = max(1, int(H * W).bit_length())
        swath = geometry.SwathDefinition(lon2, lat2)
        allv = geo_filter.GridFilter(area, np.ones((H, W), bool)).get_valid_index(swath).ravel()
        ids = np.zeros(n, dtype=np.int64)
        for b in range(nbits):
            f = ((cellid >> b) & 1).astype(bool)
            ids |= geo_filter.GridFilter(area, f).get_valid_index(swath).ravel().astype(np.int64) << b
        xs3, ys3 = fwd(p_crs)
        results["gridfilter"] = (xs3, ys3, [divmod(int(v) - 1, W) if a else None for v, a in zip(ids, allv)])
        bad = [(bool(a), int(v)) for v, a in zip(ids, allv) if (not a and v != 0) or (a and v == 0)]
        if bad:
            ctx.fail("geo_filter.GridFilter.get_valid_index", "filter value read for a point reported outside (or none for one inside)",
                     {"area": name}, bad[:3])
        # 4 bucket
        br = BucketResampler(area, da.from_array(lons, chunks=max(1, n // 3)), da.from_array(lats, chunks=max(1, n // 3)))
        xi, yi = np.asarray(br.x_idxs), np.asarray(br.y_idxs)
        xs4, ys4 = fwd(p_bucket)
        results["bucket"] = (xs4, ys4, [None if (a < 0 or b < 0) else (int(b), int(a)) for a, b in zip(xi, yi)])
        if ((xi < 0) != (yi < 0)).any():
            ctx.fail("BucketResampler._get_indices", "x_idxs and y_idxs disagree on which points are outside", {"area": name})
        # 5 area index lookup (array form)
        cx, cy = area.get_array_indices_from_lonlat(lons, lats)
        mx, my = np.ma.getmaskarray(cx), np.ma.getmaskarray(cy)
        results["area_indices"] = (xs3, ys3, [None if (a or b) else (int(r), int(c))
                                              for a, b, r, c in zip(mx, my, np.ma.getdata(cy), np.ma.getdata(cx))])
        area_raw = list(zip(my, np.ma.getdata(cy), mx, np.ma.getdata(cx)))
        # 5b scalar form on a subset
        sub = list(range(0, n, max(1, n // 60)))
        scal = {}
        for i in sub:
            try:
                c, r = area.get_array_indices_from_lonlat(float(lons[i]), float(lats[i]))
                scal[i] = (int(r), int(c))
            except ValueError:
                scal[i] = None
        # 6 ll2cr
        sw = geometry.SwathDefinition(lon2.copy(), lat2.copy())
        cnt, lc, lr = ll2cr(sw, area)
        t = pyproj.Transformer.from_crs(sw.crs, area.crs, always_xy=True)
        xs6, ys6 = t.transform(lons, lats)
        results["ll2cr"] = (np.asarray(xs6), np.asarray(ys6), list(zip(lc.ravel(), lr.ravel())))
        # 6b the same mapping through the dask EWA resampler (what satpy uses): same columns / rows, also when the (cached) mapping is
        #    evaluated a second time, and the caller's lon/lat arrays are left alone
        if True:
            import xarray as xr
            from pyresample.ewa import DaskEWAResampler
            lon_in, lat_in = lon2.copy(), lat2.copy()
            nch = ctx.rng.choice([n, n, max(1, n // 2)])
            if ctx.rng.random() < 0.5:
                sw_d = geometry.SwathDefinition(xr.DataArray(da.from_array(lon_in, chunks=(1, nch)), dims=("y", "x"), attrs={"rows_per_scan": 1}),
                                                xr.DataArray(da.from_array(lat_in, chunks=(1, nch)), dims=("y", "x")))
            else:
                sw_d = geometry.SwathDefinition(da.from_array(lon_in, chunks=(1, nch)), da.from_array(lat_in, chunks=(1, nch)))
            try:
                rs_d = DaskEWAResampler(sw_d, area)
                rs_d.precompute(rows_per_scan=1)
                for rep_ in (1, 2):
                    cr = np.asarray(rs_d.cache["ll2cr_result"].compute())
                    ctx.count("ll2cr.dask_path")
                    same = cr.shape == (2,) + lc.shape and np.array_equal(cr[0], lc, equal_nan=True) and np.array_equal(cr[1], lr, equal_nan=True)
                    untouched = np.array_equal(lon_in, lon2, equal_nan=True) and np.array_equal(lat_in, lat2, equal_nan=True)
                    if not same or not untouched:
                        nd = int((~((cr[0] == lc) | (np.isnan(cr[0]) & np.isnan(lc)))).sum()) if cr.shape == (2,) + lc.shape else -1
                        ctx.fail("ewa.DaskEWAResampler.precompute", f"evaluation {rep_} of the dask resampler's swath-to-grid mapping: "
                                 + (f"{nd} of {n} points get other columns/rows than ewa.ll2cr gives them" if not same else "")
                                 + ("; the lon/lat arrays given by the caller were overwritten" if not untouched else ""),
                                 {"area": name, "shape": [H, W], "extent": [float(v) for v in area.area_extent], "n_points": n, "evaluation": rep_},
                                 tags={"cause": "dask-ll2cr"}, size=n)
                        break
            except Exception as e:  # noqa
                ctx.fail("ewa.DaskEWAResampler.precompute", f"raised {type(e).__name__}: {str(e)[:120]}", {"area": name, "n_points": n}, size=n)
        # 4b the bucket resampler's statistics place a point where its index arrays say (or nowhere): per-cell max / min of point ids
        try:
            ids_ = np.arange(1, n + 1, dtype=np.float64)
            exp_max = np.full((H, W), np.nan)
            exp_min = np.full((H, W), np.nan)
            for k_, (a_, b_) in enumerate(zip(xi, yi)):
                if a_ >= 0 and b_ >= 0:
                    exp_max[b_, a_] = ids_[k_] if np.isnan(exp_max[b_, a_]) else max(exp_max[b_, a_], ids_[k_])
                    exp_min[b_, a_] = ids_[k_] if np.isnan(exp_min[b_, a_]) else min(exp_min[b_, a_], ids_[k_])
            d_ids = da.from_array(ids_, chunks=max(1, n // 3))
            for stat, exp_ in (("get_max", exp_max), ("get_min", exp_min)):
                got_ = np.asarray(getattr(br, stat)(d_ids))
                ctx.count(f"bucket.{stat}")
                if got_.shape != exp_.shape or not np.array_equal(got_, exp_, equal_nan=True):
                    bad_ = np.argwhere(~((got_ == exp_) | (np.isnan(got_) & np.isnan(exp_)))) if got_.shape == exp_.shape else []
                    c_ = tuple(int(v) for v in bad_[0]) if len(bad_) else None
                    ctx.fail(f"BucketResampler.{stat}", f"{stat} of the point ids: cell {c_} holds {got_[c_] if c_ else None} but the points the index arrays put there give "
                             f"{exp_[c_] if c_ else None} ({len(bad_)} cells differ; {int(((xi < 0) | (yi < 0)).sum())} of {n} points are outside the area)",
                             {"area": name, "shape": [H, W], "extent": [float(v) for v in area.area_extent], "n_points": n, "statistic": stat}, tags={"cause": "bucket-stat-placement"}, size=n)
        except Exception as e:  # noqa
            ctx.fail("BucketResampler.get_max", f"raised {type(e).__name__}: {str(e)[:120]}", {"area": name, "n_points": n}, size=n)
        # 7 ImageContainerQuick onto a shifted/scaled target area in the same CRS
        tw, th = min(W + 3, 9), min(H + 3, 9)
        dx, dy = area.pixel_size_x, area.pixel_size_y
        x0, y0, x1, y1 = area.area_extent
        text = (x0 - 1.25 * dx, y0 - 0.75 * dy, x0 - 1.25 * dx + tw * dx * 0.75, y0 - 0.75 * dy + th * dy * 0.75)
        targ = geometry.AreaDefinition("t", "t", "t", area.crs, tw, th, text)
        tl, tla = targ.get_lonlats()
        okq = np.isfinite(tl) & np.isfinite(tla)
        q = image.ImageContainerQuick(cellid.astype(np.float64), area, fill_value=0).resample(targ).image_data

    # ---- compare with the model and run the oracle -------------------------------------------------
    def check(module, site, xs, ys, cells, key, eps=Fraction(0)):
        ds = case.model(xs, ys) if ctx.M else [None] * len(cells)
        for i, (x, y, got, d) in enumerate(zip(xs, ys, cells, ds)):
            inp = {"area": name, "extent": [float(v) for v in area.area_extent], "shape": [H, W],
                   "proj_x": float(x), "proj_y": float(y), "module": module}
            if d is not None:
                fx, fy, gx, gy = _frac_guard(d)
                exact_pt = (gx == 0 or gy == 0)
                want = _cell(d[key])
                if not _accept(case, d, got, want, exact_pt):
                    ctx.disagree(f"{module}", inp, got, want)
            else:
                gx0 = [Fraction(float(v)) for v in area.area_extent]
                fx = (Fraction(float(x)) - gx0[0]) / (gx0[2] - gx0[0]) * W
                fy = (gx0[3] - Fraction(float(y))) / (gx0[3] - gx0[1]) * H
                gx = abs(fx - round(fx)); gy = abs(fy - round(fy))
            # oracle (skip the float-ambiguous guard band unless the point is exactly on the lattice)
            amb = (0 < gx < GUARD) or (0 < gy < GUARD)
            if not amb:
                prob = _oracle(case, fx, fy, got, module, eps)
                if prob:
                    first = got is not None and (got[0] == 0 or got[1] == 0) and (fx < 0 or fy < 0)
                    ctx.fail(site, prob, inp, got, tags={"first_row_or_col": first}, size=W * H)
            nontriv = gx < Fraction(1, 100) or gy < Fraction(1, 100) or not (0 <= fx <= W and 0 <= fy <= H) or got is None
            ctx.case(module, (name, float(x), float(y)), nontrivial=nontriv,
                     sample={"input": inp, "impl": got} if i % 97 == 0 else None)
            ctx.count(f"{module}.{'none' if got is None else 'cell'}")

    def to_cell(rc):
        r, c = rc
        return (r, c) if (0 <= r < H and 0 <= c < W) else None

    xs, ys, raw = results["linesample"]
    if ctx.M:  # raw indices (also outside the grid) against the model
        for x, y, rc, d in zip(xs, ys, raw, case.model(xs, ys)):
            want = tuple(int(v) for v in d["ls"].split(","))
            if rc != want and not _accept(case, d, rc, want, False):
                ctx.disagree("linesample.raw", {"area": name, "proj_x": float(x), "proj_y": float(y)}, rc, want)
    check("linesample", "grid.get_linesample", xs, ys, [to_cell(rc) for rc in raw], "lsc")
    check("image_from_lonlats", "grid.get_image_from_lonlats", *results["image_from_lonlats"], "lsc")
    check("gridfilter", "geo_filter.GridFilter.get_valid_index", *results["gridfilter"], "gf")
    xs, ys, cells = results["bucket"]
    check("bucket", "BucketResampler._get_indices", xs, ys, cells, "ref")
    # area index: model has (mask, idx) per axis
    xs, ys, cells = results["area_indices"]
    eps = Fraction(2, 100) + GUARD
    if ctx.M:
        ds = case.model(xs, ys)
        for i, (x, y, raw4, d, got) in enumerate(zip(xs, ys, area_raw, ds, cells)):
            my_, r_, mx_, c_ = raw4
            m = d["ar"].split(",")
            want = (m[0] == "1", int(m[1]), m[2] == "1", int(m[3]))
            impl = (bool(my_), int(r_), bool(mx_), int(c_))
            if impl != want:
                fx, fy, gx, gy = _frac_guard(d)
                # discontinuities of masked_ints: cell borders (round) and the +-0.02 tolerance edges
                near = any(abs(v - t) < GUARD for v, t in ((fx % 1, Fraction(0)), (fx % 1, Fraction(1)), (fy % 1, Fraction(0)), (fy % 1, Fraction(1)),
                                                            (fx, -Fraction(2, 100)), (fx, W + Fraction(2, 100)),
                                                            (fy, -Fraction(2, 100)), (fy, H + Fraction(2, 100))))
                if not near or (case.exact and (fx % 1 == 0 or fy % 1 == 0) and impl != want and not near):
                    ctx.disagree("area_indices.raw", {"area": name, "proj_x": float(x), "proj_y": float(y)}, impl, want)
            if i in scal and scal[i] != got:
                ctx.fail("AreaDefinition.get_array_indices_from_lonlat", "scalar and array lookups disagree",
                         {"area": name, "lon": float(lons[i]), "lat": float(lats[i])}, {"scalar": scal[i], "array": got})
    # oracle for area index with tolerance band
    for x, y, got in zip(xs, ys, cells):
        g0 = case.g
        fx = (Fraction(float(x)) - g0[0]) / (g0[2] - g0[0]) * W
        fy = (g0[3] - Fraction(float(y))) / (g0[3] - g0[1]) * H
        prob = None
        if got is None:
            if 0 < fx < W and 0 < fy < H:
                prob = "area index lookup masks a point inside the area"
        else:
            r, c = got
            if not (-eps <= fx <= W + eps and -eps <= fy <= H + eps):
                prob = "area index lookup returns a pixel for a point outside the extent beyond the 0.02 px tolerance"
            elif not (c - eps - GUARD <= fx <= c + 1 + eps + GUARD and r - eps - GUARD <= fy <= r + 1 + eps + GUARD):
                prob = f"area index lookup returns pixel {got} that does not contain the point"
        if prob:
            ctx.fail("AreaDefinition.get_array_indices_from_lonlat", prob,
                     {"area": name, "proj_x": float(x), "proj_y": float(y), "frac": [float(fx), float(fy)]}, got, size=W * H)
        ctx.case("area_indices", (name, float(x), float(y)), nontrivial=True)
    # ll2cr: fractional positions equal the area's own and the model's
    xs, ys, cr = results["ll2cr"]
    ax, ay = area.get_array_coordinates_from_lonlat(lons, lats)
    ds = case.model(xs, ys) if ctx.M else [None] * n
    ingrid = 0
    for i, (x, y, (c, r), d) in enumerate(zip(xs, ys, cr, ds)):
        inp = {"area": name, "proj_x": float(x), "proj_y": float(y)}
        tol = 1e-9 * (1 + abs(float(ax[i]))) + 1e-9
        if not (abs(c - ax[i]) <= tol and abs(r - ay[i]) <= 1e-9 * (1 + abs(float(ay[i]))) + 1e-9):
            ctx.fail("ewa.ll2cr", "ll2cr column/row differs from the area's own array coordinates", inp,
                     {"ll2cr": [float(c), float(r)], "area": [float(ax[i]), float(ay[i])]}, size=W * H)
        if d is not None:
            mc, mr = (Fraction(v) for v in d["ll"].split(","))
            if abs(Fraction(float(c)) - mc) > Fraction(1, 10 ** 9) * (1 + abs(mc)) or abs(Fraction(float(r)) - mr) > Fraction(1, 10 ** 9) * (1 + abs(mr)):
                ctx.disagree("ll2cr", inp, [float(c), float(r)], [float(mc), float(mr)])
            if d["ing"] == "1":
                ingrid += 1
        ctx.case("ll2cr", (name, float(x), float(y)), nontrivial=True)
    if ctx.M and abs(ingrid - cnt) > sum(1 for d in ds if any(abs(abs(Fraction(v)) - t) < Fraction(1, 10 ** 6) for v in d["ll"].split(",") for t in (1, W + 1, H + 1))):
        ctx.disagree("ll2cr.count", {"area": name}, int(cnt), ingrid)
    # ImageContainerQuick: every target pixel
    with warnings.catch_warnings():
        warnings.simplefilter("ignore")
        qx, qy = p_dict(tl[okq], tla[okq])
    qcells = [None if v == 0 else divmod(int(v) - 1, W) for v in np.asarray(q)[okq]]
    check("image_quick", "image.ImageContainerQuick.resample", np.asarray(qx), np.asarray(qy), qcells, "lsc")


def run_quick_linesample(ctx):
    """utils.generate_quick_linesample_arrays (with its uint16 down-cast) + get_image_from_linesample /
    ImageContainer.get_array_from_linesample, for axis lengths around the uint8/uint16 limits"""
    from pyproj import Proj
    from pyresample import geometry, grid, image, utils
    sizes = [(3, 2), (255, 2), (256, 3), (65535, 2), (65536, 2), (65537, 2), (2, 65536), (2, 65535)]
    if not ctx.quick:
        sizes += [(2, 65537), (65534, 1), (1, 65536), (70000, 2)]
    for W, H in sizes:
        dx = 2.0 ** -10 if W > 1000 else 0.5
        dy = 2.0 ** -10 if H > 1000 else 0.5
        x0, y1 = -32.0, 40.0
        ext = (x0, y1 - H * dy, x0 + W * dx, y1)
        with warnings.catch_warnings():
            warnings.simplefilter("ignore")
            src = geometry.AreaDefinition("s", "s", "s", {"proj": "longlat", "datum": "WGS84"}, W, H, ext)
            case = Case(ctx, f"ll_{W}x{H}", src, True)
            cellid = (np.arange(H * W, dtype=np.int64).reshape(H, W) + 1)
            targets = [
                ("upper_right", (ext[2] - 2.5 * dx, y1 - 1.25 * dy, ext[2] + 2.5 * dx, y1 + 1.25 * dy), 10, 5),
                ("lower_left", (x0 - 1.75 * dx, ext[1] - 1.5 * dy, x0 + 1.25 * dx, ext[1] + 1.5 * dy), 6, 6),
            ]
            for tname, text, tw, th in targets:
                tgt = geometry.AreaDefinition("t", "t", "t", src.crs, tw, th, text)
                rows, cols = utils.generate_quick_linesample_arrays(src, tgt)
                img = grid.get_image_from_linesample(rows, cols, cellid, 0)
                ma = image.ImageContainer(cellid, src, fill_value=None).get_array_from_linesample(rows, cols)
                tl, tla = tgt.get_lonlats()
                px, py = Proj(**src.proj_dict)(tl, tla)
                ds = case.model(np.asarray(px).ravel(), np.asarray(py).ravel()) if ctx.M else [None] * (tw * th)
                mam = np.ma.getmaskarray(ma).ravel()
                for i, (x, y, v, r_, c_, d) in enumerate(zip(np.asarray(px).ravel(), np.asarray(py).ravel(), img.ravel(),
                                                          rows.ravel(), cols.ravel(), ds)):
                    got = None if v == 0 else divmod(int(v) - 1, W)
                    got_ma = None if mam[i] else divmod(int(np.ma.getdata(ma).ravel()[i]) - 1, W)
                    inp = {"source_shape": [H, W], "source_extent": list(ext), "target": tname, "proj_x": float(x), "proj_y": float(y)}
                    g0 = case.g
                    fx = (Fraction(float(x)) - g0[0]) / (g0[2] - g0[0]) * W
                    fy = (g0[3] - Fraction(float(y))) / (g0[3] - g0[1]) * H
                    gx, gy = abs(fx - round(fx)), abs(fy - round(fy))
                    amb = (0 < gx < GUARD) or (0 < gy < GUARD)
                    for site, val in (("utils.generate_quick_linesample_arrays+get_image_from_linesample", got),
                                      ("image.ImageContainer.get_array_from_linesample", got_ma)):
                        if d is not None and not amb and val != _cell(d["qlsc"]):
                            ctx.disagree("quick_linesample", {**inp, "site": site}, val, _cell(d["qlsc"]))
                        if not amb:
                            prob = _oracle(case, fx, fy, val, "quick linesample")
                            if prob:
                                first = val is not None and (val[0] == 0 or val[1] == 0)
                                ctx.fail(site, prob, inp, {"cell": val, "row_index": int(r_), "col_index": int(c_)},
                                         tags={"first_row_or_col": first}, size=10)
                    ctx.case("quick_linesample", (W, H, tname, i), nontrivial=True,
                             sample={"input": inp, "impl": got} if i == 0 else None)
        ctx.count(f"quick_linesample.axis_{'le' if max(W, H) <= 65535 else 'gt'}_uint16")


# ---------------------------------------------------------------------------------------------
# EWA through the dask resampler onto areas that are slices of other areas
# ---------------------------------------------------------------------------------------------

def _ewa_parent(rng, k):
    """a parent area (some tens of cells each way) and a dense swath (tilted, jittered lattice, about 0.6 px spacing) covering it"""
    import pyproj
    from pyresample.geometry import AreaDefinition
    kinds = [("laea", lambda: {"proj": "laea", "lat_0": rng.uniform(-60, 70), "lon_0": rng.uniform(-170, 170), "ellps": "WGS84"}, (1000.0, 4000.0)),
             ("stere_n", lambda: {"proj": "stere", "lat_0": 90, "lat_ts": 60, "lon_0": rng.uniform(-90, 90), "ellps": "WGS84"}, (1000.0, 5000.0)),
             ("merc", lambda: {"proj": "merc", "lon_0": rng.uniform(-150, 150), "ellps": "WGS84"}, (1000.0, 4000.0)),
             ("eqc", lambda: {"proj": "eqc", "lon_0": 0, "ellps": "WGS84"}, (1000.0, 4000.0)),
             ("longlat", lambda: {"proj": "longlat", "datum": "WGS84"}, (0.01, 0.05))]
    kind, mk, (lo, hi) = kinds[k % len(kinds)]
    proj = mk()
    W, H = rng.randrange(40, 64), rng.randrange(36, 56)
    dx, dy = rng.uniform(lo, hi), rng.uniform(lo, hi)
    if kind == "longlat":
        cx, cy = rng.uniform(-150, 150), rng.uniform(-60, 60)
    elif kind == "stere_n":
        cx, cy = rng.uniform(-1.5e6, 1.5e6), rng.uniform(-2.5e6, -0.8e6)
    elif kind == "merc":
        cx, cy = rng.uniform(-2e6, 2e6), rng.uniform(-5e6, 6e6)
    else:
        cx, cy = rng.uniform(-3e5, 3e5), rng.uniform(-3e5, 3e5)
    ext = (cx - W * dx / 2, cy - H * dy / 2, cx + W * dx / 2, cy + H * dy / 2)
    with warnings.catch_warnings():
        warnings.simplefilter("ignore")
        parent = AreaDefinition("parent", "parent", "parent", proj, W, H, ext)
    rows_per_scan = rng.choice([5, 10])
    n_j = int(W / 0.6) + 12
    n_i = (int(H / 0.6) + 12 + rows_per_scan - 1) // rows_per_scan * rows_per_scan
    ii, jj = np.meshgrid(np.arange(n_i) - n_i / 2.0, np.arange(n_j) - n_j / 2.0, indexing="ij")
    th = rng.uniform(-0.15, 0.15)
    jit = np.random.default_rng(rng.randrange(2 ** 31))
    u = (jj + jit.uniform(-0.1, 0.1, jj.shape)) * 0.6
    v = (ii + jit.uniform(-0.1, 0.1, ii.shape)) * 0.6
    xs = cx + (u * np.cos(th) - v * np.sin(th)) * dx
    ys = cy - (u * np.sin(th) + v * np.cos(th)) * dy
    t = pyproj.Transformer.from_crs(parent.crs.geodetic_crs, parent.crs, always_xy=True)
    lons, lats = t.transform(xs, ys, direction="INVERSE")
    return kind, proj, parent, np.ascontiguousarray(lons, dtype=np.float64), np.ascontiguousarray(lats, dtype=np.float64), rows_per_scan


def _frac_cell(area, lons, lats):
    """fractional (column, row) of each point on the area's grid from first principles: pyproj + arithmetic on the extent; integer = cell centre"""
    import pyproj
    t = pyproj.Transformer.from_crs(area.crs.geodetic_crs, area.crs, always_xy=True)
    x, y = t.transform(lons, lats)
    x0, y0, x1, y1 = area.area_extent
    return (np.asarray(x) - x0) / ((x1 - x0) / area.width) - 0.5, (y1 - np.asarray(y)) / ((y1 - y0) / area.height) - 0.5


def run_ewa_sliced(ctx):
    """DaskEWAResampler (precompute: swath point -> fractional column/row; resample: where the points' values arrive) onto target areas
    that are never-sliced areas, slices of a parent area (non-zero start in both / one dimension) and slices of slices, with one and
    several output chunks.  The grid of a target is given by its extent and shape, not by how it was obtained."""
    import dask
    import dask.array as da
    from pyresample.ewa import DaskEWAResampler, ll2cr
    from pyresample.geometry import AreaDefinition, SwathDefinition
    rng = ctx.rng
    n_parents = 2 if ctx.quick else 10
    k0 = rng.randrange(5)
    for k in range(n_parents):
        kind, proj, parent, lons, lats, rps = _ewa_parent(rng, k0 + k)
        H, W = parent.shape
        r0, c0 = rng.randrange(1, H // 3), rng.randrange(1, W // 3)
        r1, c1 = rng.randrange(r0 + 20, H + 1), rng.randrange(c0 + 20, W + 1)
        a0, b0 = rng.randrange(1, 6), rng.randrange(1, 6)
        a1, b1 = rng.randrange(a0 + 12, r1 - r0 + 1), rng.randrange(b0 + 12, c1 - c0 + 1)
        rr0 = rng.randrange(2, H // 2)
        cc0 = rng.randrange(2, W // 2)
        with warnings.catch_warnings():
            warnings.simplefilter("ignore")
            sl = parent[r0:r1, c0:c1]
            targets = [("never_sliced", parent, (0, 0), None),
                       ("slice", sl, (r0, c0), f"parent[{r0}:{r1}, {c0}:{c1}]"),
                       ("slice_of_slice", sl[a0:a1, b0:b1], (r0 + a0, c0 + b0), f"parent[{r0}:{r1}, {c0}:{c1}][{a0}:{a1}, {b0}:{b1}]"),
                       ("slice_rows_only", parent[rr0:H, 0:W], (rr0, 0), f"parent[{rr0}:{H}, 0:{W}]"),
                       ("slice_cols_only", parent[0:H, cc0:W], (0, cc0), f"parent[0:{H}, {cc0}:{W}]")]
        if ctx.quick:
            targets = targets[:3] + [targets[3 + k % 2]]
        chunk_rows = rps * rng.choice([2, 4])
        sw_np = SwathDefinition(lons, lats)
        pc, pr = _frac_cell(parent, lons, lats)
        for tname, target, (off_r, off_c), how in targets:
            th, tw = target.shape
            with warnings.catch_warnings():
                warnings.simplefilter("ignore")
                rebuilt = AreaDefinition("rebuilt", "rebuilt", "rebuilt", proj, tw, th, tuple(target.area_extent))
            fc, fr = _frac_cell(target, lons, lats)
            base = {"parent": kind, "parent_proj": proj, "parent_shape": [H, W], "parent_extent": [float(v) for v in parent.area_extent], "target": tname,
                    "target_is": how or "the parent itself", "target_shape": [th, tw], "target_extent": [float(v) for v in target.area_extent],
                    "crop_offset": list(getattr(target, "crop_offset", (0, 0))), "swath_shape": list(lons.shape), "rows_per_scan": rps}
            # the slice's own grid: cell (r, c) of the slice is cell (r + r0, c + c0) of the parent
            if not (np.allclose(fc, pc - off_c, atol=1e-6, rtol=0) and np.allclose(fr, pr - off_r, atol=1e-6, rtol=0)):
                ctx.fail("AreaDefinition.__getitem__", "the extent of the sliced area does not put its cell (r, c) on the parent's cell (r + r0, c + c0)", base,
                         {"max_col_diff": float(np.nanmax(np.abs(fc - (pc - off_c)))), "max_row_diff": float(np.nanmax(np.abs(fr - (pr - off_r))))}, size=10)
                continue
            chunkings = [None, (max(4, th // rng.choice([2, 3]) + 1), max(4, tw // rng.choice([2, 3]) + 1))]
            for chunks in chunkings:
                inp = {**base, "output_chunks": list(chunks) if chunks else None}
                tags = {"cause": "ewa-sliced-target", "target": tname, "chunks": "several" if chunks else "one"}
                key = (kind, tuple(target.area_extent), th, tw, tname, chunks)
                outs = {}
                try:
                    with warnings.catch_warnings():
                        warnings.simplefilter("ignore")
                        for which, tgt in (("target", target), ("rebuilt", rebuilt)):
                            sw = SwathDefinition(da.from_array(lons, chunks=(chunk_rows, lons.shape[1])), da.from_array(lats, chunks=(chunk_rows, lons.shape[1])))
                            rs = DaskEWAResampler(sw, tgt)
                            rs.precompute(rows_per_scan=rps)
                            cr = np.asarray(rs.cache["ll2cr_result"].compute())
                            res = []
                            for field in (fc, fr):
                                kw = {"rows_per_scan": rps, "weight_delta_max": 10.0}
                                if chunks:
                                    kw["chunks"] = chunks
                                o = rs.resample(da.from_array(field.astype(np.float64), chunks=(chunk_rows, lons.shape[1])), **kw)
                                res.append(np.asarray(dask.compute(o)[0], dtype=np.float64))
                            outs[which] = (cr, res)
                        _, lc, lr = ll2cr(sw_np, target)
                        ac, ar = target.get_array_coordinates_from_lonlat(lons, lats)
                except Exception as e:  # noqa
                    ctx.fail("ewa.DaskEWAResampler.resample", f"raised {type(e).__name__}: {str(e)[:160]}", inp, tags=tags, size=10)
                    ctx.case("ewa_sliced", key, nontrivial=tname != "never_sliced")
                    continue
                cr, (ocol, orow) = outs["target"]
                # (1) the mapping kept by precompute = ewa.ll2cr on the target = the target's own array coordinates = first principles
                probs = []
                if cr.shape != (2,) + lons.shape:
                    probs.append(f"mapping has shape {cr.shape}")
                else:
                    if not (np.array_equal(cr[0], lc, equal_nan=True) and np.array_equal(cr[1], lr, equal_nan=True)):
                        probs.append("columns/rows differ from ewa.ll2cr(swath, target)")
                    if not (np.allclose(cr[0], ac, atol=1e-6, rtol=1e-9) and np.allclose(cr[1], ar, atol=1e-6, rtol=1e-9)):
                        probs.append("columns/rows differ from the target's own get_array_coordinates_from_lonlat")
                    if not (np.allclose(cr[0], fc, atol=1e-6, rtol=1e-9) and np.allclose(cr[1], fr, atol=1e-6, rtol=1e-9)):
                        probs.append(f"columns/rows differ from the cell computed from the target's extent (by up to {float(np.nanmax(np.abs(cr[0] - fc))):.3f} columns, "
                                     f"{float(np.nanmax(np.abs(cr[1] - fr))):.3f} rows)")
                if probs:
                    ctx.fail("ewa.DaskEWAResampler.precompute", "swath-to-grid mapping of the dask resampler: " + "; ".join(probs), inp, tags=tags, size=10)
                # (2) the values of the points arrive in the cells that contain the points: a swath carrying each point's fractional column (row)
                #     on the target grid must give ~c (~r) in cell (r, c); EWA averages the points around the cell
                probs = []
                obs = {}
                for what, out, axis in (("column", ocol, 1), ("row", orow, 0)):
                    if out.shape != (th, tw):
                        probs.append(f"{what} field: result has shape {out.shape}, the target {(th, tw)}")
                        continue
                    inner = (slice(2, th - 2), slice(2, tw - 2))
                    exp = np.indices((th, tw))[axis].astype(np.float64)[inner]
                    got = out[inner]
                    fin = np.isfinite(got)
                    obs[f"{what}_cells_filled"] = float(fin.mean())
                    if fin.mean() < 0.99:
                        probs.append(f"only {100 * fin.mean():.1f}% of the interior cells received data although the swath covers the whole area ({what} field)")
                    if not fin.any():
                        continue
                    err = float(np.abs(got[fin] - exp[fin]).max())
                    obs[f"{what}_max_error_cells"] = err
                    if err > 0.5:
                        j = int(np.argmax(np.abs(np.where(fin, got - exp, 0.0))))
                        rr_, cc_ = np.unravel_index(j, got.shape)
                        probs.insert(0, f"cell ({rr_ + 2}, {cc_ + 2}) received points whose {what} on the target grid is {got[rr_, cc_]:.2f} (off by up to {err:.2f} cells)")
                # (3) same cells, same result as for an area with this extent and shape that was never sliced
                rcr, (rcol, rrow) = outs["rebuilt"]
                if not probs and not (rcol.shape == ocol.shape and np.allclose(ocol, rcol, atol=1e-3, rtol=0, equal_nan=True) and np.allclose(orow, rrow, atol=1e-3, rtol=0, equal_nan=True)):
                    probs.append("the result differs from the result for an area with the same extent and shape built from scratch")
                if probs:
                    ctx.fail("ewa.DaskEWAResampler.resample", f"target {how or 'never sliced'} ({'several output chunks' if chunks else 'one output chunk'}): " + "; ".join(probs[:3]),
                             inp, obs, tags=tags, size=10)
                ctx.case("ewa_sliced", key, nontrivial=tname != "never_sliced", sample={"input": {k_: v for k_, v in inp.items() if k_ != "parent_proj"}, **obs} if chunks else None)
                ctx.count(f"ewa_sliced.{tname}.{'several_chunks' if chunks else 'one_chunk'}")


# ---------------------------------------------------------------------------------------------
# geographic (lon/lat) areas and longitudes written outside [-180, 180)
# ---------------------------------------------------------------------------------------------

def _geographic_areas(ctx):
    from pyresample.geometry import AreaDefinition
    r = ctx.rng
    out = []
    with warnings.catch_warnings():
        warnings.simplefilter("ignore")
        d = r.choice([2.5, 5.0, 10.0])
        out.append(("global_epsg4326", AreaDefinition("g", "g", "g", "EPSG:4326", int(360 / d), int(180 / d), (-180.0, -90.0, 180.0, 90.0)), True))
        w, h = r.randrange(8, 40), r.randrange(6, 30)
        res = r.choice([0.25, 0.5, 1.0])
        lat0 = r.uniform(-60, 40)
        out.append(("ends_at_antimeridian", AreaDefinition("e", "e", "e", "EPSG:4326", w, h, (180.0 - w * res, lat0, 180.0, lat0 + h * res)), False))
        out.append(("starts_at_antimeridian", AreaDefinition("s", "s", "s", {"proj": "longlat", "datum": "WGS84"}, w, h, (-180.0, lat0, -180.0 + w * res, lat0 + h * res)), False))
        lon0 = r.uniform(-170, 120)
        out.append(("regional_sphere", AreaDefinition("r", "r", "r", "+proj=longlat +R=6371229", w, h, (lon0, lat0, lon0 + w * res, lat0 + h * res)), False))
        pm = r.choice([180.0, 90.0, -75.0, 20.0])
        out.append((f"global_pm_{pm:g}", AreaDefinition("p", "p", "p", f"+proj=longlat +ellps=WGS84 +pm={pm:g}", 36, 18, (-180.0, -90.0, 180.0, 90.0)), True))
        out.append((f"regional_pm_{pm:g}", AreaDefinition("q", "q", "q", f"+proj=longlat +ellps=WGS84 +pm={pm:g}", w, h,
                                                            (-20.0, lat0, -20.0 + w * res, lat0 + h * res)), False))
        # projected controls: longitudes are periodic for them too
        out.append(("control_eqc", AreaDefinition("c", "c", "c", "+proj=eqc +lon_0=0 +ellps=WGS84", 72, 36, (-20037508.34, -10018754.17, 20037508.34, 10018754.17)), True))
        out.append(("control_laea", AreaDefinition("l", "l", "l", {"proj": "laea", "lat_0": r.uniform(-50, 60), "lon_0": r.choice([175.0, -178.0, 10.0]), "ellps": "WGS84"},
                                                   w, h, (-w * 40000.0, -h * 40000.0, w * 40000.0, h * 40000.0)), False))
    return out


def run_geographic_wrapped(ctx):
    """Longitudes are periodic: a point written as lon, lon + 360, lon - 360 or in the 0..360 convention is the same point.  On lon/lat
    grids (global, regional next to the antimeridian, on a sphere, with another prime meridian) the area's own index lookup (array and
    scalar form, integer and fractional), get_linesample, GridFilter and the bucket indices all put it in the cell that contains its
    projected position, computed here from first principles (pyproj.Proj(area.crs) + arithmetic on the extent), or in none."""
    import dask.array as da
    from pyproj import Proj
    from pyresample import geo_filter, geometry, grid
    from pyresample.bucket import BucketResampler
    rs = np.random.default_rng(ctx.rng.randrange(2 ** 31))
    for name, area, is_global in _geographic_areas(ctx):
        W, H = area.width, area.height
        x0, y0, x1, y1 = area.area_extent
        px, py = (x1 - x0) / W, (y1 - y0) / H
        with warnings.catch_warnings():
            warnings.simplefilter("ignore")
            p = Proj(area.crs)
        n = 30 if ctx.quick else 120
        xs = np.concatenate([rs.uniform(x0 - px, x0 + px, n), rs.uniform(x1 - px, x1 + px, n), rs.uniform(x0, x1, 2 * n), rs.uniform(x0, x1, 2 * n)])
        ys = np.concatenate([rs.uniform(y0, y1, 2 * n), rs.uniform(y0 - py, y0 + py, n), rs.uniform(y1 - py, y1 + py, n), rs.uniform(y0, y1, 2 * n)])
        elon, elat = p(xs, ys, inverse=True)
        ok = np.isfinite(elon) & np.isfinite(elat) & (np.abs(elat) < 89.9)
        elon, elat = np.asarray(elon)[ok], np.asarray(elat)[ok]
        glon, glat = rs.uniform(-180, 180, 2 * n), rs.uniform(-89, 89, 2 * n)
        lons = np.concatenate([elon, elon + 360.0, elon - 360.0, elon % 360.0, glon, glon % 360.0, glon + 360.0, glon - 360.0 * rs.integers(1, 3, glon.size)])
        lats = np.concatenate([elat, elat, elat, elat, glat, glat, glat, glat])
        conv = np.concatenate([np.full(elon.size, "as_is"), np.full(elon.size, "plus_360"), np.full(elon.size, "minus_360"), np.full(elon.size, "0_to_360"),
                               np.full(glon.size, "as_is"), np.full(glon.size, "0_to_360"), np.full(glon.size, "plus_360"), np.full(glon.size, "minus_turns")])
        # ground truth; keep the points that are clear of every cell border (0.1 px): border conventions and the lookup's 0.02 px tolerance do not matter
        with warnings.catch_warnings():
            warnings.simplefilter("ignore")
            tx, ty = p(lons, lats)
        fc = (np.asarray(tx) - x0) / px
        fr = (y1 - np.asarray(ty)) / py
        with np.errstate(invalid="ignore"):
            clear = np.isfinite(fc) & np.isfinite(fr) & (np.abs(fc - np.round(fc)) > 0.1) & (np.abs(fr - np.round(fr)) > 0.1)
        lons, lats, conv, fc, fr = lons[clear], lats[clear], conv[clear], fc[clear], fr[clear]
        col, row = np.floor(fc).astype(int), np.floor(fr).astype(int)
        inside = (col >= 0) & (col < W) & (row >= 0) & (row < H)
        t_row, t_col = np.where(inside, row, -1), np.where(inside, col, -1)
        npts = lons.size
        got = {}
        with warnings.catch_warnings():
            warnings.simplefilter("ignore")
            try:
                cx, cy = area.get_array_indices_from_lonlat(lons, lats)
                m = np.ma.getmaskarray(cx) | np.ma.getmaskarray(cy)
                got["AreaDefinition.get_array_indices_from_lonlat"] = (np.where(m, -1, np.ma.getdata(cy)), np.where(m, -1, np.ma.getdata(cx)))
                ax, ay = area.get_array_coordinates_from_lonlat(lons, lats)
                ac, ar = np.floor(np.asarray(ax, float) + 0.5).astype(int), np.floor(np.asarray(ay, float) + 0.5).astype(int)
                ins = (ac >= 0) & (ac < W) & (ar >= 0) & (ar < H)
                got["AreaDefinition.get_array_coordinates_from_lonlat"] = (np.where(ins, ar, -1), np.where(ins, ac, -1))
                sub = np.arange(0, npts, max(1, npts // (60 if ctx.quick else 300)))
                srow, scol = t_row.copy(), t_col.copy()
                for i in sub:
                    try:
                        c_, r_ = area.get_array_indices_from_lonlat(float(lons[i]), float(lats[i]))
                        srow[i], scol[i] = int(r_), int(c_)
                    except ValueError:
                        srow[i], scol[i] = -1, -1
                got["AreaDefinition.get_array_indices_from_lonlat (scalar)"] = (srow, scol)
                rows_, cols_ = grid.get_linesample(lons.reshape(1, -1), lats.reshape(1, -1), area)
                rows_, cols_ = np.asarray(rows_).ravel().astype(int), np.asarray(cols_).ravel().astype(int)
                ins = (cols_ >= 0) & (cols_ < W) & (rows_ >= 0) & (rows_ < H)
                got["grid.get_linesample"] = (np.where(ins, rows_, -1), np.where(ins, cols_, -1))
                cellid = (np.arange(H * W).reshape(H, W) + 1).astype(np.int64)
                swath = geometry.SwathDefinition(lons.reshape(1, -1), lats.reshape(1, -1))
                allv = geo_filter.GridFilter(area, np.ones((H, W), bool)).get_valid_index(swath).ravel()
                ids = np.zeros(npts, dtype=np.int64)
                for b in range(max(1, int(H * W).bit_length())):
                    ids |= geo_filter.GridFilter(area, ((cellid >> b) & 1).astype(bool)).get_valid_index(swath).ravel().astype(np.int64) << b
                gr, gc = np.divmod(np.maximum(ids - 1, 0), W)
                got["geo_filter.GridFilter.get_valid_index"] = (np.where(allv & (ids > 0), gr, -1), np.where(allv & (ids > 0), gc, -1))
                br = BucketResampler(area, da.from_array(lons, chunks=max(1, npts // 3)), da.from_array(lats, chunks=max(1, npts // 3)))
                bx, by = np.asarray(br.x_idxs).astype(int), np.asarray(br.y_idxs).astype(int)
                ins = (bx >= 0) & (by >= 0)
                got["BucketResampler._get_indices"] = (np.where(ins, by, -1), np.where(ins, bx, -1))
            except Exception as e:  # noqa
                ctx.fail("AreaDefinition.get_array_indices_from_lonlat" if not got else "grid.get_linesample",
                         f"placing points on the lon/lat area {name} raised {type(e).__name__}: {str(e)[:160]}",
                         {"area": name, "proj": area.proj_dict, "shape": [H, W], "extent": [float(v) for v in area.area_extent]}, tags={"cause": "geographic-wrapped"}, size=5)
        for site, (rws, cls) in got.items():
            bad = np.flatnonzero((np.asarray(rws) != t_row) | (np.asarray(cls) != t_col))
            if bad.size:
                i = int(bad[0])
                by_conv = {cv: int((conv[bad] == cv).sum()) for cv in sorted(set(conv[bad].tolist()))}
                ctx.fail(site.replace(" (scalar)", ""), f"lon/lat area {name}{' (scalar call)' if 'scalar' in site else ''}: {bad.size} of {npts} points in the wrong cell, e.g. lon={lons[i]:.4f} "
                         f"lat={lats[i]:.4f} ({conv[i]}) -> (row, col) = ({int(rws[i])}, {int(cls[i])}) but its projected position (x={float(fc[i] * px + x0):.4f}, "
                         f"y={float(y1 - fr[i] * py):.4f}) lies in ({int(t_row[i])}, {int(t_col[i])})   [-1 = no cell]",
                         {"area": name, "proj": area.proj_dict, "shape": [H, W], "extent": [float(v) for v in area.area_extent], "lon": float(lons[i]), "lat": float(lats[i]),
                          "longitude_convention": str(conv[i])},
                         {"returned": [int(rws[i]), int(cls[i])], "expected": [int(t_row[i]), int(t_col[i])], "wrong_by_convention": by_conv},
                         tags={"cause": "geographic-wrapped", "module": site, "area": name.split("_pm_")[0]}, size=5)
            for i in (sub if "scalar" in site else range(npts)):
                ctx.case("geographic." + site.split(".")[-1].replace(" (scalar)", "_scalar"), (name, float(lons[i]), float(lats[i])),
                         nontrivial=conv[i] != "as_is" or not inside[i])
        ctx.count("geographic.areas")
        for cv in sorted(set(conv.tolist())):
            ctx.count(f"geographic.longitudes.{cv}", int((conv == cv).sum()))
        ctx.count(f"geographic.{name.split('_pm_')[0]}.inside", int(inside.sum()))
        ctx.count(f"geographic.{name.split('_pm_')[0]}.outside", int((~inside).sum()))


def run(ctx):
    run_quick_linesample(ctx)
    for name, area, exact in _areas(ctx):
        run_area(ctx, name, area, exact)
        ctx.count("areas")
    run_ewa_sliced(ctx)
    run_geographic_wrapped(ctx)
