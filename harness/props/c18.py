"""C18 — every module assigns a point to the same grid cell, or to none.

Seven observation points on shared areas and point lattices (pixel centres, every cell border, up to two
pixels outside each edge, the 0.02-px tolerance band).  For each module the projected position is obtained
with the same pyproj call the module makes (parameter class) and sent to the Lean model as an exact rational."""
import warnings
from fractions import Fraction

import numpy as np


META = {
    "rule": "one case = (area, point, module). Points: quarter-pixel lattice from 2 px outside to 2 px inside "
            "every edge + pixel centres + the +-0.01/0.03 px bands around the outer edges, mapped to lon/lat by "
            "the inverse projection; for geographic (longlat) areas lon/lat are nudged by ulps so that the "
            "module's own forward projection lands exactly on the lattice (exact borders). Non-trivial: the "
            "point lies within 1 px of a cell border or outside the area. Distinct = distinct (area, x', y', module).",
    "assumptions": ["float evaluation of (x-x0)/dx equals the exact quotient whenever the exact fractional index is "
                    "more than 1e-9 px away from an integer; inside that band either adjacent cell is accepted "
                    "unless the position is exactly on the border of an exact-class (dyadic) area"],
}

GUARD = Fraction(1, 10 ** 9)


def _areas(ctx):
    from pyresample.geometry import AreaDefinition
    specs = [
        # (name, proj, w, h, extent, exact-class?)
        ("ll_8x4", {"proj": "longlat", "datum": "WGS84"}, 8, 4, (-8.0, -2.0, 8.0, 6.0), True),
        ("ll_1x1", {"proj": "longlat", "datum": "WGS84"}, 1, 1, (10.0, 20.0, 12.0, 21.0), True),
        ("ll_5x3_quarter", {"proj": "longlat", "datum": "WGS84"}, 5, 3, (-1.25, 40.0, 0.0, 40.75), True),
        ("ll_nonsq", {"proj": "longlat", "datum": "WGS84"}, 4, 16, (100.0, -8.0, 116.0, 0.0), True),
        ("eqc_4x4", {"proj": "eqc", "lon_0": 0, "ellps": "WGS84"}, 4, 4, (0.0, 0.0, 400000.0, 400000.0), False),
        ("merc_6x5", {"proj": "merc", "lon_0": 10, "ellps": "WGS84"}, 6, 5, (-300000.0, 5000000.0, 300000.0, 5600000.0), False),
        ("laea_7x9", {"proj": "laea", "lat_0": 60, "lon_0": 20, "ellps": "WGS84"}, 7, 9, (-350000.0, -450000.0, 350000.0, 450000.0), False),
        ("stere_n", {"proj": "stere", "lat_0": 90, "lat_ts": 60, "lon_0": 0, "ellps": "WGS84"}, 5, 5, (-1000000.0, -3500000.0, 1500000.0, -1000000.0), False),
    ]
    if not ctx.quick:
        specs += [
            ("ll_16x16", {"proj": "longlat", "datum": "WGS84"}, 16, 16, (-16.0, -16.0, 16.0, 16.0), True),
            ("utm33", {"proj": "utm", "zone": 33, "ellps": "WGS84"}, 9, 4, (300000.0, 6000000.0, 750000.0, 6200000.0), False),
            ("lcc", {"proj": "lcc", "lat_1": 30, "lat_2": 60, "lat_0": 45, "lon_0": 10, "ellps": "WGS84"}, 6, 6, (-600000.0, -600000.0, 600000.0, 600000.0), False),
            ("stere_s", {"proj": "stere", "lat_0": -90, "lat_ts": -70, "lon_0": 0, "ellps": "WGS84"}, 4, 7, (-800000.0, -700000.0, 0.0, 700000.0), False),
        ]
        for k in range(6):
            w, h = ctx.rng.randrange(1, 12), ctx.rng.randrange(1, 12)
            x0 = ctx.rng.uniform(-2e6, 2e6)
            y0 = ctx.rng.uniform(-2e6, 2e6)
            specs.append((f"rand_laea_{k}", {"proj": "laea", "lat_0": ctx.rng.uniform(-60, 60), "lon_0": ctx.rng.uniform(-170, 170),
                                             "ellps": "WGS84"}, w, h,
                          (x0, y0, x0 + w * ctx.rng.uniform(500, 50000), y0 + h * ctx.rng.uniform(500, 50000)), False))
    out = []
    with warnings.catch_warnings():
        warnings.simplefilter("ignore")
        for name, proj, w, h, ext, exact in specs:
            out.append((name, AreaDefinition(name, name, name, proj, w, h, ext), exact))
    return out


def _lattice(area):
    """projection-coordinate lattice around and inside the grid"""
    x0, y0, x1, y1 = area.area_extent
    dx, dy = area.pixel_size_x, area.pixel_size_y
    W, H = area.width, area.height

    def axis(n):
        if n <= 6:
            base = np.arange(-2, n + 2.01, 0.25)
        else:   # both ends + a few interior cells
            base = np.concatenate([np.arange(-2, 2.01, 0.25), np.arange(n // 2 - 0.5, n // 2 + 1.01, 0.25),
                                   np.arange(n - 2, n + 2.01, 0.25)])
        band = np.array([-0.03, -0.01, 0.01, 0.03])
        return np.unique(np.concatenate([base, band, n + band]))
    us, vs = axis(W), axis(H)
    U, V = np.meshgrid(us, vs)
    return x0 + U.ravel() * dx, y1 - V.ravel() * dy


def _nudge_exact(fwd, lons, lats, xt, yt):
    """nudge lon/lat by a few ulps so that fwd(lon, lat) == (xt, yt) exactly where possible"""
    lons, lats = lons.copy(), lats.copy()
    for arr, tgt, idx in ((lons, xt, 0), (lats, yt, 1)):
        cur = fwd(lons, lats)[idx]
        for _ in range(6):
            bad = cur != tgt
            if not bad.any():
                break
            arr[bad] = np.where(cur[bad] < tgt[bad], np.nextafter(arr[bad], np.inf), np.nextafter(arr[bad], -np.inf))
            cur = fwd(lons, lats)[idx]
    return lons, lats


class Case:
    def __init__(self, ctx, name, area, exact):
        self.ctx, self.name, self.area, self.exact = ctx, name, area, exact
        self.g = [Fraction(float(v)) for v in area.area_extent] + [area.width, area.height]

    def model(self, xs, ys):
        """ask the model for every point; returns list of dicts"""
        out = []
        M = self.ctx.M
        for x, y in zip(xs, ys):
            rep = M.ask("cells", *self.g, Fraction(float(x)), Fraction(float(y)))
            d = dict(t.split("=", 1) for t in rep.split())
            out.append(d)
        return out


def _cell(s):
    return None if s == "none" else tuple(int(v) for v in s.split(","))


def _frac_guard(d):
    fx, fy = (Fraction(v) for v in d["fx"].split(","))
    gx = abs(fx - round(fx))
    gy = abs(fy - round(fy))
    return fx, fy, gx, gy


def _oracle(case, fx, fy, cell, module, eps=Fraction(0)):
    """the property itself on one module's answer; fx, fy exact fractional positions ((x-x0)/dx, (y1-y)/dy)"""
    W, H = case.area.width, case.area.height
    if cell is not None:
        r, c = cell
        if not (0 <= r < H and 0 <= c < W):
            return f"{module} returned cell {cell} outside the grid"
        okx = (c - (eps if c == 0 else 0) <= fx <= c + 1 + (eps if c == W - 1 else 0))
        oky = (r - (eps if r == 0 else 0) <= fy <= r + 1 + (eps if r == H - 1 else 0))
        if not (okx and oky):
            return f"{module} attributes the point to cell {cell} whose extent does not contain it (frac idx {float(fx):.4f},{float(fy):.4f})"
    else:
        if 0 < fx < W and 0 < fy < H and fx != int(fx) and fy != int(fy):
            return f"{module} attributes an interior point to no cell (frac idx {float(fx):.4f},{float(fy):.4f})"
    return None


def _accept(case, d, got, want, exact_pt):
    """got == want, or within the guard band of a border where either neighbour is fine"""
    if got == want:
        return True
    fx, fy, gx, gy = _frac_guard(d)
    near = (gx < GUARD) or (gy < GUARD)
    if not near:
        return False
    if exact_pt and case.exact:
        return False
    return True


def run_area(ctx, name, area, exact):
    import dask.array as da
    import pyproj
    from pyproj import Proj
    from pyresample import geo_filter, geometry, grid, image
    from pyresample.bucket import BucketResampler
    from pyresample.ewa import ll2cr
    case = Case(ctx, name, area, exact)
    W, H = area.width, area.height
    xt, yt = _lattice(area)
    inv = pyproj.Transformer.from_crs(area.crs.geodetic_crs, area.crs, always_xy=True)
    lons, lats = inv.transform(xt, yt, direction="INVERSE")
    ok = np.isfinite(lons) & np.isfinite(lats) & (np.abs(lats) <= 90) & (np.abs(lons) <= 180)
    lons, lats, xt, yt = lons[ok], lats[ok], xt[ok], yt[ok]
    with warnings.catch_warnings():
        warnings.simplefilter("ignore")
        p_dict = Proj(**area.proj_dict)
        p_crs = Proj(area.crs)
        p_bucket = Proj(area.proj_dict)
    if exact:
        lons, lats = _nudge_exact(lambda a, b: p_crs(a, b), lons, lats, xt, yt)
    n = lons.size
    lon2, lat2 = lons.reshape(1, n), lats.reshape(1, n)
    cellid = (np.arange(H * W).reshape(H, W) + 1).astype(np.int64)

    def fwd(p):
        x, y = p(lons, lats)
        return np.asarray(x, dtype=float), np.asarray(y, dtype=float)

    results = {}   # module -> (xs, ys, list of cell-or-None, extra)
    with warnings.catch_warnings():
        warnings.simplefilter("ignore")
        # 1 get_linesample
        rows, cols = grid.get_linesample(lon2, lat2, area)
        xs, ys = fwd(p_dict)
        results["linesample"] = (xs, ys, [(int(r), int(c)) for r, c in zip(rows.ravel(), cols.ravel())])
        # 1b the same points as a 2-D array in another memory order, projected by worker processes: same cells, point by point
        if n >= 6 and ctx.rng.random() < (0.35 if ctx.quick else 0.7):
            b_ = n // 2
            lonC, latC = lons[:2 * b_].reshape(2, b_), lats[:2 * b_].reshape(2, b_)
            # reference: the same worker-process path on the C-ordered array (border ties may differ between Proj and Proj_MP, memory order may not)
            r1, c1 = grid.get_linesample(lonC, latC, area, nprocs=2)
            for order_name, conv in (("F-ordered", np.asfortranarray), ("transposed-view", lambda a_: np.ascontiguousarray(a_.T).T)):
                r2, c2 = grid.get_linesample(conv(lonC), conv(latC), area, nprocs=2)
                ctx.count("linesample.nprocs2." + order_name)
                if not (np.array_equal(np.ma.filled(r1, -9), np.ma.filled(r2, -9)) and np.array_equal(np.ma.filled(c1, -9), np.ma.filled(c2, -9))):
                    k_ = int(np.flatnonzero((np.ma.filled(r1, -9) != np.ma.filled(r2, -9)).ravel() | (np.ma.filled(c1, -9) != np.ma.filled(c2, -9)).ravel())[0])
                    ctx.fail("grid.get_linesample", f"{order_name} 2-D lon/lat arrays with nprocs=2: point {k_} ({float(lonC.ravel()[k_]):.5f}, {float(latC.ravel()[k_]):.5f}) is attributed to "
                             f"(row {np.ma.filled(r2, -9).ravel()[k_]}, col {np.ma.filled(c2, -9).ravel()[k_]}) but to (row {np.ma.filled(r1, -9).ravel()[k_]}, col {np.ma.filled(c1, -9).ravel()[k_]}) "
                             f"with the C-ordered array", {"area": name, "shape": [H, W], "extent": [float(v) for v in area.area_extent], "memory_order": order_name,
                                                                            "lons": lonC.tolist(), "lats": latC.tolist()}, tags={"cause": "memory-order-mp"}, size=n)
        # 2 get_image_from_lonlats (cell id image, fill 0)
        img = grid.get_image_from_lonlats(lon2, lat2, area, cellid, fill_value=0).ravel()
        results["image_from_lonlats"] = (xs, ys, [None if v == 0 else divmod(int(v) - 1, W) for v in img])
        # 3 GridFilter: reconstruct the cell id bit by bit
        nbits = max(1, int(H * W).bit_length())
        swath = geometry.SwathDefinition(lon2, lat2)
        allv = geo_filter.GridFilter(area, np.ones((H, W), bool)).get_valid_index(swath).ravel()
        ids = np.zeros(n, dtype=np.int64)
        for b in range(nbits):
            f = ((cellid >> b) & 1).astype(bool)
            ids |= geo_filter.GridFilter(area, f).get_valid_index(swath).ravel().astype(np.int64) << b
        xs3, ys3 = fwd(p_crs)
        results["gridfilter"] = (xs3, ys3, [divmod(int(v) - 1, W) if a else None for v, a in zip(ids, allv)])
        bad = [(bool(a), int(v)) for v, a in zip(ids, allv) if (not a and v != 0) or (a and v == 0)]
        if bad:
            ctx.fail("geo_filter.GridFilter.get_valid_index", "filter value read for a point reported outside (or none for one inside)",
                     {"area": name}, bad[:3])
        # 4 bucket
        br = BucketResampler(area, da.from_array(lons, chunks=max(1, n // 3)), da.from_array(lats, chunks=max(1, n // 3)))
        xi, yi = np.asarray(br.x_idxs), np.asarray(br.y_idxs)
        xs4, ys4 = fwd(p_bucket)
        results["bucket"] = (xs4, ys4, [None if (a < 0 or b < 0) else (int(b), int(a)) for a, b in zip(xi, yi)])
        if ((xi < 0) != (yi < 0)).any():
            ctx.fail("BucketResampler._get_indices", "x_idxs and y_idxs disagree on which points are outside", {"area": name})
        # 5 area index lookup (array form)
        cx, cy = area.get_array_indices_from_lonlat(lons, lats)
        mx, my = np.ma.getmaskarray(cx), np.ma.getmaskarray(cy)
        results["area_indices"] = (xs3, ys3, [None if (a or b) else (int(r), int(c))
                                              for a, b, r, c in zip(mx, my, np.ma.getdata(cy), np.ma.getdata(cx))])
        area_raw = list(zip(my, np.ma.getdata(cy), mx, np.ma.getdata(cx)))
        # 5b scalar form on a subset
        sub = list(range(0, n, max(1, n // 60)))
        scal = {}
        for i in sub:
            try:
                c, r = area.get_array_indices_from_lonlat(float(lons[i]), float(lats[i]))
                scal[i] = (int(r), int(c))
            except ValueError:
                scal[i] = None
        # 6 ll2cr
        sw = geometry.SwathDefinition(lon2.copy(), lat2.copy())
        cnt, lc, lr = ll2cr(sw, area)
        t = pyproj.Transformer.from_crs(sw.crs, area.crs, always_xy=True)
        xs6, ys6 = t.transform(lons, lats)
        results["ll2cr"] = (np.asarray(xs6), np.asarray(ys6), list(zip(lc.ravel(), lr.ravel())))
        # 6b the same mapping through the dask EWA resampler (what satpy uses): same columns / rows, also when the (cached) mapping is
        #    evaluated a second time, and the caller's lon/lat arrays are left alone
        if True:
            import xarray as xr
            from pyresample.ewa import DaskEWAResampler
            lon_in, lat_in = lon2.copy(), lat2.copy()
            nch = ctx.rng.choice([n, n, max(1, n // 2)])
            if ctx.rng.random() < 0.5:
                sw_d = geometry.SwathDefinition(xr.DataArray(da.from_array(lon_in, chunks=(1, nch)), dims=("y", "x"), attrs={"rows_per_scan": 1}),
                                                xr.DataArray(da.from_array(lat_in, chunks=(1, nch)), dims=("y", "x")))
            else:
                sw_d = geometry.SwathDefinition(da.from_array(lon_in, chunks=(1, nch)), da.from_array(lat_in, chunks=(1, nch)))
            try:
                rs_d = DaskEWAResampler(sw_d, area)
                rs_d.precompute(rows_per_scan=1)
                for rep_ in (1, 2):
                    cr = np.asarray(rs_d.cache["ll2cr_result"].compute())
                    ctx.count("ll2cr.dask_path")
                    same = cr.shape == (2,) + lc.shape and np.array_equal(cr[0], lc, equal_nan=True) and np.array_equal(cr[1], lr, equal_nan=True)
                    untouched = np.array_equal(lon_in, lon2, equal_nan=True) and np.array_equal(lat_in, lat2, equal_nan=True)
                    if not same or not untouched:
                        nd = int((~((cr[0] == lc) | (np.isnan(cr[0]) & np.isnan(lc)))).sum()) if cr.shape == (2,) + lc.shape else -1
                        ctx.fail("ewa.DaskEWAResampler.precompute", f"evaluation {rep_} of the dask resampler's swath-to-grid mapping: "
                                 + (f"{nd} of {n} points get other columns/rows than ewa.ll2cr gives them" if not same else "")
                                 + ("; the lon/lat arrays given by the caller were overwritten" if not untouched else ""),
                                 {"area": name, "shape": [H, W], "extent": [float(v) for v in area.area_extent], "n_points": n, "evaluation": rep_},
                                 tags={"cause": "dask-ll2cr"}, size=n)
                        break
            except Exception as e:  # noqa
                ctx.fail("ewa.DaskEWAResampler.precompute", f"raised {type(e).__name__}: {str(e)[:120]}", {"area": name, "n_points": n}, size=n)
        # 4b the bucket resampler's statistics place a point where its index arrays say (or nowhere): per-cell max / min of point ids
        try:
            ids_ = np.arange(1, n + 1, dtype=np.float64)
            exp_max = np.full((H, W), np.nan)
            exp_min = np.full((H, W), np.nan)
            for k_, (a_, b_) in enumerate(zip(xi, yi)):
                if a_ >= 0 and b_ >= 0:
                    exp_max[b_, a_] = ids_[k_] if np.isnan(exp_max[b_, a_]) else max(exp_max[b_, a_], ids_[k_])
                    exp_min[b_, a_] = ids_[k_] if np.isnan(exp_min[b_, a_]) else min(exp_min[b_, a_], ids_[k_])
            d_ids = da.from_array(ids_, chunks=max(1, n // 3))
            for stat, exp_ in (("get_max", exp_max), ("get_min", exp_min)):
                got_ = np.asarray(getattr(br, stat)(d_ids))
                ctx.count(f"bucket.{stat}")
                if got_.shape != exp_.shape or not np.array_equal(got_, exp_, equal_nan=True):
                    bad_ = np.argwhere(~((got_ == exp_) | (np.isnan(got_) & np.isnan(exp_)))) if got_.shape == exp_.shape else []
                    c_ = tuple(int(v) for v in bad_[0]) if len(bad_) else None
                    ctx.fail(f"BucketResampler.{stat}", f"{stat} of the point ids: cell {c_} holds {got_[c_] if c_ else None} but the points the index arrays put there give "
                             f"{exp_[c_] if c_ else None} ({len(bad_)} cells differ; {int(((xi < 0) | (yi < 0)).sum())} of {n} points are outside the area)",
                             {"area": name, "shape": [H, W], "extent": [float(v) for v in area.area_extent], "n_points": n, "statistic": stat}, tags={"cause": "bucket-stat-placement"}, size=n)
        except Exception as e:  # noqa
            ctx.fail("BucketResampler.get_max", f"raised {type(e).__name__}: {str(e)[:120]}", {"area": name, "n_points": n}, size=n)
        # 7 ImageContainerQuick onto a shifted/scaled target area in the same CRS
        tw, th = min(W + 3, 9), min(H + 3, 9)
        dx, dy = area.pixel_size_x, area.pixel_size_y
        x0, y0, x1, y1 = area.area_extent
        text = (x0 - 1.25 * dx, y0 - 0.75 * dy, x0 - 1.25 * dx + tw * dx * 0.75, y0 - 0.75 * dy + th * dy * 0.75)
        targ = geometry.AreaDefinition("t", "t", "t", area.crs, tw, th, text)
        tl, tla = targ.get_lonlats()
        okq = np.isfinite(tl) & np.isfinite(tla)
        q = image.ImageContainerQuick(cellid.astype(np.float64), area, fill_value=0).resample(targ).image_data

    # ---- compare with the model and run the oracle -------------------------------------------------
    def check(module, site, xs, ys, cells, key, eps=Fraction(0)):
        ds = case.model(xs, ys) if ctx.M else [None] * len(cells)
        for i, (x, y, got, d) in enumerate(zip(xs, ys, cells, ds)):
            inp = {"area": name, "extent": [float(v) for v in area.area_extent], "shape": [H, W],
                   "proj_x": float(x), "proj_y": float(y), "module": module}
            if d is not None:
                fx, fy, gx, gy = _frac_guard(d)
                exact_pt = (gx == 0 or gy == 0)
                want = _cell(d[key])
                if not _accept(case, d, got, want, exact_pt):
                    ctx.disagree(f"{module}", inp, got, want)
            else:
                gx0 = [Fraction(float(v)) for v in area.area_extent]
                fx = (Fraction(float(x)) - gx0[0]) / (gx0[2] - gx0[0]) * W
                fy = (gx0[3] - Fraction(float(y))) / (gx0[3] - gx0[1]) * H
                gx = abs(fx - round(fx)); gy = abs(fy - round(fy))
            # oracle (skip the float-ambiguous guard band unless the point is exactly on the lattice)
            amb = (0 < gx < GUARD) or (0 < gy < GUARD)
            if not amb:
                prob = _oracle(case, fx, fy, got, module, eps)
                if prob:
                    first = got is not None and (got[0] == 0 or got[1] == 0) and (fx < 0 or fy < 0)
                    ctx.fail(site, prob, inp, got, tags={"first_row_or_col": first}, size=W * H)
            nontriv = gx < Fraction(1, 100) or gy < Fraction(1, 100) or not (0 <= fx <= W and 0 <= fy <= H) or got is None
            ctx.case(module, (name, float(x), float(y)), nontrivial=nontriv,
                     sample={"input": inp, "impl": got} if i % 97 == 0 else None)
            ctx.count(f"{module}.{'none' if got is None else 'cell'}")

    def to_cell(rc):
        r, c = rc
        return (r, c) if (0 <= r < H and 0 <= c < W) else None

    xs, ys, raw = results["linesample"]
    if ctx.M:  # raw indices (also outside the grid) against the model
        for x, y, rc, d in zip(xs, ys, raw, case.model(xs, ys)):
            want = tuple(int(v) for v in d["ls"].split(","))
            if rc != want and not _accept(case, d, rc, want, False):
                ctx.disagree("linesample.raw", {"area": name, "proj_x": float(x), "proj_y": float(y)}, rc, want)
    check("linesample", "grid.get_linesample", xs, ys, [to_cell(rc) for rc in raw], "lsc")
    check("image_from_lonlats", "grid.get_image_from_lonlats", *results["image_from_lonlats"], "lsc")
    check("gridfilter", "geo_filter.GridFilter.get_valid_index", *results["gridfilter"], "gf")
    xs, ys, cells = results["bucket"]
    check("bucket", "BucketResampler._get_indices", xs, ys, cells, "ref")
    # area index: model has (mask, idx) per axis
    xs, ys, cells = results["area_indices"]
    eps = Fraction(2, 100) + GUARD
    if ctx.M:
        ds = case.model(xs, ys)
        for i, (x, y, raw4, d, got) in enumerate(zip(xs, ys, area_raw, ds, cells)):
            my_, r_, mx_, c_ = raw4
            m = d["ar"].split(",")
            want = (m[0] == "1", int(m[1]), m[2] == "1", int(m[3]))
            impl = (bool(my_), int(r_), bool(mx_), int(c_))
            if impl != want:
                fx, fy, gx, gy = _frac_guard(d)
                # discontinuities of masked_ints: cell borders (round) and the +-0.02 tolerance edges
                near = any(abs(v - t) < GUARD for v, t in ((fx % 1, Fraction(0)), (fx % 1, Fraction(1)), (fy % 1, Fraction(0)), (fy % 1, Fraction(1)),
                                                            (fx, -Fraction(2, 100)), (fx, W + Fraction(2, 100)),
                                                            (fy, -Fraction(2, 100)), (fy, H + Fraction(2, 100))))
                if not near or (case.exact and (fx % 1 == 0 or fy % 1 == 0) and impl != want and not near):
                    ctx.disagree("area_indices.raw", {"area": name, "proj_x": float(x), "proj_y": float(y)}, impl, want)
            if i in scal and scal[i] != got:
                ctx.fail("AreaDefinition.get_array_indices_from_lonlat", "scalar and array lookups disagree",
                         {"area": name, "lon": float(lons[i]), "lat": float(lats[i])}, {"scalar": scal[i], "array": got})
    # oracle for area index with tolerance band
    for x, y, got in zip(xs, ys, cells):
        g0 = case.g
        fx = (Fraction(float(x)) - g0[0]) / (g0[2] - g0[0]) * W
        fy = (g0[3] - Fraction(float(y))) / (g0[3] - g0[1]) * H
        prob = None
        if got is None:
            if 0 < fx < W and 0 < fy < H:
                prob = "area index lookup masks a point inside the area"
        else:
            r, c = got
            if not (-eps <= fx <= W + eps and -eps <= fy <= H + eps):
                prob = "area index lookup returns a pixel for a point outside the extent beyond the 0.02 px tolerance"
            elif not (c - eps - GUARD <= fx <= c + 1 + eps + GUARD and r - eps - GUARD <= fy <= r + 1 + eps + GUARD):
                prob = f"area index lookup returns pixel {got} that does not contain the point"
        if prob:
            ctx.fail("AreaDefinition.get_array_indices_from_lonlat", prob,
                     {"area": name, "proj_x": float(x), "proj_y": float(y), "frac": [float(fx), float(fy)]}, got, size=W * H)
        ctx.case("area_indices", (name, float(x), float(y)), nontrivial=True)
    # ll2cr: fractional positions equal the area's own and the model's
    xs, ys, cr = results["ll2cr"]
    ax, ay = area.get_array_coordinates_from_lonlat(lons, lats)
    ds = case.model(xs, ys) if ctx.M else [None] * n
    ingrid = 0
    for i, (x, y, (c, r), d) in enumerate(zip(xs, ys, cr, ds)):
        inp = {"area": name, "proj_x": float(x), "proj_y": float(y)}
        tol = 1e-9 * (1 + abs(float(ax[i]))) + 1e-9
        if not (abs(c - ax[i]) <= tol and abs(r - ay[i]) <= 1e-9 * (1 + abs(float(ay[i]))) + 1e-9):
            ctx.fail("ewa.ll2cr", "ll2cr column/row differs from the area's own array coordinates", inp,
                     {"ll2cr": [float(c), float(r)], "area": [float(ax[i]), float(ay[i])]}, size=W * H)
        if d is not None:
            mc, mr = (Fraction(v) for v in d["ll"].split(","))
            if abs(Fraction(float(c)) - mc) > Fraction(1, 10 ** 9) * (1 + abs(mc)) or abs(Fraction(float(r)) - mr) > Fraction(1, 10 ** 9) * (1 + abs(mr)):
                ctx.disagree("ll2cr", inp, [float(c), float(r)], [float(mc), float(mr)])
            if d["ing"] == "1":
                ingrid += 1
        ctx.case("ll2cr", (name, float(x), float(y)), nontrivial=True)
    if ctx.M and abs(ingrid - cnt) > sum(1 for d in ds if any(abs(abs(Fraction(v)) - t) < Fraction(1, 10 ** 6) for v in d["ll"].split(",") for t in (1, W + 1, H + 1))):
        ctx.disagree("ll2cr.count", {"area": name}, int(cnt), ingrid)
    # ImageContainerQuick: every target pixel
    with warnings.catch_warnings():
        warnings.simplefilter("ignore")
        qx, qy = p_dict(tl[okq], tla[okq])
    qcells = [None if v == 0 else divmod(int(v) - 1, W) for v in np.asarray(q)[okq]]
    check("image_quick", "image.ImageContainerQuick.resample", np.asarray(qx), np.asarray(qy), qcells, "lsc")


def run_quick_linesample(ctx):
    """utils.generate_quick_linesample_arrays (with its uint16 down-cast) + get_image_from_linesample /
    ImageContainer.get_array_from_linesample, for axis lengths around the uint8/uint16 limits"""
    from pyproj import Proj
    from pyresample import geometry, grid, image, utils
    sizes = [(3, 2), (255, 2), (256, 3), (65535, 2), (65536, 2), (65537, 2), (2, 65536), (2, 65535)]
    if not ctx.quick:
        sizes += [(2, 65537), (65534, 1), (1, 65536), (70000, 2)]
    for W, H in sizes:
        dx = 2.0 ** -10 if W > 1000 else 0.5
        dy = 2.0 ** -10 if H > 1000 else 0.5
        x0, y1 = -32.0, 40.0
        ext = (x0, y1 - H * dy, x0 + W * dx, y1)
        with warnings.catch_warnings():
            warnings.simplefilter("ignore")
            src = geometry.AreaDefinition("s", "s", "s", {"proj": "longlat", "datum": "WGS84"}, W, H, ext)
            case = Case(ctx, f"ll_{W}x{H}", src, True)
            cellid = (np.arange(H * W, dtype=np.int64).reshape(H, W) + 1)
            targets = [
                ("upper_right", (ext[2] - 2.5 * dx, y1 - 1.25 * dy, ext[2] + 2.5 * dx, y1 + 1.25 * dy), 10, 5),
                ("lower_left", (x0 - 1.75 * dx, ext[1] - 1.5 * dy, x0 + 1.25 * dx, ext[1] + 1.5 * dy), 6, 6),
            ]
            for tname, text, tw, th in targets:
                tgt = geometry.AreaDefinition("t", "t", "t", src.crs, tw, th, text)
                rows, cols = utils.generate_quick_linesample_arrays(src, tgt)
                img = grid.get_image_from_linesample(rows, cols, cellid, 0)
                ma = image.ImageContainer(cellid, src, fill_value=None).get_array_from_linesample(rows, cols)
                tl, tla = tgt.get_lonlats()
                px, py = Proj(**src.proj_dict)(tl, tla)
                ds = case.model(np.asarray(px).ravel(), np.asarray(py).ravel()) if ctx.M else [None] * (tw * th)
                mam = np.ma.getmaskarray(ma).ravel()
                for i, (x, y, v, r_, c_, d) in enumerate(zip(np.asarray(px).ravel(), np.asarray(py).ravel(), img.ravel(),
                                                          rows.ravel(), cols.ravel(), ds)):
                    got = None if v == 0 else divmod(int(v) - 1, W)
                    got_ma = None if mam[i] else divmod(int(np.ma.getdata(ma).ravel()[i]) - 1, W)
                    inp = {"source_shape": [H, W], "source_extent": list(ext), "target": tname, "proj_x": float(x), "proj_y": float(y)}
                    g0 = case.g
                    fx = (Fraction(float(x)) - g0[0]) / (g0[2] - g0[0]) * W
                    fy = (g0[3] - Fraction(float(y))) / (g0[3] - g0[1]) * H
                    gx, gy = abs(fx - round(fx)), abs(fy - round(fy))
                    amb = (0 < gx < GUARD) or (0 < gy < GUARD)
                    for site, val in (("utils.generate_quick_linesample_arrays+get_image_from_linesample", got),
                                      ("image.ImageContainer.get_array_from_linesample", got_ma)):
                        if d is not None and not amb and val != _cell(d["qlsc"]):
                            ctx.disagree("quick_linesample", {**inp, "site": site}, val, _cell(d["qlsc"]))
                        if not amb:
                            prob = _oracle(case, fx, fy, val, "quick linesample")
                            if prob:
                                first = val is not None and (val[0] == 0 or val[1] == 0)
                                ctx.fail(site, prob, inp, {"cell": val, "row_index": int(r_), "col_index": int(c_)},
                                         tags={"first_row_or_col": first}, size=10)
                    ctx.case("quick_linesample", (W, H, tname, i), nontrivial=True,
                             sample={"input": inp, "impl": got} if i == 0 else None)
        ctx.count(f"quick_linesample.axis_{'le' if max(W, H) <= 65535 else 'gt'}_uint16")


def run(ctx):
    run_quick_linesample(ctx)
    for name, area, exact in _areas(ctx):
        run_area(ctx, name, area, exact)
        ctx.count("areas")
