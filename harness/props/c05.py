"""C05 — dask/xarray nearest-neighbour resamplers agree with the numpy reference.

PYTROLL_CHUNK_SIZE is read at import time (and bound into default arguments), so every chunk size is
exercised in its own interpreter: this module is also a worker (`--worker`) that runs the real resamplers
and pickles inputs and outputs; the parent process compares them with the numpy reference, the model and
the oracle."""
import os
import pickle
import subprocess
import sys
import tempfile
import warnings

import numpy as np

try:
    from . import kdcommon as kc
except ImportError:  # worker mode
    sys.path.insert(0, os.path.dirname(os.path.abspath(__file__)))
    import kdcommon as kc

META = {
    "rule": "one case = (geometry pair, radius, PYTROLL_CHUNK_SIZE, data layout, dtype, data/coordinate chunking, mask). "
            "Sources: swaths with dask-backed xarray lon/lats (ragged / single-element chunks, 0-30 % invalid coordinates) "
            "and areas; targets: 2-D areas; data dims (y,x), (b,y,x), (y,x,b), (t,b,y,x), float64/float32/int16/uint8; masks "
            "0 %, ~40 %, all. Every output element of XArrayResamplerNN and KDTreeNearestXarrayResampler must equal the "
            "numpy kd_tree.resample_nearest result for the same geometry (masked source pixels removed from the numpy "
            "source). Non-trivial: target spans >= 2 chunks or data has extra dims or a mask. Distinct = distinct canonical input. "
            "future_nn_maskmode: one case = (source: future/legacy SwathDefinition with dask lon/lats or future/legacy area; data with invalid pixels "
            "(NaN, integer dtype max or _FillValue) incl. a 2 x 2 block; mask_area in False / True / None / explicit array; layout, dtype, chunkings): "
            "the result must equal the numpy resampler's for the full source when no mask is in effect (False; None for areas) and for the source "
            "without the invalid pixels when one is (True, explicit, None for SwathDefinition), and the brute-force nearest usable pixel. "
            "Non-trivial there: the two references differ.",
    "assumptions": ["pykdtree's mask= argument excludes exactly the masked points (checked per case by the numpy reference "
                    "run on the source with masked pixels invalidated)", "ties within 1e-9 relative are skipped"],
}

CHUNK_SIZES_QUICK = [4096, 3, 1]
CHUNK_SIZES_THOROUGH = [4096, 7, 3, 2, 1]


# ------------------------------------------------------------------------------------------------
# worker: real code only
# ------------------------------------------------------------------------------------------------

def _ragged(rng, n):
    parts, left = [], n
    while left:
        k = rng.choice([1, 1, 2, 3, left])
        k = min(k, left)
        parts.append(k)
        left -= k
    return tuple(parts)


def worker(seed, tier, chunk, out_path):
    import random

    import dask
    import dask.array as da
    import xarray as xr
    from pyresample import kd_tree
    from pyresample.future.resamplers.nearest import KDTreeNearestXarrayResampler
    from pyresample.geometry import SwathDefinition
    dask.config.set(scheduler="synchronous")
    rng = random.Random(f"C05-{seed}-{chunk}")
    n_cases = 24 if tier == "quick" else 120
    cases = []
    for ci in range(n_cases):
        name, lon0, lat0 = rng.choice(kc.PLACES)
        span = rng.choice([0.5, 2.0, 2.0, 0.0008])      # (the last: grids of about 10 m, where single precision is not enough)
        res = span * 111000.0 / 8
        th, tw = rng.randrange(2, 8), rng.randrange(2, 8)
        tgt, tkind = kc.area_at(rng, lon0, lat0, tw, th, res)
        if rng.random() < 0.15:
            # a target with invalid locations: geostationary full disk (its corner pixels look into space), coarse enough that with
            # small chunk sizes whole target blocks have no valid location at all
            lat0 = max(-40.0, min(40.0, lat0))
            th, tw = rng.randrange(6, 10), rng.randrange(6, 10)
            tgt = kc.mk_area({"proj": "geos", "h": 35785831.0, "lon_0": lon0, "a": 6378169.0, "b": 6356583.8}, tw, th,
                             (-5570000.0, -5570000.0, 5570000.0, 5570000.0))
            tkind = "geos_disk"
            span = 60.0
            res = 11140000.0 / max(th, tw)
        edge_fill = "n/a"
        src_is_area = rng.random() < 0.3
        if src_is_area:
            sh, sw = rng.randrange(2, 8), rng.randrange(2, 8)
            src, skind = kc.area_at(rng, lon0 + rng.uniform(-span, span) / 4, lat0 + rng.uniform(-span, span) / 4, sw, sh, res * rng.choice([0.5, 1, 2]))
            slon, slat = kc.lonlats(src)
            src_np = src
            geo_dims = ("y", "x")
        else:
            sh, sw = rng.randrange(2, 9), rng.randrange(2, 9)
            slon, slat = kc.swath(rng, sh, sw, lon0, lat0, span * rng.choice([0.7, 1.2]), rng.choice([0.0, 0.0, 0.15, 0.3]))
            edge_fill = rng.choice(["none", "none", "first_pixel", "first_row", "last_row"])
            if edge_fill == "first_pixel":      # missing navigation at the start / edge of a scan
                slon[0, 0] = slat[0, 0] = np.nan
            elif edge_fill == "first_row":
                slon[0, :] = np.nan
                slat[0, :] = np.nan
            elif edge_fill == "last_row":
                slon[-1, :] = np.nan
            if ci % 12 == 5:
                # a granule without any usable navigation: every resampler returns nothing but fill
                slon[:] = rng.choice([np.nan, 1e30, 200.0])
                edge_fill = "no_valid_source"
            cy, cx = _ragged(rng, sh), _ragged(rng, sw)
            geo_dims = rng.choice([("y", "x"), ("rows", "cols")])
            src = SwathDefinition(xr.DataArray(da.from_array(slon, chunks=(cy, cx)), dims=geo_dims),
                                  xr.DataArray(da.from_array(slat, chunks=(cy, cx)), dims=geo_dims))
            src_np = SwathDefinition(slon, slat)
        radius = rng.choice([res * 0.6, res * 2, res * 30])
        # data
        layout = rng.choice(["yx", "byx", "yxb", "tbyx"])
        dtype = rng.choice([np.float64, np.float32, np.int16, np.uint8])
        base = (np.arange(sh * sw).reshape(sh, sw) % 200).astype(dtype)
        nb, nt = 3, 2
        if layout == "yx":
            arr, dims = base, geo_dims
        elif layout == "byx":
            arr, dims = np.stack([base, base[::-1, :], base[:, ::-1]]), ("bands",) + geo_dims
        elif layout == "yxb":
            arr, dims = np.stack([base, base[::-1, :], base[:, ::-1]], axis=-1), geo_dims + ("bands",)
        else:
            b3 = np.stack([base, base[::-1, :], base[:, ::-1]])
            arr, dims = np.stack([b3, (b3 + 1).astype(dtype)]), ("time", "bands") + geo_dims
        dchunks = tuple(_ragged(rng, s) if d in geo_dims else (s,) if rng.random() < 0.5 else _ragged(rng, s)
                        for d, s in zip(dims, arr.shape))
        data = xr.DataArray(da.from_array(arr, chunks=dchunks), dims=dims, attrs={"units": "K", "name": f"case{ci}"})
        mask_kind = rng.choice(["none", "none", "some", "all"]) if not src_is_area else rng.choice(["none", "some"])
        m = None
        if mask_kind != "none":
            m = np.array([[rng.random() < 0.4 for _ in range(sw)] for _ in range(sh)]) if mask_kind == "some" else np.ones((sh, sw), bool)
        fill = float("nan") if np.issubdtype(dtype, np.floating) else None   # ints: dtype max (documented)
        rec = {"place": name, "chunk_size": chunk, "src_shape": (sh, sw), "tgt_shape": (th, tw), "src_is_area": src_is_area,
               "radius": radius, "layout": layout, "dtype": np.dtype(dtype).name, "mask_kind": mask_kind, "data_chunks": dchunks, "source_navigation": edge_fill,
               "slon": slon, "slat": slat, "arr": arr, "dims": dims, "geo_dims": geo_dims, "mask": m, "target_kind": tkind}
        tl, tla = kc.lonlats(tgt)
        rec["tlon"], rec["tlat"] = tl, tla
        with warnings.catch_warnings():
            warnings.simplefilter("ignore")
            # numpy reference (masked pixels removed from the source by invalidating their coordinates)
            try:
                if m is not None:
                    lon_ref = np.where(m, np.nan, slon)
                    src_ref = SwathDefinition(lon_ref, slat)
                else:
                    src_ref = src_np
                geo_first = np.moveaxis(arr, [dims.index(geo_dims[0]), dims.index(geo_dims[1])], [0, 1])
                flat = geo_first.reshape(sh, sw, -1)
                fv = np.nan if np.issubdtype(dtype, np.floating) else np.iinfo(dtype).max
                ref = kd_tree.resample_nearest(src_ref, flat, tgt, radius, epsilon=0, fill_value=fv, reduce_data=False, segments=1)
                rec["ref"] = np.asarray(ref).reshape((th, tw) + geo_first.shape[2:])
            except Exception as e:  # noqa
                rec["ref_error"] = f"{type(e).__name__}: {e}"
            # legacy xarray resampler
            try:
                r1 = kd_tree.XArrayResamplerNN(src, tgt, radius_of_influence=radius, neighbours=1, epsilon=0)
                mk = None if m is None else xr.DataArray(da.from_array(m, chunks=(dchunks[dims.index(geo_dims[0])], dchunks[dims.index(geo_dims[1])])), dims=geo_dims)
                r1.get_neighbour_info(mask=mk)
                o1 = r1.get_sample_from_neighbour_info(data) if fill is None else r1.get_sample_from_neighbour_info(data, fill_value=fill)
                rec["legacy"] = {"values": np.asarray(o1.values), "dims": tuple(o1.dims), "dtype": str(o1.dtype), "attrs": dict(o1.attrs),
                                 "ia": np.asarray(r1.index_array), "vii": np.asarray(r1.valid_input_index),
                                 "voi": np.asarray(r1.valid_output_index), "tchunks": r1.index_array.chunks}
            except Exception as e:  # noqa
                rec["legacy_error"] = f"{type(e).__name__}: {e}"
            # future resampler
            try:
                r2 = KDTreeNearestXarrayResampler(src, tgt)
                kw = {} if fill is None else {"fill_value": fill}
                o2 = r2.resample(data, mask_area=(False if m is None else mk), radius_of_influence=radius, **kw)
                key = next(iter(r2._internal_cache))
                pc = r2._internal_cache[key]
                rec["future"] = {"values": np.asarray(o2.values), "dims": tuple(o2.dims), "dtype": str(o2.dtype), "attrs": dict(o2.attrs),
                                 "ia": np.asarray(pc["index_array"]), "vii": np.asarray(pc["valid_input_index"]),
                                 "tchunks": pc["index_array"].chunks}
                # reuse of the same resampler for a second array with a different mask (or none)
                if m is not None:
                    # the same resampler reused: a second, different mask carried by a DataArray of the same name
                    m2 = np.array([[rng.random() < 0.5 for _ in range(sw)] for _ in range(sh)])
                    gch = (dchunks[dims.index(geo_dims[0])], dchunks[dims.index(geo_dims[1])])
                    mkA = xr.DataArray(da.from_array(m, chunks=gch), dims=geo_dims, name="qc_mask")
                    mkB = xr.DataArray(da.from_array(m2, chunks=gch), dims=geo_dims, name="qc_mask")
                    r3 = KDTreeNearestXarrayResampler(src, tgt)
                    r3.resample(data, mask_area=mkA, radius_of_influence=radius, **kw)
                    oB = r3.resample(data, mask_area=mkB, radius_of_influence=radius, **kw)
                    refB = kd_tree.resample_nearest(SwathDefinition(np.where(m2, np.nan, slon), slat), flat, tgt, radius, epsilon=0,
                                                    fill_value=fv, reduce_data=False, segments=1)
                    rec["reuse"] = {"values": np.asarray(oB.values), "ref": np.asarray(refB).reshape((th, tw) + geo_first.shape[2:]), "mask2": m2}
                # mask derived by the resampler itself from the data's _FillValue attribute (mask_area=True), integer data
                if layout == "yx" and np.issubdtype(dtype, np.integer):
                    fvattr = rng.choice([0, int(np.iinfo(dtype).max), int(base.ravel()[0])])
                    m3 = (base == fvattr)
                    d3 = xr.DataArray(da.from_array(arr, chunks=dchunks), dims=dims, attrs={"_FillValue": fvattr})
                    r4 = KDTreeNearestXarrayResampler(src, tgt)
                    o4 = r4.resample(d3, mask_area=True, radius_of_influence=radius)
                    ref4 = kd_tree.resample_nearest(SwathDefinition(np.where(m3, np.nan, slon), slat), flat, tgt, radius, epsilon=0,
                                                    fill_value=fv, reduce_data=False, segments=1)       # ints without fill_value: dtype max (documented)
                    rec["automask"] = {"values": np.asarray(o4.values), "ref": np.asarray(ref4).reshape((th, tw) + geo_first.shape[2:]), "mask": m3, "fill_attr": fvattr}
            except Exception as e:  # noqa
                rec["future_error"] = f"{type(e).__name__}: {e}"
        cases.append(rec)
    cases += _maskmode_cases(seed, tier, chunk)
    with open(out_path, "wb") as f:
        pickle.dump(cases, f)


def _maskmode_cases(seed, tier, chunk):
    """Data WITH invalid pixels (NaN / integer fill) resampled by KDTreeNearestXarrayResampler under every setting of `mask_area`:
    False (no mask: the nearest pixel wins whatever its value), True, None (documented default: a mask for SwathDefinition sources, none
    for areas) and an explicit mask array. Real code only; the references are the numpy resampler on the full source and on the source
    with the invalid pixels removed."""
    import random

    import dask
    import dask.array as da
    import xarray as xr
    from pyresample import kd_tree
    from pyresample.future.geometry import AreaDefinition as FutureArea
    from pyresample.future.geometry import SwathDefinition as FutureSwath
    from pyresample.future.resamplers.nearest import KDTreeNearestXarrayResampler
    from pyresample.geometry import SwathDefinition
    dask.config.set(scheduler="synchronous")
    rng = random.Random(f"C05-maskmode-{seed}-{chunk}")
    n_cases = 8 if tier == "quick" else 40
    out = []
    for ci in range(n_cases):
        name, lon0, lat0 = rng.choice(kc.PLACES)
        span = rng.choice([0.5, 2.0, 2.0])
        res = span * 111000.0 / 8
        th, tw = rng.randrange(3, 8), rng.randrange(3, 8)
        tgt, tkind = kc.area_at(rng, lon0, lat0, tw, th, res)
        src_kind = rng.choice(["future_swath", "future_swath", "future_swath", "legacy_swath", "future_area", "legacy_area"])
        if ci < 2:
            src_kind = "future_swath"       # every interpreter (chunk size) sees the opt-out and the default on the class whose default is to mask
        sh, sw = rng.randrange(4, 10), rng.randrange(4, 10)
        geo_dims = ("y", "x")
        if src_kind.endswith("area"):
            a, skind = kc.area_at(rng, lon0 + rng.uniform(-span, span) / 6, lat0 + rng.uniform(-span, span) / 6, sw, sh, res * rng.choice([0.5, 1, 1]))
            slon, slat = kc.lonlats(a)
            src = FutureArea(a.crs, (sh, sw), a.area_extent) if src_kind == "future_area" else a
        else:
            slon, slat = kc.swath(rng, sh, sw, lon0, lat0, span * rng.choice([0.7, 1.2]), rng.choice([0.0, 0.0, 0.1]))
            geo_dims = rng.choice([("y", "x"), ("rows", "cols")])
            cls = FutureSwath if src_kind == "future_swath" else SwathDefinition
            gcy, gcx = _ragged(rng, sh), _ragged(rng, sw)
            src = cls(xr.DataArray(da.from_array(slon, chunks=(gcy, gcx)), dims=geo_dims),
                      xr.DataArray(da.from_array(slat, chunks=(gcy, gcx)), dims=geo_dims))
        radius = rng.choice([res * 0.9, res * 2, res * 2, res * 30])
        modes = ["False", "False", "True", "explicit"] + (["None"] if src_kind != "legacy_swath" else [])   # (None + legacy swath class: not specified)
        mode = rng.choice(modes)
        if ci < 2:
            mode = ("False", "None")[ci]
        layout = rng.choice(["yx", "yx", "byx", "yxb"])
        dtype = rng.choice([np.float64, np.float32, np.float32, np.int16, np.uint8])
        is_float = np.issubdtype(dtype, np.floating)
        base = (1 + np.arange(sh * sw).reshape(sh, sw) % 199).astype(dtype)
        # invalid pixels: isolated ones and one 2 x 2 block; every band is invalid there
        inv = np.array([[rng.random() < 0.2 for _ in range(sw)] for _ in range(sh)])
        r0, c0 = rng.randrange(sh - 1), rng.randrange(sw - 1)
        inv[r0:r0 + 2, c0:c0 + 2] = True
        attrs = {"units": "K", "name": f"maskmode{ci}"}
        if is_float:
            badv = np.nan
        else:
            badv = rng.choice([int(np.iinfo(dtype).max), int(np.iinfo(dtype).max), 0])
            if badv == 0 or rng.random() < 0.5:
                attrs["_FillValue"] = badv
        if layout == "yx":
            arr, dims = base.copy(), geo_dims
            arr[inv] = badv
        else:
            bands = [base.copy(), base[::-1, :].copy(), base[:, ::-1].copy()]
            for b in bands:
                b[inv] = badv
            # a pixel that is invalid in ONE band only is not an invalid pixel: it is never masked
            pr, pc = rng.randrange(sh), rng.randrange(sw)
            partial = not inv[pr, pc]
            if partial:
                bands[1][pr, pc] = badv
            arr = np.stack(bands, axis=0 if layout == "byx" else -1)
            dims = (("bands",) + geo_dims) if layout == "byx" else (geo_dims + ("bands",))
        dchunks = tuple(_ragged(rng, s_) if d in geo_dims else (s_,) if rng.random() < 0.5 else _ragged(rng, s_) for d, s_ in zip(dims, arr.shape))
        data = xr.DataArray(da.from_array(arr, chunks=dchunks), dims=dims, attrs=attrs)
        masked = mode in ("True", "explicit") or (mode == "None" and src_kind == "future_swath")
        rec = {"family": "maskmode", "place": name, "chunk_size": chunk, "src_shape": (sh, sw), "tgt_shape": (th, tw), "src_kind": src_kind,
               "radius": radius, "layout": layout, "dtype": np.dtype(dtype).name, "mask_area": mode, "data_chunks": dchunks, "target_kind": tkind,
               "invalid_value": "nan" if is_float else badv, "fill_attr": attrs.get("_FillValue"), "n_invalid": int(inv.sum()),
               "slon": slon, "slat": slat, "arr": arr, "dims": dims, "geo_dims": geo_dims, "inv": inv, "masked_expected": masked, "attrs": attrs}
        rec["tlon"], rec["tlat"] = kc.lonlats(tgt)
        with warnings.catch_warnings():
            warnings.simplefilter("ignore")
            geo_first = np.moveaxis(arr, [dims.index(geo_dims[0]), dims.index(geo_dims[1])], [0, 1])
            flat = geo_first.reshape(sh, sw, -1)
            fv = np.nan if is_float else np.iinfo(dtype).max
            try:
                for key, lon_ref in (("ref_plain", slon), ("ref_masked", np.where(inv, np.nan, slon))):
                    ref = kd_tree.resample_nearest(SwathDefinition(lon_ref, slat), flat, tgt, radius, epsilon=0, fill_value=fv, reduce_data=False, segments=1)
                    rec[key] = np.asarray(ref).reshape((th, tw) + geo_first.shape[2:])
            except Exception as e:  # noqa
                rec["ref_error"] = f"{type(e).__name__}: {e}"
            try:
                if mode == "explicit":
                    gch = (dchunks[dims.index(geo_dims[0])], dchunks[dims.index(geo_dims[1])])
                    mask_area = xr.DataArray(da.from_array(inv, chunks=gch), dims=geo_dims)
                else:
                    mask_area = {"False": False, "True": True, "None": None}[mode]
                r = KDTreeNearestXarrayResampler(src, tgt)
                kw = {"fill_value": float("nan")} if is_float else {}       # ints: dtype max (documented)
                o = r.resample(data, mask_area=mask_area, radius_of_influence=radius, **kw)
                rec["out"] = {"values": np.asarray(o.values), "dims": tuple(o.dims), "dtype": str(o.dtype), "attrs": dict(o.attrs)}
            except Exception as e:  # noqa
                rec["out_error"] = f"{type(e).__name__}: {e}"
        out.append(rec)
    return out


# ------------------------------------------------------------------------------------------------
# parent: comparison, model, oracle
# ------------------------------------------------------------------------------------------------

def _expected_layout(rec, ref):
    """numpy reference (th, tw, extra…) -> the layout the xarray resamplers return"""
    dims, geo = rec["dims"], rec["geo_dims"]
    extra = [d for d in dims if d not in geo]
    arr = rec["arr"]
    geo_first_shape = [arr.shape[dims.index(d)] for d in extra]
    ref = ref.reshape(tuple(rec["tgt_shape"]) + tuple(geo_first_shape))
    # output dims: non-geo dims keep their position, the geo block becomes (y, x)
    out_dims = []
    done = False
    for d in dims:
        if d in geo:
            if not done:
                out_dims += ["y", "x"]
                done = True
        else:
            out_dims.append(d)
    cur = ["y", "x"] + extra
    return np.transpose(ref, [cur.index(d) for d in out_dims]), tuple(out_dims)


def _eq(a, b):
    a, b = np.asarray(a), np.asarray(b)
    if a.shape != b.shape:
        return False
    if np.issubdtype(a.dtype, np.floating):
        return bool(np.array_equal(a, b, equal_nan=True))
    return bool(np.array_equal(a, b))


def check_case(ctx, rec):
    inp = {k: rec[k] for k in ("place", "chunk_size", "src_shape", "tgt_shape", "src_is_area", "radius", "layout", "dtype",
                               "mask_kind", "data_chunks", "target_kind", "source_navigation")}
    if "ref_error" in rec:
        ctx.note("numpy reference raised: " + rec["ref_error"])
        return
    want, want_dims = _expected_layout(rec, rec["ref"])
    # ambiguous ties: skip cases where some target has two valid unmasked sources within 1e-9 relative
    d, sv, tv = kc.dist_matrix(np.where(rec["mask"], np.nan, rec["slon"]).ravel() if rec["mask"] is not None else rec["slon"].ravel(),
                               rec["slat"].ravel(), rec["tlon"].ravel(), rec["tlat"].ravel())
    srt = np.sort(d, axis=1)[:, :2] if d.shape[1] > 1 else None
    if srt is not None:
        with np.errstate(invalid="ignore"):
            tie = np.isfinite(srt[:, 1]) & (np.abs(srt[:, 1] - srt[:, 0]) <= 1e-9 * np.maximum(srt[:, 0], 1.0)) & (srt[:, 0] <= rec["radius"] * (1 + 1e-9))
            near = np.abs(srt[:, 0] - rec["radius"]) <= 1e-9 * max(rec["radius"], 1.0)
        if tie.any() or near.any():
            ctx.count("skipped.tie")
            return
    for which, site in (("legacy", "kd_tree.XArrayResamplerNN"), ("future", "future.resamplers.KDTreeNearestXarrayResampler")):
        if which + "_error" in rec:
            ctx.fail(site, "raised " + rec[which + "_error"], inp, size=10)
            continue
        out = rec[which]
        probs = []
        if out["dims"] != want_dims:
            probs.append(f"dims {out['dims']} instead of {want_dims}")
        elif not _eq(out["values"], want):
            nd = int(np.sum(~np.isclose(out["values"].astype(float), want.astype(float), equal_nan=True))) if out["values"].shape == want.shape else -1
            probs.append(f"{nd} elements differ from the numpy resampler's result")
        if out["dtype"] != rec["dtype"]:
            probs.append(f"dtype {out['dtype']} instead of {rec['dtype']}")
        if out["attrs"].get("units") != "K" or out["attrs"].get("name") != inp.get("name", out["attrs"].get("name")):
            probs.append("attributes not preserved")
        if probs:
            ctx.fail(site, "; ".join(probs), inp, tags={"which": which, "mask": rec["mask_kind"]}, size=int(np.prod(rec["src_shape"])))
        # masked source pixels must never be selected (model-free, from the index array)
        ia = out["ia"][..., 0]
        vii = out["vii"].ravel()
        if rec["mask"] is not None:
            sel = np.flatnonzero(vii)
            chosen = sel[ia[ia >= 0]]
            if rec["mask"].ravel()[chosen].any():
                ctx.fail(site, "a masked source pixel was selected as nearest neighbour", inp, size=int(np.prod(rec["src_shape"])))
        # model: block-wise expansion + gather, data = source ids
        if ctx.M:
            n_tree = int(vii.sum())
            ids = list(range(vii.size))
            rch, cch = out["tchunks"][0], out["tchunks"][1]
            voi_full = kc.valid(rec["tlon"], rec["tlat"])
            blocks = []
            order = []
            r0 = 0
            for rc in rch:
                c0 = 0
                for cc in cch:
                    v = voi_full[r0:r0 + rc, c0:c0 + cc].ravel()
                    q = ia[r0:r0 + rc, c0:c0 + cc].ravel()[v]
                    blocks.append(([bool(x) for x in v], [int(x) if x >= 0 else n_tree for x in q]))
                    order.append((r0, rc, c0, cc))
                    c0 += cc
                r0 += rc
            req = ["xr", -1, n_tree, [bool(x) for x in vii], ids, len(blocks)]
            for v, q in blocks:
                req += [v, q]
            rep = ctx.M.ask(*req)
            if rep.startswith("err"):
                ctx.disagree(which + ".model", inp, "ok", rep)
            else:
                flat = [int(t) for t in rep.split()[1:]]
                # model output is block-major; put it back on the grid
                grid = np.full(rec["tgt_shape"], -99, dtype=int)
                pos = 0
                for (r0, rc, c0, cc) in order:
                    grid[r0:r0 + rc, c0:c0 + cc] = np.array(flat[pos:pos + rc * cc]).reshape(rc, cc)
                    pos += rc * cc
                sel = np.flatnonzero(vii)
                impl_ids = np.where(ia >= 0, sel[np.where(ia >= 0, ia, 0)], -1) if sel.size else np.where(ia >= 0, -2, -1)   # (no valid source: any index is wrong)
                if not np.array_equal(grid, impl_ids):
                    ctx.disagree(which + ".model", inp, impl_ids.tolist(), grid.tolist())
    if "reuse" in rec:
        d2, _, _ = kc.dist_matrix(np.where(rec["reuse"]["mask2"], np.nan, rec["slon"]).ravel(), rec["slat"].ravel(), rec["tlon"].ravel(), rec["tlat"].ravel())
        s2 = np.sort(d2, axis=1)[:, :2] if d2.shape[1] > 1 else None
        with np.errstate(invalid="ignore"):
            tie2 = s2 is not None and bool((np.isfinite(s2[:, 1]) & (np.abs(s2[:, 1] - s2[:, 0]) <= 1e-9 * np.maximum(s2[:, 0], 1.0))).any()
                                           or (np.abs(s2[:, 0] - rec["radius"]) <= 1e-9 * max(rec["radius"], 1.0)).any())
        wantB, _ = _expected_layout(rec, rec["reuse"]["ref"])
        if not tie2 and not _eq(rec["reuse"]["values"], wantB):
            ctx.fail("future.resamplers.KDTreeNearestXarrayResampler", "resampler reused with a second mask (same DataArray name, different "
                     "content) does not give the numpy result for that mask", inp, tags={"kind": "reuse"}, size=int(np.prod(rec["src_shape"])))
    if "automask" in rec:
        am = rec["automask"]
        d3, _, _ = kc.dist_matrix(np.where(am["mask"], np.nan, rec["slon"]).ravel(), rec["slat"].ravel(), rec["tlon"].ravel(), rec["tlat"].ravel())
        s3 = np.sort(d3, axis=1)[:, :2] if d3.shape[1] > 1 else None
        with np.errstate(invalid="ignore"):
            tie3 = s3 is not None and bool((np.isfinite(s3[:, 1]) & (np.abs(s3[:, 1] - s3[:, 0]) <= 1e-9 * np.maximum(s3[:, 0], 1.0))).any()
                                           or (np.abs(s3[:, 0] - rec["radius"]) <= 1e-9 * max(rec["radius"], 1.0)).any())
        want3 = am["ref"].reshape(am["values"].shape) if am["ref"].size == am["values"].size else am["ref"]
        ctx.count("automask.fill_attr." + ("zero" if am["fill_attr"] == 0 else "other"))
        if not tie3 and not _eq(am["values"], want3):
            ctx.fail("future.resamplers.KDTreeNearestXarrayResampler", f"mask_area=True with _FillValue={am['fill_attr']}: the result differs from the numpy resampling with the "
                     "fill pixels removed from the source (a fill pixel was taken as nearest neighbour, or a valid one was not)", {**inp, "fill_attr": am["fill_attr"]},
                     tags={"kind": "automask"}, size=int(np.prod(rec["src_shape"])))
    multi = (len(rec.get("legacy", {}).get("tchunks", ((1,), (1,)))[0]) > 1) or rec["layout"] != "yx" or rec["mask"] is not None
    ctx.case("xarray_nn", (rec["place"], rec["chunk_size"], str(rec["src_shape"]), str(rec["tgt_shape"]), rec["layout"], rec["dtype"],
                           rec["mask_kind"], str(rec["data_chunks"]), rec["radius"]),
             nontrivial=multi, sample={"input": inp})
    ctx.count(f"chunk_size.{rec['chunk_size']}")
    ctx.count(f"layout.{rec['layout']}")
    ctx.count(f"mask.{rec['mask_kind']}")
    ctx.count(f"source_navigation.{rec.get('source_navigation')}")


def _ambiguous(rec, lon_eff):
    """some target has two usable sources within 1e-9 relative, or its nearest one within 1e-9 of the radius"""
    d, _, _ = kc.dist_matrix(lon_eff.ravel(), rec["slat"].ravel(), rec["tlon"].ravel(), rec["tlat"].ravel())
    if d.shape[1] < 2:
        return False, d
    srt = np.sort(d, axis=1)[:, :2]
    with np.errstate(invalid="ignore"):
        tie = np.isfinite(srt[:, 1]) & (np.abs(srt[:, 1] - srt[:, 0]) <= 1e-9 * np.maximum(srt[:, 0], 1.0)) & (srt[:, 0] <= rec["radius"] * (1 + 1e-9))
        near = np.abs(srt[:, 0] - rec["radius"]) <= 1e-9 * max(rec["radius"], 1.0)
    return bool(tie.any() or near.any()), d


def check_maskmode(ctx, rec):
    """mask_area = False / True / None / explicit array on data with invalid pixels: the result is the numpy resampler's for the full source
    (no mask in effect) or for the source without the invalid pixels (mask in effect); decided a second time from first principles
    (brute-force nearest usable source pixel within the radius)."""
    site = "future.resamplers.KDTreeNearestXarrayResampler"
    inp = {k: rec[k] for k in ("place", "chunk_size", "src_shape", "tgt_shape", "src_kind", "radius", "layout", "dtype", "mask_area", "data_chunks",
                               "target_kind", "invalid_value", "fill_attr", "n_invalid")}
    if "ref_error" in rec:
        ctx.note("numpy reference raised: " + rec["ref_error"])
        return
    masked = rec["masked_expected"]
    inv = rec["inv"]
    lon_eff = np.where(inv, np.nan, rec["slon"]) if masked else rec["slon"]
    amb, d = _ambiguous(rec, lon_eff)
    if amb:
        ctx.count("skipped.tie")
        return
    want, want_dims = _expected_layout(rec, rec["ref_masked"] if masked else rec["ref_plain"])
    other, _ = _expected_layout(rec, rec["ref_plain"] if masked else rec["ref_masked"])
    # the case can tell the two behaviours apart when some target's nearest in-range pixel is invalid and has a valid neighbour in range
    decisive = not _eq(want, other)
    ctx.case("future_nn_maskmode", (rec["place"], rec["chunk_size"], str(rec["src_shape"]), str(rec["tgt_shape"]), rec["src_kind"], rec["layout"], rec["dtype"],
                                    rec["mask_area"], str(rec["data_chunks"]), rec["radius"], rec["inv"].tobytes()),
             nontrivial=decisive, sample={"input": inp, "decisive": decisive})
    ctx.count(f"maskmode.mask_area.{rec['mask_area']}")
    ctx.count(f"maskmode.source.{rec['src_kind']}")
    ctx.count(f"maskmode.mask_in_effect.{masked}")
    ctx.count(f"maskmode.decisive.{decisive}")
    if "out_error" in rec:
        ctx.fail(site, f"mask_area={rec['mask_area']}: raised " + rec["out_error"], inp, tags={"kind": "maskmode"}, size=10)
        return
    out = rec["out"]
    size = int(np.prod(rec["src_shape"]))
    probs = []
    if out["dims"] != want_dims:
        probs.append(f"dims {out['dims']} instead of {want_dims}")
    elif not _eq(out["values"], want):
        nd = int(np.sum(~np.isclose(out["values"].astype(float), want.astype(float), equal_nan=True))) if out["values"].shape == want.shape else -1
        as_other = out["values"].shape == other.shape and _eq(out["values"], other)
        probs.append(f"mask_area={rec['mask_area']} on a {rec['src_kind']} source with {rec['n_invalid']} invalid ({rec['invalid_value']}) pixels: {nd} elements differ from the "
                     f"numpy resampler's result for the {'source without the invalid pixels' if masked else 'full source (no mask: the nearest pixel wins, whatever its value)'}"
                     + (f"; the result equals the numpy result for the {'full source' if masked else 'source without the invalid pixels'} instead" if as_other else ""))
    if out["dtype"] != rec["dtype"]:
        probs.append(f"dtype {out['dtype']} instead of {rec['dtype']}")
    if out["attrs"].get("units") != "K" or out["attrs"].get("name") != rec["attrs"]["name"]:
        probs.append("attributes not preserved")
    if probs:
        ctx.fail(site, "; ".join(probs), inp, observed={"values": out["values"], "numpy_reference": want},
                 tags={"kind": "maskmode", "mask_area": rec["mask_area"], "mask_in_effect": masked}, size=size)
        return
    # first principles: every target pixel carries the data of its nearest usable source pixel within the radius, else fill
    if out["values"].shape == want.shape:
        dims, geo = rec["dims"], rec["geo_dims"]
        geo_first = np.moveaxis(rec["arr"], [dims.index(geo[0]), dims.index(geo[1])], [0, 1]).reshape(inv.size, -1)
        nearest = np.argmin(d, axis=1)
        dmin = d[np.arange(d.shape[0]), nearest]
        is_float = np.issubdtype(rec["arr"].dtype, np.floating)
        fillv = np.nan if is_float else np.iinfo(rec["arr"].dtype).max
        exp = np.where((dmin <= rec["radius"])[:, None], geo_first[nearest], fillv).astype(rec["arr"].dtype)
        exp_l, _ = _expected_layout(rec, exp.reshape(tuple(rec["tgt_shape"]) + (geo_first.shape[1],)))
        if not _eq(out["values"], exp_l):
            nd = int(np.sum(~np.isclose(out["values"].astype(float), exp_l.astype(float), equal_nan=True)))
            ctx.fail(site, f"mask_area={rec['mask_area']}: {nd} elements are not the data of the nearest {'valid-data ' if masked else ''}source pixel within the radius "
                     "(brute-force search)", inp, observed={"values": out["values"], "brute_force": exp_l},
                     tags={"kind": "maskmode-bruteforce", "mask_area": rec["mask_area"], "mask_in_effect": masked}, size=size)


def run(ctx):
    from harness.core import REPO, Infra  # type: ignore
    sizes = CHUNK_SIZES_QUICK if ctx.quick else CHUNK_SIZES_THOROUGH
    tmp = tempfile.mkdtemp(prefix="pyresample-verif-c05-")
    procs = []
    try:
        for cs in sizes:
            out = os.path.join(tmp, f"cases_{cs}.pkl")
            env = dict(os.environ, PYTROLL_CHUNK_SIZE=str(cs), PYTHONPATH=str(REPO))
            p = subprocess.Popen([sys.executable, "-W", "ignore", os.path.abspath(__file__), "--worker", str(ctx.seed), ctx.tier, str(cs), out],
                                 env=env, stdout=subprocess.PIPE, stderr=subprocess.PIPE, text=True)
            procs.append((cs, out, p))
        for cs, out, p in procs:
            so, se = p.communicate(timeout=3000)
            if p.returncode != 0 or not os.path.exists(out):
                # the real code could not even be driven: report as a broken correspondence with the traceback
                ctx.disagree("worker", {"chunk_size": cs}, "worker crashed", "worker completes", note=(se or so)[-800:])
                continue
            with open(out, "rb") as f:
                for rec in pickle.load(f):
                    if rec.get("family") == "maskmode":
                        check_maskmode(ctx, rec)
                    else:
                        check_case(ctx, rec)
    finally:
        import shutil
        shutil.rmtree(tmp, ignore_errors=True)


if __name__ == "__main__":
    if len(sys.argv) >= 6 and sys.argv[1] == "--worker":
        worker(int(sys.argv[2]), sys.argv[3], int(sys.argv[4]), sys.argv[5])
