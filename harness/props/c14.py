"""C14 — freezing a dynamic area yields a grid containing all the data it was fitted to."""
import math
import warnings
from fractions import Fraction

import numpy as np

from . import kdcommon as kc

META = {
    "rule": "one case = (CRS, point cloud, container, resolution | shape | both given up-front, antimeridian mode). Clouds: "
            "random / curved-swath / single-row / with NaN and 1e30, interior extremes (NaN scan edges, pole inside), crossing "
            "+-180 (EPSG:4326 and, suite antimeridian-crs, geographic CRSs given as EPSG code / PROJ string / dict / WKT / CRS object, with a "
            "world-wide, a regional or no area of use in the PROJ database, positions taken in the requested CRS); containers: numpy tuple, dask tuple, SwathDefinition (2-D); resolutions scalar / tuple (exact class: powers "
            "of two on a geographic CRS); shapes >= 2x2. Non-trivial: cloud has >= 3 finite points not all on a line and at "
            "least one NaN, or crosses the antimeridian. Distinct = distinct canonical input.",
    "assumptions": ["projected positions of the points are obtained by the harness with the same pyproj transformation "
                    "(EPSG:4326 -> CRS, always_xy) the code uses", "float evaluation of floor/ceil/round of the extent "
                    "quotients is exact unless the exact quotient is within 1e-9 of an integer (then either neighbour is accepted)"],
}

CRSS = [
    ("laea", {"proj": "laea", "lat_0": 55, "lon_0": 15, "ellps": "WGS84"}),
    ("stere", {"proj": "stere", "lat_0": 90, "lat_ts": 60, "lon_0": 0, "ellps": "WGS84"}),
    ("merc", {"proj": "merc", "lon_0": 0, "ellps": "WGS84"}),
    ("eqc", {"proj": "eqc", "lon_0": 0, "ellps": "WGS84"}),
    ("utm33", "EPSG:32633"),
    ("geographic", "EPSG:4326"),
]


def _cloud(rng, kind, lon0, lat0):
    if kind == "random":
        n = rng.randrange(3, 60)
        lon = np.array([lon0 + rng.uniform(-6, 6) for _ in range(n)]).reshape(1, n)
        lat = np.array([lat0 + rng.uniform(-4, 4) for _ in range(n)]).reshape(1, n)
    elif kind == "dyadic":
        n = rng.randrange(3, 40)
        lon = np.array([lon0 + rng.randrange(-64, 64) / 8 for _ in range(n)]).reshape(1, n)
        lat = np.array([lat0 + rng.randrange(-32, 32) / 8 for _ in range(n)]).reshape(1, n)
    else:
        r, c = rng.randrange(3, 9), rng.randrange(3, 9)
        lon, lat = kc.swath(rng, r, c, lon0, lat0, rng.choice([3.0, 10.0]))
        if kind == "nan_edges":        # missing navigation on the scan edges: the extremes become interior points
            lon[:, 0] = np.nan
            lat[:, 0] = np.nan
            lon[: r // 2, -1] = np.nan
            lat[: r // 2, -1] = np.nan
    lon, lat = lon.astype(float), lat.astype(float)
    lat = np.clip(lat, -89.5, 89.5)
    lon = (lon + 180) % 360 - 180
    if kind in ("random", "swath") and rng.random() < 0.5:
        i = rng.randrange(lon.size)
        lon.ravel()[i] = np.nan
        lat.ravel()[i] = np.nan
    return lon, lat


def _project(crs, lon, lat):
    import pyproj
    tr = pyproj.Transformer.from_crs(pyproj.CRS(4326), pyproj.CRS(crs), always_xy=True)
    x, y = tr.transform(lon, lat)
    x, y = np.asarray(x, float), np.asarray(y, float)
    x[x > 9e29] = np.nan
    y[y > 9e29] = np.nan
    return x, y


def _wrap(container, lon, lat):
    import dask.array as da
    from pyresample.geometry import SwathDefinition
    if container == "numpy":
        return (lon, lat)
    if container == "dask":
        return (da.from_array(lon, chunks=2), da.from_array(lat, chunks=2))
    return SwathDefinition(lon, lat)


def _near_int(q):
    return abs(q - round(q)) <= Fraction(1, 10 ** 9)


def check(ctx, cname, crs, lon, lat, container, mode, value, ckind):
    from pyresample.geometry import DynamicAreaDefinition
    x, y = _project(crs, lon, lat)
    ok = np.isfinite(x) & np.isfinite(y)
    if ok.sum() < 2:
        return
    inp = {"crs": cname, "cloud": ckind, "n_points": int(lon.size), "n_finite": int(ok.sum()), "container": container, mode: value if mode != "shape" else list(value)}
    try:
        with warnings.catch_warnings():
            warnings.simplefilter("ignore")
            dyn = DynamicAreaDefinition("d", "d", crs)
            kw = {mode: value}
            lo_in, la_in = lon.copy(), lat.copy()
            given = _wrap(container, lo_in, la_in)
            area = dyn.freeze(given, **kw)
            # freezing is a query: the caller's coordinates are the same afterwards, and asking again gives the same area
            if not (np.array_equal(lo_in, lon, equal_nan=True) and np.array_equal(la_in, lat, equal_nan=True)):
                ctx.fail("DynamicAreaDefinition.freeze", "freeze() changed the lon/lat arrays it was given (the returned area no longer describes the caller's data)", inp,
                         {"max_change": float(np.nanmax(np.abs(lo_in - lon)))}, tags={"family": "inputs-modified", "container": container}, size=int(lon.size))
                return
            again = DynamicAreaDefinition("d", "d", crs).freeze(given, **kw)
            if again.shape != area.shape or not np.allclose(again.area_extent, area.area_extent, rtol=1e-12, atol=0):
                ctx.fail("DynamicAreaDefinition.freeze", f"a second freeze of the same data gives extent {list(again.area_extent)} / shape {again.shape}, the first "
                         f"{list(area.area_extent)} / {area.shape}", inp, tags={"family": "second-freeze"}, size=int(lon.size))
                return
    except Exception as e:  # noqa
        ctx.fail("DynamicAreaDefinition.freeze", f"raised {type(e).__name__}: {e}", inp, size=int(lon.size))
        return
    ext = [Fraction(float(v)) for v in area.area_extent]
    xs, ys = x[ok], y[ok]
    xmin, xmax, ymin, ymax = (Fraction(float(v)) for v in (xs.min(), xs.max(), ys.min(), ys.max()))
    scale = float(max(1, max(abs(v) for v in ext)))
    tol = Fraction(scale) * Fraction(1, 10 ** 9)
    probs = []
    # "in the requested CRS" (up to pyproj's re-rendering of the definition): the area's own CRS puts every point where the requested one does
    xa, ya = _project(area.crs, lon, lat)
    if not (np.allclose(xa[ok], xs, rtol=0, atol=1e-9 * scale) and np.allclose(ya[ok], ys, rtol=0, atol=1e-9 * scale)):
        probs.append(f"the area is not in the requested CRS: its CRS {area.crs.to_proj4()} puts the points up to "
                     f"{float(max(np.max(np.abs(xa[ok] - xs)), np.max(np.abs(ya[ok] - ys)))):.6g} away from where the requested CRS puts them")
    # containment of every finite point + valid pixel
    if not (ext[0] - tol <= xmin and xmax <= ext[2] + tol and ext[1] - tol <= ymin and ymax <= ext[3] + tol):
        probs.append("extent does not contain the projected position of every finite point")
    else:
        with warnings.catch_warnings():
            warnings.simplefilter("ignore")
            ix, iy = area.get_array_indices_from_projection_coordinates(xs, ys)
        if np.ma.getmaskarray(ix).any() or np.ma.getmaskarray(iy).any():
            probs.append("a finite point does not map to a valid pixel of the frozen area")
    if mode == "resolution":
        rx, ry = (value, value) if not isinstance(value, tuple) else value
        if not (abs(area.pixel_size_x - rx) <= 1e-9 * rx and abs(area.pixel_size_y - ry) <= 1e-9 * ry):
            probs.append(f"requested resolution not honoured: pixel size ({area.pixel_size_x}, {area.pixel_size_y})")
        for v, r_ in ((ext[0], rx), (ext[2], rx), (ext[1], ry), (ext[3], ry)):
            if not _near_int(v / Fraction(float(r_))):
                probs.append("extent not aligned to a multiple of the resolution")
                break
    else:
        H, W = value
        if (area.height, area.width) != (H, W):
            probs.append(f"requested shape not honoured: {(area.height, area.width)}")
        else:
            cx0 = ext[0] + Fraction(float(area.pixel_size_x)) / 2
            cx1 = ext[2] - Fraction(float(area.pixel_size_x)) / 2
            cy0 = ext[1] + Fraction(float(area.pixel_size_y)) / 2
            cy1 = ext[3] - Fraction(float(area.pixel_size_y)) / 2
            if max(abs(cx0 - xmin), abs(cx1 - xmax), abs(cy0 - ymin), abs(cy1 - ymax)) > tol:
                probs.append("outermost points are not on the outermost pixel centres")
    if probs:
        ctx.fail("DynamicAreaDefinition.freeze", "; ".join(probs), inp,
                 {"extent": [float(v) for v in ext], "shape": [area.height, area.width], "data_box": [float(xmin), float(ymin), float(xmax), float(ymax)]},
                 tags={"mode": mode, "cloud": ckind, "container": container}, size=int(lon.size))
    # model
    if ctx.M:
        if mode == "resolution":
            rx, ry = (value, value) if not isinstance(value, tuple) else value
            rep = ctx.M.ask("res", xmin, ymin, xmax, ymax, Fraction(float(rx)), Fraction(float(ry)))
        else:
            rep = ctx.M.ask("shape", xmin, ymin, xmax, ymax, value[0], value[1])
        if rep.startswith("err"):
            ctx.disagree("domain", inp, "area", rep)
        else:
            t = rep.split()
            mext = [Fraction(v) for v in t[:4]]
            mw, mh = int(t[4]), int(t[5])
            amb = mode == "resolution" and any(_near_int((c_ + s * Fraction(float(r_)) / 2) / Fraction(float(r_)))
                                               for c_, r_, s in ((xmin, rx, -1), (xmax, rx, 1), (ymin, ry, -1), (ymax, ry, 1)))
            if not amb and (any(abs(a - b) > tol for a, b in zip(ext, mext)) or (mw, mh) != (area.width, area.height)):
                ctx.disagree("domain", inp, {"extent": [float(v) for v in ext], "shape": [area.height, area.width]},
                             {"extent": [float(v) for v in mext], "shape": [mh, mw]})
    nan_any = bool((~ok).any())
    ctx.case("freeze", (cname, ckind, container, mode, str(value), float(xs.sum())), nontrivial=nan_any or ckind in ("nan_edges", "swath"),
             sample={"input": inp, "extent": [float(v) for v in ext], "shape": [area.height, area.width]})
    ctx.count(f"mode.{mode}")
    ctx.count(f"container.{container}")


def _geographic_pool(ctx):
    """geographic CRSs with Greenwich as prime meridian, in the forms a caller may hold them: EPSG codes (world-wide and regional datums),
    PROJ strings / dicts that pyproj maps back to an EPSG code, and definitions that are in no database (bare ellipsoid, sphere, custom
    axes), as text, dict and CRS object.  -> [(name, crs, area of use of the CRS as PROJ knows it: global / regional / none)]"""
    import pyproj
    pool = [("EPSG:4326", "EPSG:4326"), ("OGC:CRS84", "OGC:CRS84"), ("longlat_datum_wgs84", {"proj": "longlat", "datum": "WGS84"}),
            ("longlat_ellps_wgs84", "+proj=longlat +ellps=WGS84 +no_defs"), ("longlat_sphere", "+proj=longlat +R=6371228 +no_defs"),
            ("longlat_grs80_dict", {"proj": "longlat", "ellps": "GRS80"}), ("longlat_a_b", "+proj=longlat +a=6378137 +b=6356752.3"),
            ("longlat_bessel", "+proj=longlat +ellps=bessel"), ("longlat_sphere_crs_object", pyproj.CRS("+proj=longlat +R=6370997")),
            ("longlat_ellps_wgs84_wkt", pyproj.CRS("+proj=longlat +ellps=WGS84").to_wkt()),
            ("EPSG:4269 (NAD83)", "EPSG:4269"), ("longlat_datum_nad83", "+proj=longlat +datum=NAD83"), ("EPSG:4258 (ETRS89)", "EPSG:4258")]
    out = []
    for nm, crs in pool:
        with warnings.catch_warnings():
            warnings.simplefilter("ignore")
            c = pyproj.CRS(crs)
            code = c.to_epsg()
            aou = (pyproj.CRS.from_epsg(code) if code else c).area_of_use
        kind = "none" if aou is None else ("global" if aou.west <= -180 and aou.east >= 180 else "regional")
        out.append((nm, crs, kind))
    return out


def suite_antimeridian(ctx, pool=None, n_clouds=None, suite="antimeridian"):
    """data over +-180 frozen on a geographic CRS in every antimeridian mode.  pool=None: EPSG:4326 only; otherwise the clouds go round
    the CRSs of `pool` ((name, crs, area-of-use kind) from _geographic_pool) and positions are taken in the requested CRS"""
    from pyresample.geometry import DynamicAreaDefinition
    r = ctx.rng
    for k_cloud in range((24 if ctx.quick else 200) if n_clouds is None else n_clouds):
        cname, crs, aou_kind = ("EPSG:4326", "EPSG:4326", "global") if pool is None else pool[k_cloud % len(pool)]
        spread = 8 if pool is None else r.choice([3, 8, 15])
        n = r.randrange(4, 30)
        lat0 = r.uniform(-60, 60)
        lon = np.array([((180 + r.uniform(-spread, spread)) + 180) % 360 - 180 for _ in range(n)])
        lon[0], lon[1] = 179.0 + r.random() * 0.9, -179.9 + r.random() * 0.9
        if r.random() < 0.3:
            lon[2] = 180.0
        lat = np.array([lat0 + r.uniform(-5, 5) for _ in range(n)])
        has_nan = r.random() < 0.4
        if has_nan:      # missing navigation: not a data point
            k_ = r.randrange(3, n)
            lon[k_] = lat[k_] = np.nan
        lon2, lat2 = lon.reshape(1, n), lat.reshape(1, n)
        lon_all = lon.copy()
        fin = np.isfinite(lon) & np.isfinite(lat)
        lon, lat = lon[fin], lat[fin]
        # positions of the data in the requested CRS (EPSG:4326: the lon/lats themselves)
        xs, ys = (lon, lat) if pool is None else _project(crs, lon, lat)
        # what the model is fed: the x positions in the requested CRS (the code wraps *those*, `xarr % 360`; for a datum with a shift
        # against WGS 84 they differ from the given longitudes by the shift), missing navigation kept as NaN
        x_all = lon_all.copy()
        x_all[fin] = xs
        for amode in ("modify_extents", "modify_crs", "global_extents"):
            for mode, value in (("resolution", r.choice([0.25, 0.5, 1.0])), ("shape", (r.randrange(2, 14), r.randrange(2, 30)))):
                container = r.choice(["numpy", "dask", "swath"])
                inp = {"crs": cname if pool is None else f"{cname}: {crs if isinstance(crs, (str, dict)) else crs.to_proj4()}"[:160], "antimeridian_mode": amode, "container": container, mode: value if mode != "shape" else list(value),
                       "lon_range": [float(lon.min()), float(lon.max())], "n": n, "has_180": bool((lon == 180.0).any()), "has_nan": has_nan}
                if pool is not None:
                    inp.update({"crs_area_of_use": aou_kind, "lon": [float(v) for v in lon_all], "lat": [float(v) for v in lat2.ravel()]})
                try:
                    with warnings.catch_warnings():
                        warnings.simplefilter("ignore")
                        area = DynamicAreaDefinition("d", "d", crs).freeze(_wrap(container, lon2.copy(), lat2.copy()),
                                                                             antimeridian_mode=amode, **{mode: value})
                        ix, iy = area.get_array_indices_from_lonlat(lon, lat)
                except Exception as e:  # noqa
                    ctx.fail("DynamicAreaDefinition.freeze", f"raised {type(e).__name__}: {e}", inp, size=n)
                    continue
                ext = [float(v) for v in area.area_extent]
                probs = []
                if amode == "global_extents":
                    if not (ext[0] <= -180 + 1e-9 and ext[2] >= 180 - 1e-9) or (mode == "shape" and (abs(ext[0] + 180) > 1e-9 or abs(ext[2] - 180) > 1e-9)):
                        probs.append(f"global_extents: x extent is ({ext[0]}, {ext[2]}) instead of the full -180..180")
                    if not (ext[0] <= xs.min() + 1e-9 and xs.max() <= ext[2] + 1e-9):
                        probs.append(f"global_extents: x extent ({ext[0]}, {ext[2]}) does not contain the data ({float(xs.min())} .. {float(xs.max())})")
                elif amode == "modify_extents":
                    w = xs % 360
                    if not (ext[0] <= w.min() + 1e-9 and w.max() <= ext[2] + 1e-9):
                        probs.append("modify_extents: extent does not contain every longitude modulo 360")
                    if ext[2] - ext[0] > 60:
                        probs.append("modify_extents: the area spans far more than the data (not the smallest area across the antimeridian)")
                else:
                    if "pm" not in str(area.crs.to_dict()) and area.crs.prime_meridian.longitude == 0:
                        probs.append("modify_crs: the CRS prime meridian was not moved")
                    w = (xs % 360) - 180
                    if not (ext[0] <= w.min() + 1e-9 and w.max() <= ext[2] + 1e-9):
                        probs.append("modify_crs: extent does not contain every longitude in the shifted CRS")
                if not (ext[1] <= ys.min() + 1e-9 and ys.max() <= ext[3] + 1e-9):
                    probs.append("latitudes not contained")
                if pool is not None:
                    # "in the requested CRS": the area's own CRS puts every point where the requested one does (modify_crs: 180 degrees further
                    # west), on the same ellipsoid
                    import pyproj
                    with warnings.catch_warnings():
                        warnings.simplefilter("ignore")
                        xa, ya = _project(area.crs, lon, lat)
                        want_crs = pyproj.CRS(crs)
                    shift = 180.0 if amode == "modify_crs" else 0.0
                    # modify_crs re-expresses the CRS with +pm=180; PROJ cannot attach a named datum (NAD83, ETRS89, ...) to a moved prime
                    # meridian, so the datum becomes "unknown based on <ellipsoid>" and positions differ from the requested CRS by that datum's
                    # shift against WGS 84 (decimetres to metres, only inside the shift's area of use).  That is inherent in the documented
                    # mode, not a wrong CRS: 1e-4 degrees there, exact agreement in the modes that keep the CRS object
                    ptol = 1e-4 if amode == "modify_crs" else 1e-9
                    if not area.crs.is_geographic:
                        probs.append(f"the area is not in a geographic CRS: {area.crs.to_proj4()}")
                    elif not (np.allclose((xa - xs + shift + 180) % 360 - 180, 0, rtol=0, atol=ptol) and np.allclose(ya, ys, rtol=0, atol=ptol)):
                        probs.append(f"the area is not in the requested CRS: its CRS {area.crs.to_proj4()} puts the points elsewhere")
                    elif (abs(area.crs.ellipsoid.semi_major_metre - want_crs.ellipsoid.semi_major_metre) > 1e-6
                          or abs(area.crs.ellipsoid.semi_minor_metre - want_crs.ellipsoid.semi_minor_metre) > 1e-6):
                        probs.append(f"the area is not in the requested CRS: ellipsoid {area.crs.ellipsoid.semi_major_metre} / {area.crs.ellipsoid.semi_minor_metre} "
                                     f"instead of {want_crs.ellipsoid.semi_major_metre} / {want_crs.ellipsoid.semi_minor_metre}")
                # modify_extents documents that x runs past 180: points are contained modulo 360 (checked above), the
                # plain lon/lat lookup is only required to work for the other two modes
                if amode != "modify_extents" and (np.ma.getmaskarray(ix).any() or np.ma.getmaskarray(iy).any()):
                    probs.append("a data point does not map to a valid pixel of the frozen area")
                if mode == "resolution" and abs(area.pixel_size_x - value) > 1e-9:
                    probs.append("resolution not honoured")
                if mode == "shape" and (area.height, area.width) != tuple(value):
                    probs.append("shape not honoured")
                if probs:
                    ctx.fail("DynamicAreaDefinition.freeze(antimeridian_mode)", "; ".join(probs), inp, {"extent": ext, "shape": [area.height, area.width]},
                             tags={"amode": amode, "mode": mode}, size=n)
                if ctx.M and amode != "global_extents":
                    rep = ctx.M.ask("anti", 180 if amode == "modify_crs" else 0, ["nan" if np.isnan(v) else Fraction(float(v)) for v in x_all]).split()
                    # corner centres from the model -> through the model's domain computation
                    xmin, xmax = Fraction(rep[0]), Fraction(rep[1])
                    ymin, ymax = Fraction(float(ys.min())), Fraction(float(ys.max()))
                    rep2 = (ctx.M.ask("res", xmin, ymin, xmax, ymax, Fraction(value), Fraction(value)) if mode == "resolution"
                            else ctx.M.ask("shape", xmin, ymin, xmax, ymax, value[0], value[1]))
                    t = rep2.split()
                    if not rep2.startswith("err"):
                        mext = [float(Fraction(v)) for v in t[:4]]
                        near = mode == "resolution" and any(_near_int((c_ + s * Fraction(value) / 2) / Fraction(value))
                                                            for c_, s in ((xmin, -1), (xmax, 1), (ymin, -1), (ymax, 1)))
                        if not near and (max(abs(a - b) for a, b in zip(ext, mext)) > 1e-9 or (int(t[4]), int(t[5])) != (area.width, area.height)):
                            ctx.disagree("antimeridian", inp, {"extent": ext, "shape": [area.height, area.width]}, {"extent": mext, "shape": [int(t[5]), int(t[4])]})
                elif ctx.M and amode == "global_extents":
                    ymin, ymax = Fraction(float(ys.min())), Fraction(float(ys.max()))
                    rep2 = (ctx.M.ask("fullres", -180, 180, 0, ymin, 0, ymax, Fraction(value), Fraction(value)) if mode == "resolution"
                            else ctx.M.ask("fullshape", -180, 180, 0, ymin, 0, ymax, value[0], value[1]))
                    t = rep2.split()
                    if not rep2.startswith("err") and (abs(float(Fraction(t[0])) - ext[0]) > 1e-9 or abs(float(Fraction(t[2])) - ext[2]) > 1e-9
                                                       or (int(t[4]), int(t[5])) != (area.width, area.height)):
                        ctx.disagree("global_extents", inp, {"extent": ext, "shape": [area.height, area.width]}, rep2)
                if pool is None:
                    ctx.case("antimeridian", (amode, mode, str(value), container, float(lon.sum())), nontrivial=True, sample={"input": inp, "extent": ext})
                else:
                    ctx.case(suite, (cname, amode, mode, str(value), container, float(lon.sum())), nontrivial=True,
                             sample={"input": {k_: v_ for k_, v_ in inp.items() if k_ not in ("lon", "lat")}, "extent": ext})
                    ctx.count(f"{suite}.area_of_use.{aou_kind}")


def suite_wide_and_histories(ctx):
    """(a) clouds that span more than half the globe WITHOUT coming near the antimeridian are ordinary clouds in every antimeridian mode;
    (b) one DynamicAreaDefinition frozen several times gives, each time, what a fresh one gives"""
    from pyresample.geometry import DynamicAreaDefinition
    r = ctx.rng
    for _ in range(10 if ctx.quick else 80):
        n = r.randrange(6, 30)
        west, east = r.uniform(-160, -95), r.uniform(85, 165)
        lon = np.array([r.uniform(west, east) for _ in range(n)])
        lon[0], lon[1] = west, east
        lat = np.array([r.uniform(-55, 60) for _ in range(n)])
        for amode in (None, "modify_extents", "modify_crs"):
            mode, value = r.choice([("resolution", r.choice([0.5, 1.0, 2.0])), ("shape", (r.randrange(3, 14), r.randrange(4, 30)))])
            container = r.choice(["numpy", "dask", "swath"])
            inp = {"crs": "EPSG:4326", "antimeridian_mode": amode, "container": container, mode: value if mode != "shape" else list(value),
                   "lon_range": [float(lon.min()), float(lon.max())], "n": n}
            try:
                with warnings.catch_warnings():
                    warnings.simplefilter("ignore")
                    kw = {} if amode is None else {"antimeridian_mode": amode}
                    area = DynamicAreaDefinition("d", "d", "EPSG:4326").freeze(_wrap(container, lon.reshape(1, n).copy(), lat.reshape(1, n).copy()), **kw, **{mode: value})
                    ix, iy = area.get_array_indices_from_lonlat(lon, lat)
            except Exception as e:  # noqa
                ctx.fail("DynamicAreaDefinition.freeze", f"raised {type(e).__name__}: {e}", inp, size=n)
                continue
            ext = [float(v) for v in area.area_extent]
            probs = []
            if area.crs.prime_meridian.longitude != 0:
                probs.append("the prime meridian was moved although the data do not come near the antimeridian")
            if not (ext[0] <= lon.min() + 1e-9 and lon.max() <= ext[2] + 1e-9):
                probs.append(f"x extent ({ext[0]:.3f}, {ext[2]:.3f}) does not contain the longitudes {lon.min():.3f} .. {lon.max():.3f}")
            px_ = abs(area.pixel_size_x)
            if ext[2] - ext[0] > (lon.max() - lon.min()) + 4 * px_ + 1e-6:   # (resolution mode aligns the corners to the resolution grid)
                probs.append(f"x extent ({ext[0]:.3f}, {ext[2]:.3f}) is wider than the data ({lon.min():.3f} .. {lon.max():.3f}) plus two pixels on each side")
            if np.ma.getmaskarray(ix).any() or np.ma.getmaskarray(iy).any():
                probs.append("a data point does not map to a valid pixel of the frozen area")
            if probs:
                ctx.fail("DynamicAreaDefinition.freeze(antimeridian_mode)", "; ".join(probs[:3]), inp, {"extent": ext, "shape": [area.height, area.width]},
                         tags={"amode": str(amode), "family": "wide-no-crossing"}, size=n)
            ctx.case("wide", (str(amode), mode, str(value), container, float(lon.sum())), nontrivial=True, sample={"input": inp, "extent": ext})
    # histories on one instance
    for _ in range(8 if ctx.quick else 60):
        dyn = DynamicAreaDefinition("d", "d", "EPSG:4326")
        hist = []
        for step in range(r.randrange(2, 5)):
            crossing = r.random() < 0.5
            n = r.randrange(4, 16)
            if crossing:
                lon = np.array([((180 + r.uniform(-8, 8)) + 180) % 360 - 180 for _ in range(n)])
                lon[0], lon[1] = 179.5, -179.5
            else:
                lon = np.array([r.uniform(-10.0, 10.0) for _ in range(n)])
            lat = np.array([r.uniform(-40, 50) for _ in range(n)])
            amode = r.choice(["modify_crs", "modify_extents", None, "global_extents"])
            kw = {"resolution": r.choice([0.5, 1.0])}
            if amode is not None:
                kw["antimeridian_mode"] = amode
            hist.append({"crossing": crossing, "antimeridian_mode": amode, "resolution": kw["resolution"]})
            try:
                with warnings.catch_warnings():
                    warnings.simplefilter("ignore")
                    got = dyn.freeze((lon.reshape(1, n).copy(), lat.reshape(1, n).copy()), **kw)
                    want = DynamicAreaDefinition("d", "d", "EPSG:4326").freeze((lon.reshape(1, n).copy(), lat.reshape(1, n).copy()), **kw)
            except Exception as e:  # noqa
                ctx.fail("DynamicAreaDefinition.freeze", f"raised {type(e).__name__}: {e} (history {hist})", {"history": hist}, size=len(hist))
                break
            same = (got.crs == want.crs and got.shape == want.shape and np.allclose(got.area_extent, want.area_extent, rtol=0, atol=1e-9))
            if not same:
                ctx.fail("DynamicAreaDefinition.freeze", f"freeze number {step + 1} on the same DynamicAreaDefinition differs from the freeze of a fresh one: CRS "
                         f"{got.crs.to_dict()} vs {want.crs.to_dict()}, extent {[round(float(v), 4) for v in got.area_extent]} vs {[round(float(v), 4) for v in want.area_extent]}",
                         {"history": hist}, tags={"family": "history"}, size=len(hist))
                break
        ctx.case("freeze-history", str(hist), nontrivial=len(hist) > 1)


def _pm_crs_pool(ctx):
    """geographic CRSs whose prime meridian is not Greenwich, in the forms a caller may hold them: PROJ strings, dicts, named prime
    meridians, other ellipsoids, and the CRS of an area that freeze(antimeridian_mode='modify_crs') itself produced (as CRS object,
    WKT, PROJ string, dict) re-used for the next dynamic area"""
    import pyproj
    from pyresample.geometry import DynamicAreaDefinition
    r = ctx.rng
    pool = [("longlat_pm180", "+proj=longlat +ellps=WGS84 +pm=180"),
            ("longlat_pm90", "+proj=longlat +ellps=WGS84 +pm=90"),
            ("longlat_pm-90_datum", {"proj": "longlat", "datum": "WGS84", "pm": -90}),
            ("longlat_pm_random", {"proj": "longlat", "ellps": "WGS84", "pm": round(r.uniform(-179, 179), r.choice([0, 2, 6]))}),
            ("longlat_pm_paris", "+proj=longlat +ellps=WGS84 +pm=paris"),
            ("longlat_grs80_pm", {"proj": "longlat", "ellps": "GRS80", "pm": r.choice([-60, 30, 150])}),
            ("longlat_sphere_pm", f"+proj=longlat +R=6371229 +pm={r.choice([120, -135, 10])}")]
    # first granule crosses +-180 and is frozen with modify_crs; its CRS is what the following granules are frozen on
    n = r.randrange(4, 12)
    lon = np.array([((180 + r.uniform(-8, 8)) + 180) % 360 - 180 for _ in range(n)])
    lon[0], lon[1] = 179.5, -179.5
    lat = np.array([r.uniform(-40, 50) for _ in range(n)])
    with warnings.catch_warnings():
        warnings.simplefilter("ignore")
        first = DynamicAreaDefinition("d", "d", r.choice(["EPSG:4326", {"proj": "longlat", "ellps": "WGS84"}])).freeze(
            (lon.reshape(1, n), lat.reshape(1, n)), resolution=0.5, antimeridian_mode="modify_crs")
    c1 = first.crs
    with warnings.catch_warnings():
        warnings.simplefilter("ignore")
        pool += [("modify_crs_result.crs", c1), ("modify_crs_result.wkt", c1.to_wkt()), ("modify_crs_result.proj4", c1.to_proj4()),
                 ("modify_crs_result.dict", c1.to_dict())]
    with warnings.catch_warnings():
        warnings.simplefilter("ignore")
        return [(f"{nm}: {pyproj.CRS(crs).to_proj4()}", crs, float(pyproj.CRS(crs).prime_meridian.longitude)) for nm, crs in pool]


def suite_prime_meridian(ctx):
    """"for all CRSs": geographic CRSs counting longitude from another meridian.  x of a point is then (lon - pm) wrapped, the seam of
    the CRS lies at pm + 180.  (a) clouds away from that seam - among them clouds over +-180 Greenwich, which are ordinary clouds
    here - through the general check (independent transformation into the CRS, plain containment, valid pixels, resolution /
    shape); (b) clouds over the seam of the CRS with modify_extents: containment modulo 360 in the area's own CRS"""
    import pyproj
    from pyresample.geometry import DynamicAreaDefinition
    r = ctx.rng
    pool = _pm_crs_pool(ctx)
    for k in range(len(pool) * (2 if ctx.quick else 12)):
        cname, crs, pm = pool[k % len(pool)]
        off = r.choice([r.uniform(-150, 150), r.uniform(-150, 150), 180 - pm + r.uniform(-3, 3), -pm + r.uniform(-3, 3)])
        if abs((off + 180) % 360 - 180) > 150:       # (keep clear of the seam of this CRS)
            off = r.uniform(-150, 150)
        lon0, lat0 = ((pm + off) + 180) % 360 - 180, r.uniform(-60, 60)
        ckind = r.choice(["random", "swath", "nan_edges", "dyadic"])
        lon, lat = _cloud(r, ckind, lon0, lat0)
        container = r.choice(["numpy", "dask", "swath"])
        ctx.count("pm.cloud_over_greenwich_antimeridian" if np.nanmax(lon) - np.nanmin(lon) > 300 else "pm.cloud_elsewhere")
        if r.random() < 0.5:
            check(ctx, cname, crs, lon, lat, container, "resolution", r.choice([0.125, 0.25, 0.5, (0.5, 0.25), 1.0]), ckind)
        else:
            check(ctx, cname, crs, lon, lat, container, "shape", (r.randrange(2, 40), r.randrange(2, 40)), ckind)
    # (b) over the seam of the CRS itself
    for k in range(len(pool) * (1 if ctx.quick else 6)):
        cname, crs, pm = pool[k % len(pool)]
        n = r.randrange(4, 30)
        seam = pm + 180
        lon = np.array([((seam + r.uniform(-8, 8)) + 180) % 360 - 180 for _ in range(n)])
        lon[0], lon[1] = ((seam - 0.1 - r.random() * 0.9) + 180) % 360 - 180, ((seam + 0.1 + r.random() * 0.9) + 180) % 360 - 180
        lat = np.array([r.uniform(-55, 55) for _ in range(n)])
        mode, value = r.choice([("resolution", r.choice([0.25, 0.5, 1.0])), ("shape", (r.randrange(2, 14), r.randrange(2, 30)))])
        container = r.choice(["numpy", "dask", "swath"])
        inp = {"crs": cname, "prime_meridian": pm, "antimeridian_mode": "modify_extents", "container": container, mode: value if mode != "shape" else list(value),
               "lon": [float(v) for v in lon], "lat": [float(v) for v in lat]}
        try:
            with warnings.catch_warnings():
                warnings.simplefilter("ignore")
                area = DynamicAreaDefinition("d", "d", crs).freeze(_wrap(container, lon.reshape(1, n).copy(), lat.reshape(1, n).copy()),
                                                                     antimeridian_mode="modify_extents", **{mode: value})
                x, y = pyproj.Transformer.from_crs(pyproj.CRS(4326), area.crs, always_xy=True).transform(lon, lat)
        except Exception as e:  # noqa
            ctx.fail("DynamicAreaDefinition.freeze", f"raised {type(e).__name__}: {e}", inp, size=n)
            continue
        ext = [float(v) for v in area.area_extent]
        probs = []
        xr, yr = pyproj.Transformer.from_crs(pyproj.CRS(4326), pyproj.CRS(crs), always_xy=True).transform(lon, lat)
        if not (np.allclose((np.asarray(xr) - np.asarray(x) + 180) % 360 - 180, 0, rtol=0, atol=1e-9) and np.allclose(yr, y, rtol=0, atol=1e-9)):
            probs.append(f"the area is not in the requested CRS but in {area.crs.to_proj4()}")
        w = np.asarray(x, float) % 360
        if not (ext[0] <= w.min() + 1e-9 and w.max() <= ext[2] + 1e-9):
            probs.append(f"modify_extents: x extent ({ext[0]:.4f}, {ext[2]:.4f}) does not contain every x modulo 360 ({w.min():.4f} .. {w.max():.4f}) of the area's own CRS")
        if ext[2] - ext[0] > 60:
            probs.append("modify_extents: the area spans far more than the data (not the smallest area across the seam)")
        if not (ext[1] <= np.min(y) + 1e-9 and np.max(y) <= ext[3] + 1e-9):
            probs.append("latitudes not contained")
        if mode == "resolution" and abs(area.pixel_size_x - value) > 1e-9:
            probs.append("resolution not honoured")
        if mode == "shape" and (area.height, area.width) != tuple(value):
            probs.append("shape not honoured")
        if probs:
            ctx.fail("DynamicAreaDefinition.freeze(antimeridian_mode)", "; ".join(probs[:3]), inp, {"extent": ext, "shape": [area.height, area.width], "crs": area.crs.to_proj4()},
                     tags={"amode": "modify_extents", "mode": mode, "family": "prime-meridian-seam"}, size=n)
        ctx.case("prime-meridian-seam", (cname, mode, str(value), container, float(lon.sum())), nontrivial=True, sample={"input": inp, "extent": ext})


def suite_given(ctx):
    """explicitly given extent and shape are kept"""
    from pyresample.geometry import DynamicAreaDefinition
    with warnings.catch_warnings():
        warnings.simplefilter("ignore")
        a = DynamicAreaDefinition("d", "d", {"proj": "laea", "lat_0": 55, "lon_0": 15, "ellps": "WGS84"}, width=7, height=5,
                                  area_extent=(-1000.0, -2000.0, 6000.0, 3000.0)).freeze()
    if tuple(a.area_extent) != (-1000.0, -2000.0, 6000.0, 3000.0) or a.shape != (5, 7):
        ctx.fail("DynamicAreaDefinition.freeze", "explicitly given extent and shape are not kept", {}, {"extent": list(a.area_extent), "shape": list(a.shape)}, size=1)
    ctx.case("given", "extent+shape", nontrivial=True)


def suite_plan(ctx):
    """what `freeze` keeps of what it was given (statement: "explicitly given extent/shape are kept"): the real `freeze` on instances and
    arguments with every combination of given / missing resolution, shape, single dimensions and extent, against the model's `freezePlan`
    (tied to the source by `tie_freeze_plan`) and against the statement itself: kept means bit-identical extent and the given shape, wherever
    the data lie"""
    from pyresample.geometry import DynamicAreaDefinition
    r = ctx.rng
    crs = {"proj": "laea", "lat_0": 55, "lon_0": 15, "ellps": "WGS84"}
    n = 60 if ctx.quick else 600
    for _ in range(n):
        self_res = r.choice([None, None, None, None, 1000.0, 2500.0])
        arg_res = r.choice([None, None, None, None, 500.0, 4000.0])
        self_h, self_w = r.choice([(None, None), (None, None), (5, 7), (9, 4), (6, None), (None, 8)])
        arg_shape = r.choice([None, None, None, (4, 6), (7, 3), (None, 5), (3, None)])
        ext = r.choice([None, None, (-1000.0, -2000.0, 6000.0, 3000.0), (-3.5e5, 1.25e5, 2.5e5, 7.75e5)])
        lon = np.array([[12.0 + r.uniform(-2, 2), 16.0 + r.uniform(-2, 2)], [13.0, 18.0 + r.uniform(-1, 1)]])
        lat = np.array([[53.0 + r.uniform(-2, 2), 54.0], [57.0 + r.uniform(-2, 2), 56.0]])
        inp = {"instance": {"resolution": self_res, "height": self_h, "width": self_w, "area_extent": ext},
               "freeze": {"resolution": arg_res, "shape": arg_shape}, "lons": lon.tolist(), "lats": lat.tolist()}
        rep = None
        if ctx.M:
            rep = ctx.M.ask("plan", None if arg_res is None else Fraction(arg_res), None if self_res is None else Fraction(self_res),
                            "none" if arg_shape is None else "some", *(arg_shape or (None, None)), self_h, self_w, ext is not None).split()
        # the statement, without the model: which values win
        win_res = arg_res if arg_res is not None else self_res
        h, w = arg_shape if arg_shape is not None else (self_h, self_w)
        keep = ext is not None and bool(h) and bool(w)
        pass_shape = h is not None and w is not None
        if rep is not None:
            want = [("none" if win_res is None else str(Fraction(win_res))), "shape" if pass_shape else "noshape", str(h).lower() if h is not None else "none",
                    str(w).lower() if w is not None else "none", "keep" if keep else "compute"]
            if [rep[0] if rep[0] == "none" else str(Fraction(rep[0]))] + rep[1:] != want:
                ctx.disagree("plan", inp, want, rep)
        ctx.case("plan", (self_res, arg_res, self_h, self_w, arg_shape, ext is None), nontrivial=True, sample={"input": inp})
        ctx.count("plan." + ("keep" if keep else "compute." + ("both" if (win_res is not None and pass_shape) else "res" if win_res is not None
                                                               else "shape" if pass_shape else "neither")))
        exc = None
        try:
            with warnings.catch_warnings():
                warnings.simplefilter("ignore")
                dyn = DynamicAreaDefinition("d", "d", crs, width=self_w, height=self_h, area_extent=ext, resolution=self_res)
                a = dyn.freeze((lon, lat), resolution=arg_res, shape=arg_shape)
        except Exception as e:  # noqa
            exc = e
        site = "DynamicAreaDefinition.freeze"
        if keep:
            if exc is not None:
                ctx.fail(site, f"extent and both dimensions are given, yet freeze raised {type(exc).__name__}: {exc}", inp, tags={"family": "plan"}, size=1)
            elif tuple(a.area_extent) != tuple(ext) or tuple(a.shape) != (h, w):
                ctx.fail(site, "explicitly given extent and shape are not kept", inp, {"extent": list(a.area_extent), "shape": list(a.shape)},
                         tags={"family": "plan"}, size=1)
            continue
        if (win_res is not None) == pass_shape:
            # both or neither reach compute_domain: it refuses (ValueError), it must not invent a grid
            if exc is None:
                ctx.fail(site, "neither / both of resolution and shape were available, yet an area came back", inp,
                         {"extent": list(a.area_extent), "shape": list(a.shape)}, tags={"family": "plan"}, size=1)
            elif not isinstance(exc, ValueError):
                ctx.fail(site, f"raised {type(exc).__name__}: {exc} instead of the ValueError of compute_domain", inp, tags={"family": "plan"}, size=1)
            continue
        if exc is not None:
            ctx.fail(site, f"raised {type(exc).__name__}: {exc}", inp, tags={"family": "plan"}, size=1)
            continue
        if pass_shape and tuple(a.shape) != (h, w):
            ctx.fail(site, f"the shape that wins ({'argument' if arg_shape is not None else 'instance'}) is {(h, w)}, the area has {tuple(a.shape)}", inp,
                     tags={"family": "plan"}, size=1)
        if win_res is not None and (abs(a.pixel_size_x - win_res) > 1e-9 * win_res or abs(a.pixel_size_y - win_res) > 1e-9 * win_res):
            ctx.fail(site, f"the resolution that wins ({'argument' if arg_res is not None else 'instance'}) is {win_res}, the area has "
                     f"{a.pixel_size_x} x {a.pixel_size_y}", inp, tags={"family": "plan"}, size=1)


def run(ctx):
    r = ctx.rng
    n = 90 if ctx.quick else 900
    for _ in range(n):
        cname, crs = r.choice(CRSS)
        lon0, lat0 = {"laea": (15, 55), "stere": (r.uniform(-180, 180), 75), "merc": (r.uniform(-150, 150), r.uniform(-50, 50)),
                      "eqc": (r.uniform(-150, 150), r.uniform(-60, 60)), "utm33": (15, 50), "geographic": (r.uniform(-150, 150), r.uniform(-60, 60))}[cname]
        ckind = r.choice(["random", "swath", "nan_edges", "dyadic"])
        lon, lat = _cloud(r, ckind, lon0, lat0)
        container = r.choice(["numpy", "dask", "swath"])
        if r.random() < 0.5:
            if cname == "geographic":
                res = r.choice([0.125, 0.25, 0.5, (0.5, 0.25), 1.0])
            else:
                res = r.choice([1000.0, 2500.0, 4096.0, (3000.0, 1500.0)])
            check(ctx, cname, crs, lon, lat, container, "resolution", res, ckind)
        else:
            check(ctx, cname, crs, lon, lat, container, "shape", (r.randrange(2, 40), r.randrange(2, 40)), ckind)
    # pole in the interior of a swath, frozen to a geographic CRS
    for _ in range(3 if ctx.quick else 20):
        lon, lat = kc.swath(r, 9, 9, r.uniform(-180, 180), 89.0, 6.0)
        check(ctx, "geographic", "EPSG:4326", lon, lat, r.choice(["numpy", "swath"]), "resolution", 0.5, "pole_inside")
    suite_antimeridian(ctx)
    suite_wide_and_histories(ctx)
    suite_prime_meridian(ctx)
    suite_given(ctx)
    suite_plan(ctx)
    # data over +-180 on geographic CRSs in every form: with / without an EPSG code, with / without an area of use in the PROJ database
    gpool = _geographic_pool(ctx)
    suite_antimeridian(ctx, pool=gpool, n_clouds=len(gpool) * (1 if ctx.quick else 6), suite="antimeridian-crs")
