"""Shared generators / oracles for the kd-tree family (C02, C03, C04, C05)."""
import math
import warnings

import numpy as np

R = 6370997.0


def xyz(lons, lats):
    """independent lon/lat -> geocentric cartesian on the sphere R"""
    lo, la = np.radians(np.asarray(lons, float)), np.radians(np.asarray(lats, float))
    return np.stack([R * np.cos(la) * np.cos(lo), R * np.cos(la) * np.sin(lo), R * np.sin(la)], axis=-1)


def valid(lons, lats):
    lons, lats = np.asarray(lons, float), np.asarray(lats, float)
    with np.errstate(invalid="ignore"):
        return (lons >= -180) & (lons <= 180) & (lats <= 90) & (lats >= -90)


def dist_matrix(src_lons, src_lats, tgt_lons, tgt_lats):
    """chord distances [n_tgt, n_src]; inf where either end is invalid"""
    sv, tv = valid(src_lons, src_lats), valid(tgt_lons, tgt_lats)
    s = xyz(np.where(sv, src_lons, 0), np.where(sv, src_lats, 0))
    t = xyz(np.where(tv, tgt_lons, 0), np.where(tv, tgt_lats, 0))
    d = np.sqrt(((t[:, None, :] - s[None, :, :]) ** 2).sum(-1))
    d[:, ~sv] = np.inf
    d[~tv, :] = np.inf
    return d, sv, tv


def mk_area(proj, w, h, ext):
    from pyresample.geometry import AreaDefinition
    with warnings.catch_warnings():
        warnings.simplefilter("ignore")
        return AreaDefinition("a", "a", "a", proj, w, h, ext)


PLACES = [  # (name, lon0, lat0)
    ("europe", 10.0, 50.0), ("equator", -60.0, 0.0), ("dateline", 179.5, 20.0), ("dateline_w", -179.7, -35.0),
    ("north_pole", 40.0, 89.6), ("south_pole", -120.0, -89.7), ("high_lat", 25.0, 78.0),
]


def swath(rng, n_rows, n_cols, lon0, lat0, span, invalid_frac=0.0, dup=False):
    """synthetic swath around (lon0, lat0): a tilted lattice with jitter; optional invalid coordinates"""
    ii, jj = np.meshgrid(np.arange(n_rows), np.arange(n_cols), indexing="ij")
    ang = rng.uniform(0, math.pi)
    u = (ii - n_rows / 2) * span / max(n_rows, 1)
    v = (jj - n_cols / 2) * span / max(n_cols, 1)
    lat = lat0 + u * math.cos(ang) - v * math.sin(ang)
    lon = lon0 + (u * math.sin(ang) + v * math.cos(ang)) / max(0.05, math.cos(math.radians(min(89.0, abs(lat0)))))
    lon = lon + np.array([[rng.uniform(-1, 1) for _ in range(n_cols)] for _ in range(n_rows)]) * span * 0.02
    lat = lat + np.array([[rng.uniform(-1, 1) for _ in range(n_cols)] for _ in range(n_rows)]) * span * 0.02
    # over the pole: reflect
    over = lat > 90
    lat = np.where(over, 180 - lat, lat)
    lon = np.where(over, lon + 180, lon)
    under = lat < -90
    lat = np.where(under, -180 - lat, lat)
    lon = np.where(under, lon + 180, lon)
    lon = (lon + 180) % 360 - 180
    if dup and n_rows * n_cols > 3:
        lon[0, 0], lat[0, 0] = lon[-1, -1], lat[-1, -1]
    if invalid_frac > 0:
        bad = [float("nan"), float("inf"), -float("inf"), 181.0, -180.5, 1e30]
        for i in range(n_rows):
            for j in range(n_cols):
                if rng.random() < invalid_frac:
                    k = rng.randrange(4)
                    if k == 0:
                        lon[i, j] = rng.choice(bad)
                    elif k == 1:
                        lat[i, j] = rng.choice([float("nan"), 91.0, -90.5, float("inf")])
                    else:
                        lon[i, j], lat[i, j] = rng.choice(bad), rng.choice([float("nan"), 95.0])
    return lon, lat


def area_at(rng, lon0, lat0, w, h, res_m):
    """small area centred near (lon0, lat0): laea centred there, or polar stere / eqc / longlat"""
    lat0 = max(-89.9, min(89.9, lat0))
    kind = rng.choice(["laea", "laea", "stere", "eqc", "longlat"])
    if kind == "laea":
        proj = {"proj": "laea", "lat_0": lat0, "lon_0": lon0, "ellps": "WGS84"}
        ext = (-w * res_m / 2, -h * res_m / 2, w * res_m / 2, h * res_m / 2)
    elif kind == "stere":
        lat_c = 90 if lat0 >= 0 else -90
        proj = {"proj": "stere", "lat_0": lat_c, "lat_ts": lat_c * 2 / 3, "lon_0": lon0, "ellps": "WGS84"}
        import pyproj
        x, y = pyproj.Proj(proj)(lon0, lat0)
        ext = (x - w * res_m / 2, y - h * res_m / 2, x + w * res_m / 2, y + h * res_m / 2)
    elif kind == "eqc":
        proj = {"proj": "eqc", "lon_0": lon0, "ellps": "WGS84"}
        import pyproj
        x, y = pyproj.Proj(proj)(lon0, max(-80, min(80, lat0)))
        ext = (x - w * res_m / 2, y - h * res_m / 2, x + w * res_m / 2, y + h * res_m / 2)
    else:
        proj = {"proj": "longlat", "datum": "WGS84"}
        d = res_m / 111000.0
        la = max(-89 + h * d / 2, min(89 - h * d / 2, lat0))
        lo = max(-179 + w * d / 2, min(179 - w * d / 2, lon0))
        ext = (lo - w * d / 2, la - h * d / 2, lo + w * d / 2, la + h * d / 2)
    return mk_area(proj, w, h, ext), kind


def geometry_pair(rng, max_src=300, max_tgt=300, invalid=True):
    """(source_def, target_def, description) anywhere on the globe"""
    from pyresample.geometry import GridDefinition, SwathDefinition
    name, lon0, lat0 = rng.choice(PLACES)
    span = rng.choice([0.2, 1.0, 5.0])
    res = span * 111000.0 / 12

    def one(role, limit):
        kind = rng.choice(["swath", "swath", "area", "swath1d", "grid"])
        n_r = rng.randrange(1, max(2, int(math.sqrt(limit))))
        # 2-D geometries get >= 2 columns: data of shape (n, 1) is ambiguous in the kd_tree API
        # (geometry-shaped vs. n points x 1 channel) and is read as the latter
        n_c = rng.randrange(2, max(3, limit // n_r))
        inv = rng.choice([0.0, 0.0, 0.1, 0.3]) if invalid else 0.0
        if kind == "area":
            a, k = area_at(rng, lon0 + rng.uniform(-span, span) / 3, lat0 + rng.uniform(-span, span) / 3, n_c, n_r, res * rng.choice([0.5, 1, 2]))
            return a, f"area[{k} {n_r}x{n_c}]"
        lon, lat = swath(rng, n_r, n_c, lon0 + rng.uniform(-span, span) / 4, lat0 + rng.uniform(-span, span) / 4,
                         span * rng.choice([0.5, 1.0, 1.5]), inv, dup=rng.random() < 0.2)
        if kind == "swath1d":
            return SwathDefinition(lon.ravel(), lat.ravel()), f"swath1d[{lon.size} inv={inv}]"
        if kind == "grid":
            ok = valid(lon, lat)
            lon, lat = np.where(ok, lon, 0.0), np.where(ok, lat, 0.0)   # GridDefinition rejects invalid coordinates
            return GridDefinition(lon, lat), f"grid[{n_r}x{n_c}]"
        return SwathDefinition(lon, lat), f"swath[{n_r}x{n_c} inv={inv}]"
    s, sd = one("src", max_src)
    t, td = one("tgt", max_tgt)
    radius = rng.choice([0.0, res * 0.3, res, res * 3, res * 20, 2.0e7])
    return s, t, radius, f"{name}: {sd} -> {td}, r={radius:.0f}"


def lonlats(geo):
    with warnings.catch_warnings():
        warnings.simplefilter("ignore")
        lo, la = geo.get_lonlats()
    return np.asarray(lo, float), np.asarray(la, float)


def describe(geo):
    """JSON-able description from which `rebuild` reconstructs the geometry (for replay files)"""
    from pyresample.geometry import AreaDefinition, GridDefinition
    if isinstance(geo, AreaDefinition):
        with warnings.catch_warnings():
            warnings.simplefilter("ignore")
            return {"kind": "area", "proj": geo.crs.to_wkt(), "width": geo.width, "height": geo.height, "extent": [float(v) for v in geo.area_extent]}
    lo, la = lonlats(geo)
    return {"kind": "grid" if isinstance(geo, GridDefinition) else "swath", "shape": list(lo.shape),
            "lons": [None if not np.isfinite(v) else float(v) for v in lo.ravel()] if lo.size <= 400 else "omitted",
            "lats": [None if not np.isfinite(v) else float(v) for v in la.ravel()] if lo.size <= 400 else "omitted"}


def rebuild(desc):
    from pyresample.geometry import GridDefinition, SwathDefinition
    if desc["kind"] == "area":
        return mk_area(desc["proj"], desc["width"], desc["height"], desc["extent"])
    lo = np.array([np.nan if v is None else v for v in desc["lons"]], float).reshape(desc["shape"])
    la = np.array([np.nan if v is None else v for v in desc["lats"]], float).reshape(desc["shape"])
    return (GridDefinition if desc["kind"] == "grid" else SwathDefinition)(lo, la)
