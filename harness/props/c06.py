"""C06 — bilinear resampling interpolates: convex weights, exact on affine fields, numpy == xarray for every chunking."""
import math
import warnings
from fractions import Fraction

import numpy as np

from . import kdcommon as kc

META = {
    "rule": "solver suites: one case = (four corner points, target location) given to _get_fractional_distances (and to the three "
            "branch helpers) and to the Lean model with the same doubles as exact rationals; families: irregular convex, non-convex, "
            "axis-aligned rectangles, sheared and general parallelograms, trapezoids, nearly-parallel sides (slope 1e-12..1e-2), "
            "corners missing; compared: which locations get (t, s), the values (1e-6), and - on the real code alone - that the "
            "bilinear map of (s, t) is the target location. corner suites: _get_four_closest_corners vs pickCorner (exact). "
            "resample: _resample vs the model on dyadic values (exact). resampler suites: one case = (source geometry, target area, "
            "neighbours, data kind/dtype/ndim, chunking) through NumpyBilinearResampler and XArrayBilinearResampler with constant, "
            "affine-in-target-coordinates and random fields: range, constant, affine exactness, the four chosen pixels lie in the four "
            "quadrants, value == weights . data, numpy == xarray for all chunkings; further fields: a constant of any sign / magnitude (-1e13..1e13) and "
            "plateaus (levels), float32 or float64; further sources: strips of 65600..70000 x 3..6 pixels (areas lying either way, swaths) with small targets "
            "before / across / beyond line 65536 in the same or another CRS; swath / grid sources whose lon/lat arrays are transposed views, Fortran-ordered, strided or "
            "reversed views (same values, other memory layout): affine / constant / range, equal to the result for C-contiguous copies, numpy == xarray. Non-trivial: at least one location with a value "
            "and one without, or a non-rectangular quadrilateral. Distinct = distinct canonical input.",
    "assumptions": ["np.sqrt is a parameter of the model (exact square root assumed in the theorems; 18-digit rational root in the driver)",
                    "float rounding: fractional distances compared at 1e-6, affine reproduction at 1e-6 of the data range",
                    "pyproj and the kd-tree neighbour order are parameters (the harness reads the neighbour coordinates the library itself "
                    "passes to the solver)",
                    "locations whose exact (s, t) lie within 1e-6 of the border of the unit square, or whose second fractional distance is "
                    "within a factor 10 of the conditioning threshold, are not compared"],
}

F = Fraction
TOL = 1e-6


def fr(x):
    return F(float(x))


def _bmap(P, s, t):
    """bilinear map in floats; P = 4 x (..., 2)"""
    p1, p2, p3, p4 = P
    return (p1 * ((1 - s) * (1 - t))[..., None] + p2 * (s * (1 - t))[..., None] + p3 * ((1 - s) * t)[..., None] + p4 * (s * t)[..., None])


def _model_frac(ctx, pts, ox, oy):
    """pts: 4 (x, y) float pairs"""
    args = []
    for p in pts:
        args += [fr(p[0]), fr(p[1])]
    rep = ctx.M.ask("frac", *args, fr(ox), fr(oy))
    if rep == "none":
        return None
    b, t, s, c = rep.split(" ")
    return {"branch": b, "t": F(t), "s": F(s), "cert": c == "1"}


# -----------------------------------------------------------------------------------------------------------------------
# quadrilateral families
# -----------------------------------------------------------------------------------------------------------------------

def _family(rng, kind):
    """returns (p1, p2, p3, p4, s0, t0): corners UL, UR, LL, LR and the fractional position the target is built from"""
    U = rng.uniform
    s0, t0 = U(0.05, 0.95), U(0.05, 0.95)
    scale = rng.choice([1.0, 1e3, 2.5e4])
    off = np.array([U(-1, 1), U(-1, 1)]) * scale * rng.choice([0.0, 10.0, 300.0])
    if kind == "irregular":
        p1 = np.array([-U(0.4, 1.5), U(0.4, 1.5)])
        p2 = np.array([U(0.4, 1.5), U(0.4, 1.5)])
        p3 = np.array([-U(0.4, 1.5), -U(0.4, 1.5)])
        p4 = np.array([U(0.4, 1.5), -U(0.4, 1.5)])
    elif kind == "rect":
        l, r, u, d = U(0.3, 2), U(0.3, 2), U(0.3, 2), U(0.3, 2)
        p1, p2, p3, p4 = np.array([-l, u]), np.array([r, u]), np.array([-l, -d]), np.array([r, -d])
    elif kind in ("para", "para_hshear", "para_vshear"):
        a = np.array([U(0.5, 2), 0.0 if kind == "para_hshear" else U(-0.6, 0.6)])
        b = np.array([0.0 if kind == "para_vshear" else U(-0.6, 0.6), -U(0.5, 2)])
        p1 = np.array([-U(0.5, 1), U(0.5, 1)])
        p2, p3, p4 = p1 + a, p1 + b, p1 + a + b
    elif kind == "trapezoid":
        l, r, u, d, k = U(0.3, 2), U(0.3, 2), U(0.3, 2), U(0.3, 2), U(0.4, 1.6)
        p1, p2, p3, p4 = np.array([-l, u]), np.array([r, u]), np.array([-l * k, -d]), np.array([r * k, -d])
    elif kind == "near_parallel":
        # a rectangle with sides tilted by tiny angles: the conditioning cases
        l, r, u, d = U(0.3, 2), U(0.3, 2), U(0.3, 2), U(0.3, 2)
        e = [rng.choice([0.0, 1e-13, 1e-11, 1e-9, 1e-8, 1e-4, 1e-3, 1e-2]) * rng.choice([-1, 1]) for _ in range(4)]
        p1, p2 = np.array([-l, u]), np.array([r + e[0], u + e[1]])
        p3, p4 = np.array([-l + e[2], -d]), np.array([r + e[0] + e[2], -d + e[3]])
    elif kind == "exact_b0":
        # small integer corners around the origin for which the linear coefficient b of the quadratic vanishes EXACTLY (opposite roots)
        while True:
            c_ = [rng.randint(1, 5) for _ in range(8)]
            p1, p2, p3, p4 = np.array([-c_[0], c_[1]], float), np.array([c_[2], c_[3]], float), np.array([-c_[4], -c_[5]], float), np.array([c_[6], -c_[7]], float)
            x31, x42, y31, y42 = p3[0] - p1[0], p4[0] - p2[0], p3[1] - p1[1], p4[1] - p2[1]
            a_ = x31 * y42 - y31 * x42
            b_ = x31 * p2[1] - y31 * p2[0] + y42 * p1[0] - x42 * p1[1]
            cc = p1[0] * p2[1] - p2[0] * p1[1]
            if b_ == 0 and a_ != 0 and cc != 0 and 0 < -cc / a_ < 1:
                t0 = math.sqrt(-cc / a_)
                den = (p2[1] + t0 * y42) - (p1[1] + t0 * y31)
                if abs(den) > 1e-6 and 0.05 < (0 - (p1[1] + t0 * y31)) / den < 0.95:
                    s0 = (0 - (p1[1] + t0 * y31)) / den
                    break
        scale = rng.choice([1.0, 0.5, 4.0, 1024.0])
        off = np.array([0.0, 0.0])
        P = [p * scale for p in (p1, p2, p3, p4)]
        return P, np.array([0.0, 0.0]), s0, t0
    elif kind == "rotated":
        ang = U(0.05, 0.7) * rng.choice([-1, 1])
        l, r, u, d = U(0.5, 1.5), U(0.5, 1.5), U(0.5, 1.5), U(0.5, 1.5)
        R = np.array([[math.cos(ang), -math.sin(ang)], [math.sin(ang), math.cos(ang)]])
        p1, p2, p3, p4 = (R @ np.array(v) for v in ([-l, u], [r, u], [-l, -d], [r, -d]))
    else:
        raise ValueError(kind)
    P = [np.asarray(p, float) * scale + off for p in (p1, p2, p3, p4)]
    out = P[0] * (1 - s0) * (1 - t0) + P[1] * s0 * (1 - t0) + P[2] * (1 - s0) * t0 + P[3] * s0 * t0
    return P, out, s0, t0


KINDS = ["irregular", "rect", "para", "para_hshear", "para_vshear", "trapezoid", "near_parallel", "rotated", "exact_b0"]


def _cond_ok(P, t, s, branch):
    """second-fraction conditioning far (factor 10) from the 1e-6 threshold, for both quadratic branches"""
    p1, p2, p3, p4 = P
    out = True
    for (y1, y2, y3, y4, f) in ((p1[1], p3[1], p2[1], p4[1], t), (p1[1], p2[1], p3[1], p4[1], s)):
        y21, y43 = y2 - y1, y4 - y3
        den = y3 + y43 * f - y1 - y21 * f
        m = max(abs(y21), abs(y43))
        ratio = abs(den) / m if m > 0 else 0.0
        if 1e-7 < ratio < 1e-5:
            out = False
    return out


def suite_solver(ctx):
    from pyresample.bilinear import _base as B
    rng = ctx.rng
    n = 400 if ctx.quick else 4000
    for it in range(n):
        kind = rng.choice(KINDS)
        P, out, s0, t0 = _family(rng, kind)
        # quadrant condition of the corner selection
        quad_ok = (P[0][0] < out[0] and P[0][1] > out[1] and P[1][0] > out[0] and P[1][1] > out[1]
                   and P[2][0] < out[0] and P[2][1] < out[1] and P[3][0] > out[0] and P[3][1] < out[1])
        cp = tuple(np.array([p]) for p in P)
        ox, oy = np.array([out[0]]), np.array([out[1]])
        with warnings.catch_warnings(), np.errstate(all="ignore"):
            warnings.simplefilter("ignore")
            t_r, s_r = B._get_fractional_distances(cp, ox, oy)
        t_r, s_r = float(np.ravel(t_r)[0]), float(np.ravel(s_r)[0])
        valid_r = not (math.isnan(t_r) or math.isnan(s_r))
        m = _model_frac(ctx, P, out[0], out[1])
        inp = {"kind": kind, "corners": [[float(v) for v in p] for p in P], "out": [float(out[0]), float(out[1])], "built_from_s_t": [s0, t0]}
        ctx.count(f"solver.kind.{kind}")
        ctx.count(f"solver.branch.{m['branch'] if m else 'none'}")
        if m and not m["cert"]:
            ctx.count("solver.uncertified")
        ctx.case("solver", (kind, str(inp["corners"]), str(inp["out"])), nontrivial=kind != "rect" or not valid_r,
                 sample={"kind": kind, "branch": m["branch"] if m else None})
        scale = max(np.abs(P[1] - P[0]).max(), np.abs(P[2] - P[0]).max())
        # 1. property on the real code: the bilinear map of the returned (s, t) is the target
        if valid_r:
            if not (0 <= t_r <= 1 and 0 <= s_r <= 1):
                ctx.fail("bilinear._base._get_fractional_distances", f"fractional distances outside [0, 1]: t={t_r}, s={s_r}", inp, {"t": t_r, "s": s_r},
                         tags={"cause": "range"}, size=1)
            mp = _bmap([np.array(p) for p in P], np.array(s_r), np.array(t_r))
            err = float(np.abs(mp - out).max()) / scale
            if err > 1e-6:
                ctx.fail("bilinear._base._get_fractional_distances",
                         f"{kind} quadrilateral: returned (t={t_r:.9f}, s={s_r:.9f}) maps to a point {err:.3g} side lengths away from the target "
                         f"(the quadrilateral was built with t={t0:.9f}, s={s0:.9f})", inp, {"t": t_r, "s": s_r, "rel_err": err},
                         tags={"cause": "inexact", "kind": kind}, size=2)
        elif quad_ok and kind != "near_parallel":
            # a target strictly inside a convex quadrilateral with the four corners in the four quadrants must get a value
            ctx.fail("bilinear._base._get_fractional_distances", f"{kind} quadrilateral around the target (built with t={t0:.6f}, s={s0:.6f}): no value produced",
                     inp, None, tags={"cause": "no-value", "kind": kind}, size=3)
        # 2. correspondence with the model
        if not _cond_ok(P, t0, s0, None):
            ctx.count("solver.skipped.conditioning")
            continue
        if m is None:
            if valid_r:
                ctx.disagree("solver", inp, {"t": t_r, "s": s_r}, None, "real code returns fractional distances, the model NaN")
        else:
            if not valid_r:
                ctx.disagree("solver", inp, None, {k: str(v) for k, v in m.items()}, "model returns fractional distances, the real code NaN")
            elif abs(t_r - float(m["t"])) > TOL or abs(s_r - float(m["s"])) > TOL:
                ctx.disagree("solver", inp, {"t": t_r, "s": s_r}, {"t": float(m["t"]), "s": float(m["s"]), "branch": m["branch"]}, "fractional distances differ")

    # the parallelogram helper on true parallelograms (the branch never sees the 4th corner)
    for it in range(40 if ctx.quick else 300):
        kind = rng.choice(["para", "para_hshear", "para_vshear", "rect"])
        P, out, s0, t0 = _family(rng, kind)
        cp = tuple(np.array([p]) for p in P[:3])
        with warnings.catch_warnings(), np.errstate(all="ignore"):
            warnings.simplefilter("ignore")
            t_r, s_r = B._get_fractional_distances_parallellogram(cp, np.array([out[1]]), np.array([out[0]]))
        t_r, s_r = float(np.ravel(t_r)[0]), float(np.ravel(s_r)[0])
        inp = {"kind": kind, "corners": [[float(v) for v in p] for p in P], "out": [float(out[0]), float(out[1])], "built_from_s_t": [s0, t0]}
        ctx.case("par-helper", (kind, str(inp["corners"]), str(inp["out"])), nontrivial=kind != "rect")
        ctx.count(f"par.kind.{kind}")
        x31 = P[2][0] - P[0][0]
        scale = max(np.abs(P[1] - P[0]).max(), np.abs(P[2] - P[0]).max())
        if not (math.isnan(t_r) or math.isnan(s_r)):
            mp = _bmap([np.array(p) for p in P], np.array(s_r), np.array(t_r))
            err = float(np.abs(mp - out).max()) / scale
            if err > 1e-6:
                # the known defect (F10) is precisely: t correct, s = (x - x1 + x_31 t) / x_21 instead of (x - x1 - x_31 t) / x_21
                x21 = P[1][0] - P[0][0]
                s_wrong = (out[0] - P[0][0] + x31 * t_r) / x21
                is_f10 = abs(t_r - t0) < 1e-6 and abs(s_r - s_wrong) < 1e-6 and abs(x31) > 1e-9 * scale
                ctx.fail("bilinear._base._get_fractional_distances_parallellogram",
                         f"true parallelogram with sheared uprights (x_31 = {x31:.4g}): returned s={s_r:.6f} but the target is at s={s0:.6f} (t={t_r:.6f} vs {t0:.6f})",
                         inp, {"t": t_r, "s": s_r}, tags={"cause": "shear-sign" if is_f10 else "parallelogram-other"}, size=1)
        elif abs(x31) < 1e-9 * scale:
            ctx.fail("bilinear._base._get_fractional_distances_parallellogram", "parallelogram with upright sides: no value", inp, None, tags={"cause": "par-no-value"}, size=2)


def suite_corners(ctx):
    from pyresample.bilinear import _base as B
    rng = ctx.rng
    n = 60 if ctx.quick else 500
    for it in range(n):
        nt, k = rng.choice([1, 3, 6]), rng.choice([1, 4, 8, 13])
        out_x = np.array([rng.randint(-8, 8) / 2 for _ in range(nt)])
        out_y = np.array([rng.randint(-8, 8) / 2 for _ in range(nt)])
        in_x = np.array([[rng.choice([np.nan] + [rng.randint(-12, 12) / 2] * 9) for _ in range(k)] for _ in range(nt)])
        in_y = np.array([[rng.randint(-12, 12) / 2 for _ in range(k)] for _ in range(nt)])
        in_y = np.where(np.isnan(in_x), np.nan, in_y)
        idx = np.array([[rng.randint(0, 99) for _ in range(k)] for _ in range(nt)])
        with warnings.catch_warnings(), np.errstate(all="ignore"):
            warnings.simplefilter("ignore")
            res, ind = B._get_four_closest_corners(in_x, in_y, out_x, out_y, k, idx)
        inp = {"in_x": in_x.tolist(), "in_y": in_y.tolist(), "out_x": out_x.tolist(), "out_y": out_y.tolist(), "index_array": idx.tolist()}
        ctx.case("corners", str(inp), nontrivial=k > 1)
        ctx.count("corners.cases")
        for i in range(nt):
            toks = []
            for j in range(k):
                toks += ["nan", "nan"] if np.isnan(in_x[i, j]) else [fr(in_x[i, j]), fr(in_y[i, j])]
            rep = [int(v) for v in ctx.M.ask("corners", k, fr(out_x[i]), fr(out_y[i]), *toks).split(" ")]
            for q in range(4):
                gx, gy = res[q][i]
                if rep[q] < 0:
                    ok = np.isnan(gx) and np.isnan(gy)
                    exp = "nan"
                    ctx.count("corners.missing")
                else:
                    ok = gx == in_x[i, rep[q]] and gy == in_y[i, rep[q]] and ind[i, q] == idx[i, rep[q]]
                    exp = [float(in_x[i, rep[q]]), float(in_y[i, rep[q]]), int(idx[i, rep[q]])]
                    ctx.count("corners.found")
                if not ok:
                    ctx.disagree("corners", {**inp, "target": i, "quadrant": q}, [float(gx), float(gy), int(ind[i, q])], exp, "corner selection differs")


def suite_resample(ctx):
    from pyresample.bilinear import _base as B
    rng = ctx.rng
    for it in range(60 if ctx.quick else 400):
        v = [rng.randint(-64, 64) / 4 for _ in range(4)]
        s, t = rng.randint(0, 16) / 16, rng.randint(0, 16) / 16
        got = float(B._resample(tuple(np.array([x]) for x in v), (np.array([s]), np.array([t])))[0])
        exp = F(ctx.M.ask("resample", *[fr(x) for x in v], fr(s), fr(t)))
        ctx.case("resample", (tuple(v), s, t), nontrivial=0 < s < 1 and 0 < t < 1)
        if F(got) != exp:
            ctx.disagree("resample", {"values": v, "s": s, "t": t}, got, float(exp), "_resample differs from the model")
        if not (min(v) <= got <= max(v)):
            ctx.fail("bilinear._base._resample", f"value {got} outside the range of the four corner values {v}", {"values": v, "s": s, "t": t}, got, tags={"cause": "range"}, size=1)
    # unsigned / integer corner values must not wrap
    for dt in (np.uint8, np.int16, np.uint16):
        for it in range(10 if ctx.quick else 60):
            info = np.iinfo(dt)
            v = [rng.randint(info.min, info.max) for _ in range(4)]
            s, t = rng.random(), rng.random()
            got = float(np.asarray(B._resample(tuple(np.array([x], dtype=dt) for x in v), (np.array([s]), np.array([t]))))[0])
            exp = v[0] * (1 - s) * (1 - t) + v[1] * s * (1 - t) + v[2] * (1 - s) * t + v[3] * s * t
            ctx.case("resample-int", (np.dtype(dt).name, tuple(v), s, t), nontrivial=True)
            ctx.count(f"resample.int.{np.dtype(dt).name}")
            if abs(got - exp) > 1e-6 * (1 + abs(exp)) or not (min(v) - 1e-9 <= got <= max(v) + 1e-9):
                ctx.fail("bilinear._base._resample", f"{np.dtype(dt).name} corner values {v}, s={s:.4f}, t={t:.4f}: result {got}, the weighted mean is {exp:.6f}",
                         {"dtype": np.dtype(dt).name, "values": v, "s": s, "t": t}, got, tags={"cause": "integer-arith"}, size=1)


# -----------------------------------------------------------------------------------------------------------------------
# the resamplers
# -----------------------------------------------------------------------------------------------------------------------

def _geoms(ctx):
    """(label, source, target, radius, neighbours)"""
    from pyresample.geometry import AreaDefinition, SwathDefinition
    rng = ctx.rng
    A = lambda name, proj, w, h, ext: AreaDefinition(name, name, name, proj, w, h, ext)
    laea = {"proj": "laea", "lat_0": 52, "lon_0": 10, "ellps": "WGS84"}
    stere = {"proj": "stere", "lat_0": 90, "lat_ts": 60, "lon_0": 0, "ellps": "WGS84"}
    ll = {"proj": "longlat", "ellps": "WGS84"}
    src = A("laea_s", laea, 40, 30, (-200000, -150000, 200000, 150000))
    out = []
    out.append(("same-proj", src, A("t1", laea, 33, 27, (-120300, -90200, 140700, 95100)), 30000, 32))
    out.append(("same-proj-partly-outside", src, A("t2", laea, 25, 21, (-260000, -100000, 90000, 190000)), 30000, 16))
    out.append(("laea->stere", src, A("t3", stere, 21, 18, (480000, -4300000, 780000, -4050000)), 30000, 32))
    out.append(("flipped-ll->laea", A("ll_flip", ll, 36, 30, (4.0, 57.0, 16.0, 47.0)), A("t4", laea, 24, 20, (-250000, -200000, 260000, 210000)), 60000, 32))
    # swaths: regular lon/lat mesh, curved (tilted + jitter), and with invalid coordinates
    lons, lats = np.meshgrid(np.linspace(2, 18, 45), np.linspace(58, 46, 38))
    out.append(("swath-mesh", SwathDefinition(lons, lats), A("t5", laea, 26, 22, (-300000, -250000, 310000, 240000)), 60000, 32))
    lo, la = kc.swath(rng, 40, 36, 10.0, 52.0, 9.0)
    out.append(("swath-tilted", SwathDefinition(lo, la), A("t6", laea, 23, 19, (-220000, -200000, 230000, 190000)), 50000, 32))
    lo2, la2 = kc.swath(rng, 34, 30, 10.0, 52.0, 8.0, invalid_frac=0.03)
    out.append(("swath-invalid", SwathDefinition(lo2, la2), A("t7", laea, 20, 18, (-200000, -180000, 210000, 170000)), 50000, 32))
    # target with invalid locations (geostationary full disk: corners are off the Earth)
    geos = {"proj": "geos", "h": 35785831.0, "lon_0": 0, "a": 6378169.0, "b": 6356583.8}
    llsrc = A("ll_s", ll, 60, 50, (-80.0, -75.0, 80.0, 75.0))
    out.append(("ll->geos-disk", llsrc, A("t8", geos, 22, 22, (-5570000, -5570000, 5570000, 5570000)), 600000, 32))
    # a target CRS on a datum with a shift to WGS84 (Gauss-Krueger zone 3 on the Potsdam datum): coordinates are projected, never datum-shifted
    gk = {"proj": "tmerc", "lat_0": 0, "lon_0": 9, "k": 1, "x_0": 3500000, "y_0": 0, "datum": "potsdam", "units": "m"}
    out.append(("gk-potsdam-same-crs", A("gk_s", gk, 30, 26, (3400000, 5500000, 3700000, 5760000)),
                A("gk_t", gk, 21, 19, (3452300, 5561200, 3641300, 5732200)), 30000, 32))
    for k in range(1 if ctx.quick else 6):
        w, h = rng.randint(15, 40), rng.randint(15, 40)
        res = rng.choice([4000.0, 10000.0])
        x0, y0 = rng.uniform(-2e5, 2e5), rng.uniform(-2e5, 2e5)
        s = A(f"rs{k}", laea, w, h, (x0, y0, x0 + w * res, y0 + h * res))
        tw, th = rng.randint(8, 25), rng.randint(8, 25)
        tres = res * rng.choice([0.45, 0.8, 1.0, 1.9])
        tx0, ty0 = x0 + rng.uniform(-0.2, 0.5) * w * res, y0 + rng.uniform(-0.2, 0.5) * h * res
        proj = rng.choice([laea, {"proj": "laea", "lat_0": 49, "lon_0": 13, "ellps": "WGS84"}])
        out.append((f"rand{k}", s, A(f"rt{k}", proj, tw, th, (tx0, ty0, tx0 + tw * tres, ty0 + th * tres)), 3.2 * res, rng.choice([12, 32])))
    return out


EXTRA_KINDS = ("constant-any", "levels")


def _strip_geoms(ctx, rng):
    """Very long, narrow sources (a concatenated orbit, a long transect): more than 65536 rows (or columns) and a handful of columns (rows);
    small targets placed before, across and beyond line 65536, in the source's CRS or another one. Same tuple as _geoms plus options:
    the data chunkings are scaled to the strip (a 7 x 11 chunking of 200000 pixels would only measure dask)."""
    import pyproj
    from pyresample.geometry import AreaDefinition, SwathDefinition
    out = []
    kinds = ["tall", "wide"] if ctx.quick else ["tall", "wide", "tall-swath", "tall", "wide", "tall-swath"]
    wheres = ["beyond", "across"] if ctx.quick else ["beyond", "across", "beyond", "before", "beyond", "beyond"]
    if rng.random() < 0.5:
        wheres = wheres[::-1]
    if ctx.quick and rng.random() < 0.4:
        kinds[0] = "tall-swath"
    for k, (kind, where) in enumerate(zip(kinds, wheres)):
        n_long = rng.randint(65600, 70000)
        n_short = rng.randint(3, 6)
        tall = kind.startswith("tall")
        res = rng.choice([100.0, 200.0, 250.0]) if tall else rng.choice([200.0, 400.0, 500.0])
        eqc = {"proj": "eqc", "lon_0": rng.choice([0, 0, 25, -100]), "ellps": "WGS84"}
        c_long = rng.uniform(-2e5, 2e5)          # centre of the strip along its length / across it (metres from the equator / central meridian)
        c_short = rng.uniform(-5e5, 5e5)
        half_l, half_s = n_long * res / 2, n_short * res / 2
        if tall:
            ext = (c_short - half_s, c_long - half_l, c_short + half_s, c_long + half_l)
            area = AreaDefinition(f"strip{k}", "s", "s", eqc, n_short, n_long, ext)
        else:
            ext = (c_long - half_l, c_short - half_s, c_long + half_l, c_short + half_s)
            area = AreaDefinition(f"strip{k}", "s", "s", eqc, n_long, n_short, ext)
        # the line (tall) / column (wide) the target is centred on
        if where == "beyond":
            line = rng.randint(65536 + 8, n_long - 8)
        elif where == "across":
            line = 65536 + rng.randint(-2, 2)
        else:
            line = rng.randint(8, 65536 - 8)
        along = (ext[3] - (line + 0.5) * res) if tall else (ext[0] + (line + 0.5) * res)
        xc, yc = (c_short, along) if tall else (along, c_short)
        to_ll = pyproj.Transformer.from_crs(area.crs, area.crs.geodetic_crs, always_xy=True)
        lon_c, lat_c = to_ll.transform(xc, yc)
        tproj_kind = rng.choice(["same", "same", "merc", "laea"])
        if tproj_kind == "same":
            tproj = eqc
        elif tproj_kind == "merc":
            tproj = {"proj": "merc", "lon_0": eqc["lon_0"], "ellps": "WGS84"}
        else:
            tproj = {"proj": "laea", "lat_0": round(lat_c, 1), "lon_0": round(lon_c, 1), "ellps": "WGS84"}
        fwd = pyproj.Transformer.from_crs(pyproj.CRS.from_user_input(tproj).geodetic_crs, pyproj.CRS.from_user_input(tproj), always_xy=True)
        txc, tyc = fwd.transform(lon_c, lat_c)
        lon_n, lat_n = to_ll.transform(xc + res, yc + res)
        txn, tyn = fwd.transform(lon_n, lat_n)
        px, py = abs(txn - txc), abs(tyn - tyc)                      # one source pixel, in target coordinates
        # the target is a little wider than the strip (some locations have no surrounding pixels) and a few lines long
        n_across, n_along = rng.randint(5, 8), rng.randint(5, 9)
        f_across = (n_short - 1 + rng.choice([-0.6, 0.4, 1.5])) / n_across
        f_along = rng.choice([0.45, 0.8, 1.0, 1.9])
        if tall:
            tw, th, dx, dy = n_across, n_along, px * f_across, py * f_along
        else:
            tw, th, dx, dy = n_along, n_across, px * f_along, py * f_across
        ox, oy = rng.uniform(-0.4, 0.4) * dx, rng.uniform(-0.4, 0.4) * dy
        tgt = AreaDefinition(f"strip_t{k}", "t", "t", tproj, tw, th, (txc + ox - tw * dx / 2, tyc + oy - th * dy / 2, txc + ox + tw * dx / 2, tyc + oy + th * dy / 2))
        src = area
        if kind == "tall-swath":
            lons, lats = area.get_lonlats()
            rr = np.arange(n_long)[:, None]
            src = SwathDefinition(np.asarray(lons) + 2e-4 * np.sin(rr / 4000.0), np.asarray(lats) + 1e-4 * np.cos(rr / 2500.0))
        big = rng.choice([9973, 16384, 30000])
        chunkings = [(-1, -1), (big, 2) if tall else (2, big)]
        fields = ("constant", "affine") if ctx.quick else ("constant", "affine", "random", "offset", "neg-constant", "neg-levels")
        out.append((f"strip-{kind}-{where}-{tproj_kind}", src, tgt, 6.0 * res, rng.choice([16, 32]),
                    {"chunkings": chunkings, "geo_chunks": [4096] if ctx.quick else [4096, 30000], "fields": fields, "joint_chunks": chunkings[1],
                     "describe": {"strip": kind, "long_side": n_long, "short_side": n_short, "pixel_size": res, "target_centred_on_line": line, "where": where}}))
    return out


def _src_xy_in_target(src, tgt):
    """source pixel coordinates in the target projection (the coordinates an 'affine field' is a function of)"""
    import pyproj
    lons, lats = src.get_lonlats()
    lons, lats = np.asarray(lons, float), np.asarray(lats, float)
    ok = kc.valid(lons, lats)
    tr = pyproj.Transformer.from_crs("EPSG:4326" if False else pyproj.CRS.from_user_input(tgt.crs).geodetic_crs, tgt.crs, always_xy=True)
    with warnings.catch_warnings():
        warnings.simplefilter("ignore")
        x, y = tr.transform(np.where(ok, lons, 0.0), np.where(ok, lats, 0.0))
    x, y = np.asarray(x, float), np.asarray(y, float)
    ok &= np.isfinite(x) & np.isfinite(y)
    return np.where(ok, x, np.nan), np.where(ok, y, np.nan), ok


def _desc(g):
    from pyresample.geometry import AreaDefinition
    if isinstance(g, AreaDefinition):
        return {"proj": g.crs.to_dict(), "width": g.width, "height": g.height, "extent": [float(v) for v in g.area_extent]}
    lons, lats = g.get_lonlats()
    return {"swath": list(np.asarray(lons).shape), "lon0": float(np.nanmin(np.where(np.isfinite(lons), lons, np.nan))),
            "lat0": float(np.nanmin(np.where(np.isfinite(lats), lats, np.nan))), "checksum": float(np.nansum(np.where(np.isfinite(lons), lons, 0)) + np.nansum(np.where(np.isfinite(lats), lats, 0)))}


def _axis_geoms(ctx, rng):
    """Targets with a row of pixel centres exactly on the projection's x axis (y = 0: an odd number of rows, symmetric about y = 0), a column exactly on
    its y axis (x = 0: odd number of columns, symmetric about x = 0), or both (an area centred on the projection centre), over axis-aligned source areas
    in the SAME non-cylindrical projection (laea, oblique / polar stere, lcc): any source extent and resolution, not aligned with the target's pixels.
    Same tuples as _strip_geoms; checked by suite_resamplers like every other pair (affine-field oracle, constant, range, quadrants, numpy == xarray)."""
    from pyresample.geometry import AreaDefinition
    out = []
    n = 3 if ctx.quick else 12
    projs = ["laea", "stere", "lcc", "polar-stere"]
    rng.shuffle(projs)
    axes = ["y=0", "x=0", "both"]
    rng.shuffle(axes)
    for k in range(n):
        pk = projs[k % len(projs)]
        lon_0 = float(rng.randrange(-170, 171, 5))
        if pk == "laea":
            proj = {"proj": "laea", "lat_0": float(rng.randrange(-70, 71, 5)), "lon_0": lon_0, "ellps": "WGS84"}
        elif pk == "stere":
            proj = {"proj": "stere", "lat_0": float(rng.randrange(-60, 61, 5)), "lon_0": lon_0, "ellps": "WGS84"}
        elif pk == "polar-stere":
            pole = rng.choice([90.0, -90.0])
            proj = {"proj": "stere", "lat_0": pole, "lat_ts": pole * rng.choice([60, 70]) / 90.0, "lon_0": lon_0, "ellps": "WGS84"}
        else:
            lat_c = float(rng.choice([-1, 1]) * rng.randrange(25, 61, 5))
            proj = {"proj": "lcc", "lat_1": lat_c - 10.0, "lat_2": lat_c + 10.0, "lat_0": lat_c, "lon_0": lon_0, "ellps": "WGS84"}
        axis = axes[k % 3]
        tw, th = 2 * rng.randint(4, 12) + 1, 2 * rng.randint(3, 11) + 1        # odd
        dx, dy = rng.randrange(2000, 16000) * 0.5, rng.randrange(2000, 16000) * 0.5      # multiples of 0.5 m: the centre row / column is at 0.0 exactly
        if rng.random() < 0.5:
            dy = dx
        far = 2.0e6 if pk != "polar-stere" else 3.0e6
        cx = 0.0 if axis in ("x=0", "both") else rng.choice([-1, 1]) * rng.uniform(0.0, far) + (rng.choice([0.0, 0.5]) * dx)
        cy = 0.0 if axis in ("y=0", "both") else rng.choice([-1, 1]) * rng.uniform(0.0, far)
        if axis == "y=0" and rng.random() < 0.3:
            tw += 1                                                             # (only the rows have to be symmetric)
        if axis == "x=0" and rng.random() < 0.3:
            th += 1
        text = (cx - tw * dx / 2, cy - th * dy / 2, cx + tw * dx / 2, cy + th * dy / 2)
        tgt = AreaDefinition(f"axis_t{k}", "t", "t", proj, tw, th, text)
        # the source: same projection, its own resolution and origin (arbitrary floats), a margin of a few pixels around the target
        res = max(dx, dy) * rng.choice([0.55, 1.0, 1.25, 2.2])
        sx0 = text[0] - rng.uniform(3.0, 5.0) * res
        sy0 = text[1] - rng.uniform(3.0, 5.0) * res
        sw = int((text[2] - sx0) / res) + rng.randint(4, 6)
        sh = int((text[3] - sy0) / res) + rng.randint(4, 6)
        src = AreaDefinition(f"axis_s{k}", "s", "s", proj, sw, sh, (sx0, sy0, sx0 + sw * res, sy0 + sh * res))
        ty = np.asarray(tgt.get_proj_coords()[1])[:, 0]
        tx = np.asarray(tgt.get_proj_coords()[0])[0, :]
        ctx.count("axis.target_rows_on_y0", int((ty == 0.0).sum()))
        ctx.count("axis.target_columns_on_x0", int((tx == 0.0).sum()))
        ctx.count("axis.proj." + pk)
        out.append((f"axis-{pk}-{axis}", src, tgt, 3.2 * res, rng.choice([12, 32]),
                    {"chunkings": [(-1, -1), (7, 11)], "geo_chunks": [4096], "fields": ("constant", "affine") if ctx.quick else ("constant", "affine", "random", "offset"),
                     "joint_chunks": (7, 11), "describe": {"target_axis": axis, "target_pixel": [dx, dy], "source_pixel": res}}))
    return out


def suite_axis_targets(ctx):
    import random
    r = random.Random(f"C06-axis-{ctx.seed}")
    suite_resamplers(ctx, geoms=_axis_geoms(ctx, r), rng=r)


def suite_resamplers(ctx, geoms=None, rng=None):
    import dask
    import dask.array as da
    import xarray as xr

    from pyresample.bilinear import NumpyBilinearResampler, XArrayBilinearResampler
    from pyresample.bilinear import _base as B
    import pyresample.bilinear.xarr as X
    import random
    if geoms is None:
        rng = ctx.rng
        rng2 = random.Random(f"C06-extra-{ctx.seed}")        # families added later draw from their own stream
        geoms = [g + ({},) for g in _geoms(ctx)] + _strip_geoms(ctx, rng2)
    else:
        rng2 = rng                                           # a family run on its own: every draw from the stream it was given
    for label, src, tgt, radius, neighbours, opts in geoms:
        wanted = opts.get("fields")
        sx, sy, sok = _src_xy_in_target(src, tgt)
        tx, ty = tgt.get_proj_coords()
        span = max(np.nanmax(sx) - np.nanmin(sx), np.nanmax(sy) - np.nanmin(sy))
        a0, a1, a2 = 2.0, 3.0 / span, -1.7 / span
        f_aff = lambda x, y: a0 + a1 * x + a2 * y
        shape = src.shape
        fields = {
            "constant": np.full(shape, 7.25),
            "affine": np.where(sok, f_aff(np.where(sok, sx, 0), np.where(sok, sy, 0)), 0.0),
            "random": np.array([[rng.uniform(-5, 5) for _ in range(shape[1])] for _ in range(shape[0])]) if wanted is None or "random" in wanted else None,
            # values that need more than 24 significant bits (epoch seconds, large counts)
            "offset": np.where(sok, f_aff(np.where(sok, sx, 0), np.where(sok, sy, 0)), 0.0) + 1.7e9,
        }
        # constant fields and plateaus (a classification, a clipped quantity) of any sign and magnitude, float32 and float64: results that sit
        # exactly on the minimum / maximum of the data - negative minimum, negative maximum, values whose float32 / float64 spacing exceeds 1e-6
        c_any = rng2.choice([-0.5, -2.0, -40.0, -273.15, -1234.5, -1e4, -1e13, 16.1, 300.0, 1e4, 1e9, 1e13])
        levels = rng2.choice([[-2.0, -1.0], [-300.0, -40.0, -2.0], [-1.0, 0.0, 1.0], [-40.0, 20.0], [-0.25, -0.125], [-1e4, -5e3, -1.0],
                              [1.0, 2.0], [250.0, 300.0], [1e4, 2e4], [1e9, 1e9 + 4096], [1e13, 2e13], [-1e13, 1e13]])
        dtype_extra = {"constant-any": rng2.choice([np.float32, np.float64]), "levels": rng2.choice([np.float32, np.float64])}
        br, bc = rng2.randint(3, 12), rng2.randint(3, 12)
        if opts.get("describe"):
            br, bc = br * 1000, bc * 1000
        rr_, cc_ = np.meshgrid(np.arange(shape[0]), np.arange(shape[1]), indexing="ij")
        fields["constant-any"] = np.full(shape, c_any)
        fields["levels"] = np.asarray(levels)[((rr_ // br) + (cc_ // bc)) % len(levels)]
        if wanted is not None:
            fields = {k: v for k, v in fields.items() if k in wanted}
        inp0 = {"pair": label, "source": _desc(src), "target": _desc(tgt), "radius": radius, "neighbours": neighbours}
        if opts.get("describe"):
            inp0.update(opts["describe"])
        if "constant-any" in fields or "levels" in fields:
            inp0["constant_any"], inp0["levels"], inp0["level_blocks"] = c_any, levels, [br, bc]
        reduce_data = rng.choice([False, False, True])
        inp0["reduce_data"] = reduce_data
        # spy: the corner coordinates the library hands to its solver
        cap = {}
        orig = B._get_fractional_distances

        def spy(corner_points, out_x, out_y, _cap=cap, _orig=orig):
            _cap["cp"], _cap["out"] = corner_points, (out_x, out_y)
            return _orig(corner_points, out_x, out_y)
        B._get_fractional_distances = spy
        orig_corners = B._get_four_closest_corners

        def spy_corners(in_x, in_y, out_x, out_y, neighbours, index_array, _cap=cap, _orig=orig_corners):
            _cap["cand"] = (np.array(in_x, float), np.array(in_y, float), np.array(out_x, float), np.array(out_y, float))
            return _orig(in_x, in_y, out_x, out_y, neighbours, index_array)
        B._get_four_closest_corners = spy_corners
        try:
            with warnings.catch_warnings(), np.errstate(all="ignore"):
                warnings.simplefilter("ignore")
                rs = NumpyBilinearResampler(src, tgt, radius, neighbours=neighbours, reduce_data=reduce_data)
                rs.get_bil_info()
        finally:
            B._get_fractional_distances = orig
            B._get_four_closest_corners = orig_corners
        if "cp" not in cap or not hasattr(rs, "_valid_output_indices"):
            # the coarse reduction left no source point: the resampler holds the all-NaN look-up tables and produces no value anywhere
            ctx.count("res.empty_after_reduction")
            ctx.case("resampler-info", (label, neighbours, reduce_data, "empty"), nontrivial=False)
            if not np.isnan(np.asarray(rs.bilinear_t, float)).all():
                ctx.fail("bilinear.NumpyBilinearResampler.get_bil_info", "no source point is left but fractional distances exist", inp0, None, tags={"cause": "empty-info"}, size=tgt.size)
            continue
        t_, s_ = np.asarray(rs.bilinear_t, float), np.asarray(rs.bilinear_s, float)
        has = ~np.isnan(t_) & ~np.isnan(s_)
        voi = np.asarray(rs._valid_output_indices)
        n_out = tgt.size
        # per produced location: are all four corners present / in their quadrants?
        cp = [np.asarray(c, float) for c in cap["cp"]]
        ox, oy = (np.asarray(v, float) for v in cap["out"])
        missing4 = np.isnan(cp[3][:, 0])
        # independent of the library's selection: is there really no candidate strictly inside the lower-right quadrant?
        cin_x, cin_y, cout_x, cout_y = cap["cand"]
        with np.errstate(invalid="ignore"):
            lr_exists = ((cin_x > cout_x[:, None]) & (cin_y < cout_y[:, None])).any(axis=1)
        lost4 = missing4 & lr_exists
        if lost4.any():
            i = int(np.flatnonzero(lost4)[0])
            ctx.fail("bilinear._base._get_four_closest_corners", f"location {i}: a neighbour lies in the lower-right quadrant but no lower-right corner was selected "
                     f"({int(lost4.sum())} locations)", {**inp0, "location": i}, None, tags={"cause": "corner-lost"}, size=n_out)
        missing4 = missing4 & ~lr_exists
        quad = ((cp[0][:, 0] < ox) & (cp[0][:, 1] > oy) & (cp[1][:, 0] > ox) & (cp[1][:, 1] > oy)
                & (cp[2][:, 0] < ox) & (cp[2][:, 1] < oy) & (cp[3][:, 0] > ox) & (cp[3][:, 1] < oy))
        ctx.count("res.locations", int(n_out))
        ctx.count("res.with_value", int(has.sum()))
        ctx.count("res.missing_fourth_corner_with_value", int((has & missing4).sum()))
        ctx.case("resampler-info", (label, neighbours, reduce_data), nontrivial=bool(has.any() and (~has).any()),
                 sample={"pair": label, "with_value": int(has.sum()), "of": int(n_out)})
        if ((t_[has] < 0) | (t_[has] > 1) | (s_[has] < 0) | (s_[has] > 1)).any():
            ctx.fail("bilinear.NumpyBilinearResampler.get_bil_info", "fractional distances outside [0, 1]", inp0, None, tags={"cause": "range"}, size=n_out)
        bad_quad = has & ~quad & ~missing4
        if bad_quad.any():
            i = int(np.flatnonzero(bad_quad)[0])
            ctx.fail("bilinear._base._get_four_closest_corners", f"location {i}: the four chosen source pixels do not lie in the four quadrants around the target",
                     {**inp0, "location": i}, {"corners": [c[i].tolist() for c in cp], "out": [float(ox[i]), float(oy[i])]}, tags={"cause": "quadrant"}, size=n_out)
        # exactness of the bilinear map for the fractional distances the resampler stores
        P = cp
        with np.errstate(all="ignore"):
            mp = _bmap(P, np.where(has, s_, 0.0), np.where(has, t_, 0.0))
            side = np.maximum(np.abs(P[1] - P[0]).max(axis=1), np.abs(P[2] - P[0]).max(axis=1))
            err = np.where(has & ~missing4, np.abs(mp - np.stack([ox, oy], 1)).max(axis=1) / side, 0.0)
        if (err > 1e-6).any():
            i = int(np.argmax(err))
            ctx.fail("bilinear.NumpyBilinearResampler.get_bil_info",
                     f"location {i}: stored (t={t_[i]:.8f}, s={s_[i]:.8f}) maps {err[i]:.3g} side lengths away from the target ({int((err > 1e-6).sum())} locations)",
                     {**inp0, "location": i}, {"corners": [c[i].tolist() for c in cp], "out": [float(ox[i]), float(oy[i])]}, tags={"cause": "inexact-map"}, size=n_out)
        # model correspondence on a sample of the library's own quadrilaterals
        finite = np.all([np.isfinite(c).all(axis=1) for c in cp], axis=0) & np.isfinite(ox) & np.isfinite(oy)
        idxs = [int(i) for i in np.flatnonzero(finite)]
        rng.shuffle(idxs)
        for i in idxs[:25 if ctx.quick else 120]:
            Pi = [c[i] for c in cp]
            m = _model_frac(ctx, Pi, ox[i], oy[i])
            ctx.case("resampler-quads", (label, i), nontrivial=True)
            ctx.count(f"res.model.branch.{m['branch'] if m else 'none'}")
            if m and not m["cert"]:
                ctx.count("res.model.uncertified")
            ex_t, ex_s = (float(m["t"]), float(m["s"])) if m else (None, None)
            if m and (min(ex_t, ex_s) < 1e-6 or max(ex_t, ex_s) > 1 - 1e-6):
                continue
            if not _cond_ok(Pi, ex_t if m else 0.5, ex_s if m else 0.5, None):
                continue
            inp = {**inp0, "location": i, "corners": [p.tolist() for p in Pi], "out": [float(ox[i]), float(oy[i])]}
            if (m is None) != (not has[i]):
                # near the border of the unit square the decision may legitimately differ: decide with the exact position
                if m is None:
                    if 1e-6 < t_[i] < 1 - 1e-6 and 1e-6 < s_[i] < 1 - 1e-6:
                        ctx.disagree("resampler-quads", inp, {"t": float(t_[i]), "s": float(s_[i])}, None, "library has a value, model none")
                else:
                    ctx.disagree("resampler-quads", inp, None, {"t": ex_t, "s": ex_s, "branch": m["branch"]}, "model has a value, library none")
            elif m is not None and (abs(t_[i] - ex_t) > TOL or abs(s_[i] - ex_s) > TOL):
                ctx.disagree("resampler-quads", inp, {"t": float(t_[i]), "s": float(s_[i])}, {"t": ex_t, "s": ex_s, "branch": m["branch"]}, "fractional distances differ")

        # full-size masks per target pixel
        def full(v, fillv=False):
            o = np.full(n_out, fillv, dtype=np.asarray(v).dtype)
            o[voi] = v
            return o.reshape(tgt.shape)
        has2, miss2 = full(has), full(has & missing4)
        tx_, ty_ = np.asarray(tx, float), np.asarray(ty, float)

        def check_values(name, res, kind, data_np, site, inp, numpy_ref=None):
            """res: array (h, w) or (h, w, nb) / (nb, h, w) normalised to (nb, h, w)"""
            lo, hi = np.nanmin(data_np), np.nanmax(data_np)
            got = ~np.isnan(res)
            eps = 1e-6 * (1 + abs(hi - lo))
            if kind in EXTRA_KINDS:
                eps += 1e-12 * max(abs(lo), abs(hi))          # magnitudes up to 1e13: a convex combination is exact to a few ulps of the values
            rng_bad = got & ((res < lo - eps) | (res > hi + eps))
            if rng_bad.any():
                idx = tuple(map(int, np.argwhere(rng_bad)[0]))
                ctx.fail(site, f"{kind} field: value {res[idx]} at {idx} outside the source range [{lo}, {hi}]", inp, None, tags={"cause": "range", "field": kind}, size=n_out)
            if kind == "constant":
                bad = got & (np.abs(res - 7.25 * (1 + np.arange(res.shape[0]))[:, None, None]) > 1e-9)
                if bad.any():
                    idx = tuple(map(int, np.argwhere(bad)[0]))
                    ctx.fail(site, f"constant field not reproduced: {res[idx]} at {idx}", inp, None, tags={"cause": "constant"}, size=n_out)
            if kind == "constant-any":
                cval = data_np[:, 0, 0][:, None, None]             # per band, as stored in the data's dtype
                bad = got & (np.abs(res - cval) > 1e-12 * np.maximum(1.0, np.abs(cval)))
                if bad.any():
                    idx = tuple(map(int, np.argwhere(bad)[0]))
                    ctx.fail(site, f"constant field {float(cval[idx[0], 0, 0])} not reproduced: {res[idx]} at {idx}", inp, None, tags={"cause": "constant", "field": kind}, size=n_out)
            if kind == "affine":
                exp = f_aff(tx_, ty_)[None, :, :] * (1 + np.arange(res.shape[0]))[:, None, None]
                bad = got & (np.abs(res - exp) > 1e-6 * 3.0 * (1 + np.arange(res.shape[0]))[:, None, None])
                bad_known = bad & miss2[None, :, :]
                bad_new = bad & ~miss2[None, :, :]
                if bad_known.any():
                    idx = tuple(map(int, np.argwhere(bad_known)[0]))
                    ctx.fail("bilinear._base._get_fractional_distances",
                             f"target pixel {idx[1:]} has no source pixel in its lower-right quadrant, yet gets the value {res[idx]:.6f} (affine field there: {exp[idx]:.6f}): "
                             f"the parallelogram branch ignores the fourth corner ({int(bad_known.sum())} such values)", inp, None,
                             tags={"cause": "missing-corner"}, size=n_out)
                if bad_new.any():
                    idx = tuple(map(int, np.argwhere(bad_new)[0]))
                    ctx.fail(site, f"affine field of the target's projection coordinates not reproduced at {idx}: {res[idx]:.9f} vs {exp[idx]:.9f} "
                             f"({int(bad_new.sum())} values, max error {float(np.abs(res - exp)[bad_new].max()):.3g} for a data range of 3)", inp,
                             {"n": int(bad_new.sum())}, tags={"cause": "affine", "field": kind}, size=n_out)

        results_np = {}
        extra_ndim = rng2.choice([2, 3])
        for kind, base in fields.items():
            for ndim in (2, 3):
                if kind in EXTRA_KINDS:
                    if ctx.quick and ndim != extra_ndim:
                        continue
                    nb = rng2.choice([2, 3]) if ndim == 3 else 1
                else:
                    nb = rng.choice([2, 3]) if ndim == 3 else 1
                dtype = rng.choice([np.float64, np.float32]) if kind == "random" else np.float64
                if kind in EXTRA_KINDS:
                    dtype = dtype_extra[kind]
                if kind == "random" and rng.random() < 0.3:
                    dtype = np.uint8
                stack = np.stack([base * (k + 1) for k in range(nb)])               # (nb, H, W)
                if dtype is np.uint8:
                    stack = np.clip(np.round((stack + 5 * nb) * 8), 0, 255)
                stack = stack.astype(dtype)
                data_np = np.moveaxis(stack, 0, -1) if ndim == 3 else stack[0]            # numpy resampler: (H, W, nb)
                inp = {**inp0, "field": kind, "ndim": ndim, "dtype": np.dtype(dtype).name}
                with warnings.catch_warnings(), np.errstate(all="ignore"):
                    warnings.simplefilter("ignore")
                    res = np.asarray(rs.get_sample_from_bil_info(data_np.copy(), fill_value=np.nan if dtype is not np.uint8 else 0))
                res = np.asarray(res, float)
                res3 = np.moveaxis(res.reshape(tgt.shape + (nb,)), -1, 0) if ndim == 3 else res.reshape((1,) + tgt.shape)
                if dtype is np.uint8:
                    res3 = np.where(has2[None, :, :], res3, np.nan)       # integer data cannot carry NaN: validity from the LUT
                ctx.case("resampler-values", (label, kind, ndim, np.dtype(dtype).name, "numpy"), nontrivial=bool(has.any()))
                ctx.count(f"res.numpy.{kind}.{ndim}d.{np.dtype(dtype).name}")
                # a value exactly where the fractional distances exist
                got = ~np.isnan(res3)
                if (got != has2[None, :, :]).any():
                    idx = tuple(map(int, np.argwhere(got != has2[None, :, :])[0]))
                    ctx.fail("bilinear.NumpyBilinearResampler.get_sample_from_bil_info", f"value / fractional-distance pattern mismatch at {idx}", inp, None, tags={"cause": "pattern"}, size=n_out)
                check_values("numpy", res3, kind if dtype is not np.uint8 else "random", stack.astype(float), "bilinear.NumpyBilinearResampler.get_sample_from_bil_info", inp)
                # value == weights . data of the four stored pixels
                w = np.stack([(1 - s_) * (1 - t_), s_ * (1 - t_), (1 - s_) * t_, s_ * t_], 1)
                sl_y, sl_x = np.asarray(rs.slices_y), np.asarray(rs.slices_x)
                with np.errstate(all="ignore"):
                    expv = np.stack([(w * stack[k].astype(float)[sl_y, sl_x]).sum(1) for k in range(nb)])
                    # rounding scales with the magnitudes that are added, not with their sum: four pixels of +-1e13 whose weighted sum nearly
                    # cancels carry an absolute error of eps(dtype) * 1e13 in a result near zero
                    mag = np.stack([(np.abs(w) * np.abs(stack[k].astype(float)[sl_y, sl_x])).sum(1) for k in range(nb)])
                expv_full = np.stack([full(expv[k], np.nan) for k in range(nb)])
                mag_full = np.stack([full(mag[k], np.nan) for k in range(nb)])
                eps_d = float(np.finfo(dtype).eps) if np.issubdtype(np.dtype(dtype), np.floating) else 0.0
                dif = got & (np.abs(res3 - expv_full) > 1e-6 * (1 + np.abs(expv_full)) + 16 * eps_d * mag_full)
                if dif.any():
                    idx = tuple(map(int, np.argwhere(dif)[0]))
                    ctx.fail("bilinear.NumpyBilinearResampler.get_sample_from_bil_info", f"value at {idx} is {res3[idx]} but weights . four stored pixels = {expv_full[idx]}",
                             inp, None, tags={"cause": "weights"}, size=n_out)
                results_np[(kind, ndim)] = (stack, res3, inp, dtype)

        # two different datasets resampled lazily by ONE resampler and evaluated in ONE graph must stay two different results
        if ("random", 2) in results_np and ("affine", 2) in results_np and results_np[("random", 2)][3] is not np.uint8:
            st_a, ref_a = results_np[("random", 2)][0], results_np[("random", 2)][1]
            st_b, ref_b = results_np[("affine", 2)][0], results_np[("affine", 2)][1]
            with warnings.catch_warnings(), np.errstate(all="ignore"), dask.config.set(scheduler="synchronous"):
                warnings.simplefilter("ignore")
                xrs = XArrayBilinearResampler(src, tgt, radius, neighbours=neighbours, reduce_data=inp0["reduce_data"])
                jch = opts.get("joint_chunks", (7, 11))
                la = xrs.resample(xr.DataArray(da.from_array(st_a[0], chunks=jch), dims=("y", "x")), fill_value=np.nan)
                lb = xrs.resample(xr.DataArray(da.from_array(st_b[0], chunks=jch), dims=("y", "x")), fill_value=np.nan)
                ja, jb = dask.compute(la.data, lb.data)
            ctx.case("resampler-joint", (label,), nontrivial=True)
            ctx.count("res.xarray.joint_compute")
            for nm, j_, r_ in (("first", np.asarray(ja, float), ref_a[0]), ("second", np.asarray(jb, float), ref_b[0])):
                with np.errstate(all="ignore"):
                    bad = (np.isnan(j_) != np.isnan(r_)) | (~np.isnan(r_) & (np.abs(j_ - r_) > 1e-5 * (1 + np.abs(r_))))
                if bad.any():
                    idx = tuple(map(int, np.argwhere(bad)[0]))
                    ctx.fail("bilinear.XArrayBilinearResampler.resample", f"two datasets resampled with one resampler and computed together: the {nm} result at {idx} is {j_[idx]} "
                             f"but computed alone (and by the numpy resampler) it is {r_[idx]} ({int(bad.sum())} positions)", {**inp0, "which": nm}, None,
                             tags={"cause": "joint-compute"}, size=n_out)
        # xarray / dask resampler: every chunking gives the numpy result
        chunkings = [(-1, -1), (7, 11), (5, 5)] if ctx.quick else [(-1, -1), (7, 11), (5, 5), (13, 4), (1, 9)]
        geo_chunks = [4096, 9] if ctx.quick else [4096, 9, 16]
        chunkings, geo_chunks = opts.get("chunkings", chunkings), opts.get("geo_chunks", geo_chunks)
        for (kind, ndim), (stack, ref3, inp, dtype) in results_np.items():
            if dtype is np.uint8:
                continue
            nb = stack.shape[0]
            # quick tier, fields added later: one data chunking (drawn per field) at the default geolocation chunking
            extra_ch = rng2.choice(chunkings) if kind in EXTRA_KINDS else None
            for gch in geo_chunks:
                for ch in chunkings:
                    if gch != 4096 and ch != chunkings[1]:
                        continue
                    if kind in EXTRA_KINDS and ctx.quick and (gch != 4096 or ch != extra_ch):
                        continue
                    X.CHUNK_SIZE = gch
                    try:
                        with warnings.catch_warnings(), np.errstate(all="ignore"), dask.config.set(scheduler="synchronous"):
                            warnings.simplefilter("ignore")
                            xrs = XArrayBilinearResampler(src, tgt, radius, neighbours=neighbours, reduce_data=inp["reduce_data"])
                            cy, cx = (stack.shape[1] if ch[0] == -1 else ch[0]), (stack.shape[2] if ch[1] == -1 else ch[1])
                            if ndim == 3:
                                xd = xr.DataArray(da.from_array(stack, chunks=(nb, cy, cx)), dims=("bands", "y", "x"))
                            else:
                                xd = xr.DataArray(da.from_array(stack[0], chunks=(cy, cx)), dims=("y", "x"))
                            out = np.asarray(xrs.resample(xd, fill_value=np.nan).values, float)
                    finally:
                        X.CHUNK_SIZE = 4096
                    out3 = out.reshape((nb,) + tgt.shape) if ndim == 3 else out.reshape((1,) + tgt.shape)
                    ctx.case("resampler-values", (label, kind, ndim, "xarray", ch, gch), nontrivial=True)
                    ctx.count(f"res.xarray.{ndim}d")
                    inpx = {**inp, "resampler": "XArrayBilinearResampler", "data_chunks": list(ch), "CHUNK_SIZE": gch}
                    if out3.shape != ref3.shape:
                        ctx.fail("bilinear.XArrayBilinearResampler.resample", f"result shape {out.shape}, numpy resampler gives {ref3.shape}", inpx, None, tags={"cause": "shape"}, size=n_out)
                        continue
                    pat = np.isnan(out3) != np.isnan(ref3)
                    if pat.any():
                        idx = tuple(map(int, np.argwhere(pat)[0]))
                        ctx.fail("bilinear.XArrayBilinearResampler.resample", f"{kind} {ndim}-D: xarray result {'has no' if np.isnan(out3[idx]) else 'has a'} value at {idx}, the numpy result "
                                 f"{'has none' if np.isnan(ref3[idx]) else 'has ' + str(ref3[idx])} ({int(pat.sum())} positions)", inpx, None, tags={"cause": "numpy-vs-xarray-pattern"}, size=n_out)
                        continue
                    with np.errstate(all="ignore"):
                        span_ = float(np.nanmax(stack) - np.nanmin(stack)) if np.isfinite(stack).any() else 1.0
                        tol_x = (1e-5 * (1 + np.abs(ref3))) if dtype is np.float32 else (1e-6 * (1 + span_) + 1e-12 * np.abs(ref3))
                        dif = ~np.isnan(ref3) & (np.abs(out3 - ref3) > tol_x)
                    if dif.any():
                        idx = tuple(map(int, np.argwhere(dif)[0]))
                        ctx.fail("bilinear.XArrayBilinearResampler.resample", f"{kind} {ndim}-D: xarray value {out3[idx]} at {idx}, numpy value {ref3[idx]} ({int(dif.sum())} positions)",
                                 inpx, None, tags={"cause": "numpy-vs-xarray-value"}, size=n_out)


# -----------------------------------------------------------------------------------------------------------------------
# memory layout of the source coordinates
# -----------------------------------------------------------------------------------------------------------------------

LAYOUTS = ("transposed_view", "fortran", "strided_view", "reversed_view")


def _relayout(a, layout):
    """the same array as far as numpy semantics go (same shape, dtype, np.array_equal) in another memory layout: element [row, col] is the
    coordinate / value of pixel (row, col) whatever the strides are"""
    a = np.asarray(a)
    if layout == "c_contiguous":
        out = np.ascontiguousarray(a)
    elif layout == "transposed_view":            # .T of an array stored as (column, row): a file written the other way round
        out = np.ascontiguousarray(a.T).T
    elif layout == "fortran":                    # np.asfortranarray / order='F' readers
        out = np.asfortranarray(a)
    elif layout == "strided_view":               # every second column of a wider array
        big = np.zeros(a.shape[:-1] + (2 * a.shape[-1],), dtype=a.dtype)
        big[..., ::2] = a
        out = big[..., ::2]
    else:                                        # negative stride along the rows
        out = np.ascontiguousarray(a[::-1])[::-1]
    assert out.shape == a.shape and out.dtype == a.dtype and np.array_equal(out, a, equal_nan=True)
    return out


def _layout_sources(ctx, rng):
    """(label, lons, lats, kind, target, radius, neighbours): swath / grid sources with rows != cols, lon/lat arrays C-contiguous here"""
    import pyproj
    from pyresample.geometry import AreaDefinition
    out = []
    kinds = ["proj-lattice", "lonlat-mesh", "tilted-swath"]
    if not ctx.quick:
        kinds = kinds * 3
    for n, kind in enumerate(kinds):
        lat_0, lon_0 = rng.uniform(-65.0, 65.0), rng.uniform(-170.0, 170.0)
        laea = {"proj": "laea", "lat_0": round(lat_0, 2), "lon_0": round(lon_0, 2), "ellps": "WGS84"}
        while True:
            rows, cols = rng.randint(22, 44), rng.randint(20, 40)
            if abs(rows - cols) >= 3:
                break
        if kind == "proj-lattice":
            # a rotated, slightly curved lattice of `pix` m pixels in the target's projection (scan lines bending along the track)
            pix = rng.choice([2000.0, 3000.0, 5000.0])
            th = math.radians(rng.uniform(-25.0, 25.0))
            bend = rng.uniform(-0.8, 0.8) * pix / 3000.0
            ii, jj = np.meshgrid(np.arange(rows) - rows / 2, np.arange(cols) - cols / 2, indexing="ij")
            x = (jj * math.cos(th) - ii * math.sin(th)) * pix + bend * ii ** 2
            y = -(jj * math.sin(th) + ii * math.cos(th)) * pix
            lons, lats = pyproj.Proj(laea)(x, y, inverse=True)
            half_w, half_h = 0.33 * cols * pix, 0.33 * rows * pix
            radius, neighbours = 10.0 * pix, 32
            sw_kind = "swath"
        elif kind == "lonlat-mesh":
            step = rng.choice([0.2, 0.35])
            lons, lats = np.meshgrid(lon_0 + (np.arange(cols) - cols / 2) * step / max(0.3, math.cos(math.radians(lat_0))),
                                     lat_0 - (np.arange(rows) - rows / 2) * step)
            half_w, half_h = 0.33 * cols * step * 111000.0, 0.33 * rows * step * 111000.0
            radius, neighbours = 2.8 * step * 111000.0, 32
            sw_kind = rng.choice(["grid", "swath"])
        else:
            span = rng.choice([6.0, 9.0])
            lons, lats = kc.swath(rng, rows, cols, lon_0, lat_0, span)
            half_w = half_h = 0.3 * span * 111000.0
            radius, neighbours = 6.0 * span * 111000.0 / min(rows, cols), 32
            sw_kind = "swath"
        tw, th_ = rng.randint(14, 26), rng.randint(12, 22)
        ox, oy = rng.uniform(-0.25, 0.25) * half_w, rng.uniform(-0.25, 0.25) * half_h      # a little off-centre: part of some targets has no source around
        tgt = AreaDefinition(f"lt{n}", "t", "t", laea, tw, th_, (ox - half_w, oy - half_h, ox + half_w, oy + half_h))
        out.append((f"{kind}-{sw_kind}-{rows}x{cols}", np.ascontiguousarray(lons, dtype=float), np.ascontiguousarray(lats, dtype=float), sw_kind, tgt, radius, neighbours))
    return out


def suite_source_memory_layout(ctx):
    """SwathDefinition / GridDefinition sources whose lon/lat arrays hold the same values in another memory layout (transposed view of an array stored
    as (column, row), Fortran order, strided and reversed views).  Pixel (row, col) of the source is lons[row, col], lats[row, col], data[row, col]
    whatever the strides are, so through NumpyBilinearResampler: a field that is affine in the target's projection coordinates is reproduced, a
    constant is reproduced, values stay in the data range, the result equals the one for C-contiguous copies of the same arrays, and the
    XArrayBilinearResampler on the same source gives the same result for every chunking.  Locations with no source pixel in the lower-right
    quadrant that nevertheless get a value are the known finding F21 and are tagged as such (the spy on the solver identifies them from the
    corner COORDINATES the library selected)."""
    import random

    import dask
    import dask.array as da
    import xarray as xr

    import pyresample.bilinear.xarr as X
    from pyresample.bilinear import NumpyBilinearResampler, XArrayBilinearResampler
    from pyresample.bilinear import _base as B
    from pyresample.geometry import GridDefinition, SwathDefinition
    rng = random.Random(f"C06-layout-{ctx.seed}")       # own stream: the suites above keep theirs
    for label, lons_c, lats_c, sw_kind, tgt, radius, neighbours in _layout_sources(ctx, rng):
        Geo = GridDefinition if sw_kind == "grid" else SwathDefinition
        shape = lons_c.shape
        n_out = tgt.size
        tx, ty = (np.asarray(v, float) for v in tgt.get_proj_coords())
        sx, sy, sok = _src_xy_in_target(Geo(lons_c, lats_c), tgt)
        span = max(np.nanmax(sx) - np.nanmin(sx), np.nanmax(sy) - np.nanmin(sy))
        a0, a1, a2 = 2.0, 3.0 / span, -1.7 / span
        f_aff = lambda x, y: a0 + a1 * x + a2 * y
        g = np.random.default_rng(rng.getrandbits(32))
        fields = {"affine": np.ascontiguousarray(np.where(sok, f_aff(np.where(sok, sx, 0), np.where(sok, sy, 0)), 0.0)),
                  "constant": np.full(shape, 7.25),
                  "random": g.uniform(-5.0, 5.0, size=shape)}
        first = rng.choice(["transposed_view", "fortran"])
        layouts = ["c_contiguous", first, rng.choice([l for l in LAYOUTS if l != first])] if ctx.quick else ["c_contiguous"] + list(LAYOUTS)
        ref = {}
        for layout in layouts:
            lons, lats = _relayout(lons_c, layout), _relayout(lats_c, layout)
            src = Geo(lons, lats)
            data_layout = layout if rng.random() < 0.5 else "c_contiguous"
            inp0 = {"pair": label, "source_kind": sw_kind, "source": _desc(Geo(lons_c, lats_c)), "target": _desc(tgt), "radius": radius, "neighbours": neighbours,
                    "lonlat_layout": layout, "lonlat_flags": {"c_contiguous": bool(lons.flags["C_CONTIGUOUS"]), "f_contiguous": bool(lons.flags["F_CONTIGUOUS"]),
                                                              "strides": list(lons.strides)}, "data_layout": data_layout, "reduce_data": False}
            cap = {}
            orig, orig_corners = B._get_fractional_distances, B._get_four_closest_corners

            def spy(corner_points, out_x, out_y, _cap=cap, _orig=orig):
                _cap["cp"], _cap["out"] = corner_points, (out_x, out_y)
                return _orig(corner_points, out_x, out_y)

            def spy_corners(in_x, in_y, out_x, out_y, neighbours, index_array, _cap=cap, _orig=orig_corners):
                _cap["cand"] = (np.array(in_x, float), np.array(in_y, float), np.array(out_x, float), np.array(out_y, float))
                return _orig(in_x, in_y, out_x, out_y, neighbours, index_array)
            B._get_fractional_distances, B._get_four_closest_corners = spy, spy_corners
            try:
                with warnings.catch_warnings(), np.errstate(all="ignore"):
                    warnings.simplefilter("ignore")
                    rs = NumpyBilinearResampler(src, tgt, radius, neighbours=neighbours, reduce_data=False)
                    rs.get_bil_info()
            except Exception as e:  # noqa
                ctx.fail("bilinear.NumpyBilinearResampler.get_bil_info", f"raised {type(e).__name__}: {str(e)[:150]} for source lon/lats in layout {layout}", inp0, None,
                         tags={"cause": "raises", "layout": layout}, size=n_out)
                continue
            finally:
                B._get_fractional_distances, B._get_four_closest_corners = orig, orig_corners
            if "cp" not in cap or "cand" not in cap or not hasattr(rs, "_valid_output_indices"):
                ctx.count("layout.no_info")
                continue
            cp = [np.asarray(c, float) for c in cap["cp"]]
            cin_x, cin_y, cout_x, cout_y = cap["cand"]
            with np.errstate(invalid="ignore"):
                lr_exists = ((cin_x > cout_x[:, None]) & (cin_y < cout_y[:, None])).any(axis=1)
            t_, s_ = np.asarray(rs.bilinear_t, float), np.asarray(rs.bilinear_s, float)
            has = ~np.isnan(t_) & ~np.isnan(s_)
            voi = np.asarray(rs._valid_output_indices)

            def full(v):
                o = np.zeros(n_out, dtype=bool)
                o[voi] = v
                return o.reshape(tgt.shape)
            has2, miss2 = full(has), full(has & np.isnan(cp[3][:, 0]) & ~lr_exists)
            ctx.count(f"layout.{layout}" + (".not_c_contiguous" if not lons.flags["C_CONTIGUOUS"] else ""))
            site = "bilinear.NumpyBilinearResampler.get_sample_from_bil_info"
            for kind, base in fields.items():
                data = _relayout(base, data_layout)
                inp = {**inp0, "field": kind}
                with warnings.catch_warnings(), np.errstate(all="ignore"):
                    warnings.simplefilter("ignore")
                    res = np.asarray(rs.get_sample_from_bil_info(data, fill_value=np.nan), float).reshape(tgt.shape)
                got = ~np.isnan(res)
                ctx.count("layout.values_produced", int(got.sum()))
                ctx.case("layout-values", (label, layout, data_layout, kind, "numpy"), nontrivial=bool(got.any() and not lons.flags["C_CONTIGUOUS"]),
                         sample={"input": inp, "with_value": int(got.sum()), "of": int(n_out)} if kind == "affine" and layout != "c_contiguous" else None)
                if (got != has2).any():
                    idx = tuple(map(int, np.argwhere(got != has2)[0]))
                    ctx.fail(site, f"value / fractional-distance pattern mismatch at {idx}", inp, None, tags={"cause": "pattern", "layout": layout}, size=n_out)
                lo, hi = float(base.min()), float(base.max())
                eps = 1e-6 * (1 + hi - lo)
                if (got & ((res < lo - eps) | (res > hi + eps))).any():
                    idx = tuple(map(int, np.argwhere(got & ((res < lo - eps) | (res > hi + eps)))[0]))
                    ctx.fail(site, f"{kind} field: value {res[idx]} at {idx} outside the source range [{lo}, {hi}]", inp, None, tags={"cause": "range", "field": kind, "layout": layout}, size=n_out)
                if kind == "constant" and (got & (np.abs(res - 7.25) > 1e-9)).any():
                    idx = tuple(map(int, np.argwhere(got & (np.abs(res - 7.25) > 1e-9))[0]))
                    ctx.fail(site, f"constant field not reproduced: {res[idx]} at {idx}", inp, None, tags={"cause": "constant", "layout": layout}, size=n_out)
                if kind == "affine":
                    exp = f_aff(tx, ty)
                    bad = got & (np.abs(res - exp) > 1e-6 * 3.0)
                    bad_known, bad_new = bad & miss2, bad & ~miss2
                    if bad_known.any():
                        idx = tuple(map(int, np.argwhere(bad_known)[0]))
                        ctx.fail("bilinear._base._get_fractional_distances",
                                 f"target pixel {idx} has no source pixel in its lower-right quadrant, yet gets the value {res[idx]:.6f} (affine field there: {exp[idx]:.6f}): "
                                 f"the parallelogram branch ignores the fourth corner ({int(bad_known.sum())} such values)", inp, None, tags={"cause": "missing-corner"}, size=n_out)
                    if bad_new.any():
                        idx = tuple(map(int, np.argwhere(bad_new)[0]))
                        ctx.fail(site, f"source lon/lats as {layout}: affine field of the target's projection coordinates not reproduced at {idx}: {res[idx]:.9f} vs {exp[idx]:.9f} "
                                 f"({int(bad_new.sum())} of {int(got.sum())} values, max error {float(np.abs(res - exp)[bad_new].max()):.3g} for a data range of 3)", inp,
                                 {"n": int(bad_new.sum()), "location": list(idx), "got": float(res[idx]), "expected": float(exp[idx])},
                                 tags={"cause": "affine", "field": kind, "layout": layout}, size=n_out)
                if layout == "c_contiguous":
                    ref[kind] = res
                elif kind in ref:
                    r_ = ref[kind]
                    with np.errstate(all="ignore"):
                        dif = (np.isnan(res) != np.isnan(r_)) | (~np.isnan(r_) & (np.abs(res - r_) > 1e-9 * (1 + np.abs(r_))))
                    if dif.any():
                        idx = tuple(map(int, np.argwhere(dif)[0]))
                        ctx.fail(site, f"{kind} field: the result depends on the memory layout of the source lon/lat arrays: {res[idx]} at {idx} with {layout} arrays, "
                                 f"{r_[idx]} with C-contiguous copies of the same arrays ({int(dif.sum())} of {n_out} positions)", inp,
                                 {"n": int(dif.sum()), "location": list(idx), "got": float(res[idx]), "c_contiguous": float(r_[idx])},
                                 tags={"cause": "layout", "field": kind, "layout": layout}, size=n_out)
                # the xarray / dask resampler on the same source
                if layout == "c_contiguous" or kind == "constant" or (ctx.quick and kind != "affine"):
                    continue
                chunkings = [(-1, -1), (7, 11)] if not ctx.quick else [rng.choice([(-1, -1), (7, 11), (5, 5)])]
                for ch in chunkings:
                    gch = rng.choice([4096, 9])
                    X.CHUNK_SIZE = gch
                    inpx = {**inp, "resampler": "XArrayBilinearResampler", "data_chunks": list(ch), "CHUNK_SIZE": gch}
                    try:
                        with warnings.catch_warnings(), np.errstate(all="ignore"), dask.config.set(scheduler="synchronous"):
                            warnings.simplefilter("ignore")
                            xrs = XArrayBilinearResampler(src, tgt, radius, neighbours=neighbours, reduce_data=False)
                            cy, cx = (shape[0] if ch[0] == -1 else ch[0]), (shape[1] if ch[1] == -1 else ch[1])
                            xd = xr.DataArray(da.from_array(data, chunks=(cy, cx)), dims=("y", "x"))
                            out = np.asarray(xrs.resample(xd, fill_value=np.nan).values, float).reshape(tgt.shape)
                    except Exception as e:  # noqa
                        ctx.fail("bilinear.XArrayBilinearResampler.resample", f"raised {type(e).__name__}: {str(e)[:150]} for source lon/lats in layout {layout}", inpx, None,
                                 tags={"cause": "raises", "layout": layout}, size=n_out)
                        continue
                    finally:
                        X.CHUNK_SIZE = 4096
                    ctx.case("layout-values", (label, layout, data_layout, kind, "xarray", ch, gch), nontrivial=bool(not lons.flags["C_CONTIGUOUS"]))
                    with np.errstate(all="ignore"):
                        dif = (np.isnan(out) != np.isnan(res)) | (~np.isnan(res) & (np.abs(out - res) > 1e-6 * (1 + hi - lo)))
                    if dif.any():
                        idx = tuple(map(int, np.argwhere(dif)[0]))
                        ctx.fail("bilinear.XArrayBilinearResampler.resample", f"{kind} field, source lon/lats as {layout}: xarray result {out[idx]} at {idx}, numpy result {res[idx]} "
                                 f"({int(dif.sum())} of {n_out} positions)", inpx, {"n": int(dif.sum()), "location": list(idx), "xarray": float(out[idx]), "numpy": float(res[idx])},
                                 tags={"cause": "numpy-vs-xarray-layout", "field": kind, "layout": layout}, size=n_out)


def run(ctx):
    import traceback
    for suite in (suite_solver, suite_corners, suite_resample, suite_resamplers, suite_source_memory_layout, suite_axis_targets):
        try:
            suite(ctx)
        except Exception as e:  # noqa
            from core import Infra
            if isinstance(e, Infra):
                raise
            ctx.disagree(suite.__name__, {"exception": f"{type(e).__name__}: {e}"}, "exception while driving the real code", "no exception",
                         note=traceback.format_exc()[-1200:])
