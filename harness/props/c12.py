"""C12 — geometry equality, hashing and cache keys."""
import hashlib
import itertools
import struct
import warnings
from fractions import Fraction

import numpy as np

META = {
    "rule": "cases: (i) groups of equivalent spellings of one area (int / float / np.float32 / np.int64 scalars, list / "
            "tuple / array extents, PROJ dict / string / WKT / EPSG / CRS object) and of one swath (list vs array, "
            "numpy vs xarray-wrapped numpy, C- vs F-ordered memory, copy(), full slice) - all members must be ==, "
            "hash-equal, digest-equal and give equal resampler cache keys; the area digest must equal SHA-1 of the "
            "byte string the Lean model prescribes; (ii) single-parameter perturbations (extent inside/outside the "
            "tolerance, shape, CRS incl. datum-only and axis-order-only differences, kwargs) - unequal and "
            "digest-different beyond tolerance; (iii) == reflexive/symmetric on pairs at the tolerance boundary vs "
            "the model; (iv) random histories of hash/append/slice/copy on swaths - hash must equal that of a "
            "fresh object with the same coordinates; (v) random histories on ONE resampler instance (BaseResampler and subclasses, future "
            "resamplers): key request / append to a held swath / reassignment of source_geo_def or target_geo_def / key request - every key "
            "equals that of a fresh resampler on fresh geometries and get_hash with the geometries given explicitly, and is not shared with "
            "an unequal geometry held earlier. Non-trivial: group with >= 3 spellings, perturbation, or a "
            "history containing hash (or a cache key request) followed by a modification (and another request). Distinct = distinct canonical input.",
    "assumptions": ["SHA-1 is collision-free on the inputs seen", "pyproj normalises equivalent CRS spellings to one WKT (observed, not proved)"],
}

CRS_GROUPS = [
    [{"proj": "laea", "lat_0": 52, "lon_0": 10, "x_0": 4321000, "y_0": 3210000, "ellps": "GRS80", "units": "m", "no_defs": None, "type": "crs"},
     "+proj=laea +lat_0=52 +lon_0=10 +x_0=4321000 +y_0=3210000 +ellps=GRS80 +units=m +no_defs +type=crs"],
    ["EPSG:32633", 32633, "epsg:32633"],
    ["EPSG:4326", 4326],
    [{"proj": "stere", "lat_0": 90, "lat_ts": 60, "lon_0": 0, "ellps": "WGS84"},
     "+proj=stere +lat_0=90 +lat_ts=60 +lon_0=0 +ellps=WGS84"],
]
# pairs that differ ONLY in the CRS (datum-only / axis-order-only / parameter differences)
CRS_DIFFERENT = [("EPSG:4326", "OGC:CRS84"), ("EPSG:4258", "EPSG:4283"), ("EPSG:32633", "EPSG:32634"),
                 ("EPSG:3035", {"proj": "laea", "lat_0": 52, "lon_0": 10, "x_0": 4321000, "y_0": 3210000, "ellps": "GRS80", "units": "m"}),
                 ({"proj": "stere", "lat_0": 90, "lat_ts": 60, "lon_0": 0, "ellps": "WGS84"},
                  {"proj": "stere", "lat_0": 90, "lat_ts": 60.5, "lon_0": 0, "ellps": "WGS84"})]


def _mk(proj, w, h, ext):
    from pyresample.geometry import AreaDefinition
    with warnings.catch_warnings():
        warnings.simplefilter("ignore")
        return AreaDefinition("a", "a", "a", proj, w, h, ext)


def _spell_extents(vals):
    """equivalent spellings of one extent (vals are small integers or dyadics exactly representable in float32)"""
    integral = all(float(v).is_integer() for v in vals)
    out = [("tuple_float", tuple(float(v) for v in vals)), ("list_float", [float(v) for v in vals]),
           ("array_f64", np.array(vals, dtype=np.float64)), ("array_f32", np.array(vals, dtype=np.float32)),
           ("tuple_npf64", tuple(np.float64(v) for v in vals)), ("tuple_npf32", tuple(np.float32(v) for v in vals)),
           ("mixed", tuple(float(v) if i % 2 else np.float32(v) for i, v in enumerate(vals)))]
    if integral:
        out += [("tuple_int", tuple(int(v) for v in vals)), ("list_npint64", [np.int64(v) for v in vals]),
                ("array_int", np.array([int(v) for v in vals])), ("int_float_mix", tuple(int(v) if i % 2 else float(v) for i, v in enumerate(vals)))]
    return out


def _wire_num(v):
    if isinstance(v, (int, np.integer)) and not isinstance(v, bool):
        return f"i:{int(v)}"
    if isinstance(v, np.float32):
        return "s:" + _fr(Fraction(float(v)))
    return "d:" + _fr(Fraction(float(v)))


def _fr(q):
    return str(q.numerator) if q.denominator == 1 else f"{q.numerator}/{q.denominator}"


def _item_bytes(tok):
    k, v = tok[0], tok[1:]
    if k == "i":
        return struct.pack("<q", int(v))
    q = Fraction(v)
    return struct.pack("<d", float(q)) if k == "d" else struct.pack("<f", float(q))


def _model_digest(ctx, area, ext_spelled):
    """SHA-1 of the byte string the model prescribes for this area"""
    rep = ctx.M.ask("ser", area.height, area.width, [_wire_num(v) for v in ext_spelled])
    h = hashlib.sha1()
    h.update(area.crs_wkt.encode("utf-8"))
    for tok in rep.split():
        h.update(_item_bytes(tok))
    return h.hexdigest()


def _keys(src, tgt, **kw):
    from pyresample.future.resamplers.resampler import hash_resampler_geometries
    from pyresample.resampler import BaseResampler
    with warnings.catch_warnings():
        warnings.simplefilter("ignore")
        return (BaseResampler(src, tgt).get_hash(**kw), hash_resampler_geometries(src, tgt, **kw))


def suite_area_spellings(ctx):
    r = ctx.rng
    extents = [(0, 0, 4000, 5000), (-8.0, 16.0, -6.5, 17.25), (-2048, -1024, 2048, 3072), (0.5, 0.25, 1024.5, 2048.25),
               (100000, 200000, 100512, 200256)]
    other = _mk("EPSG:4326", 7, 3, (0, 0, 7, 3))
    n_groups = 0
    for group in CRS_GROUPS:
        for vals in (extents if not ctx.quick else extents[:3]):
            w, h = r.randrange(1, 9), r.randrange(1, 9)
            members = []
            for proj in group:
                for nm, ext in _spell_extents(vals):
                    if ctx.quick and r.random() < 0.5 and members:
                        continue
                    members.append((f"{type(proj).__name__}:{nm}", _mk(proj, w, h, ext), ext))
            # a CRS object, a copy, and a full slice of the first member
            from pyproj import CRS
            with warnings.catch_warnings():
                warnings.simplefilter("ignore")
                members.append(("CRS-object", _mk(CRS.from_user_input(group[0]), w, h, tuple(float(v) for v in vals)), tuple(float(v) for v in vals)))
                # the same CRS handed over as WKT text in other renderings (pretty-printed, WKT2:2015, WKT1)
                rerendered = set()
                crs0 = CRS.from_user_input(group[0])
                fext = tuple(float(v) for v in vals)
                for wnm, kwargs in (("wkt-pretty", {"pretty": True}), ("wkt2-2015", {"version": "WKT2_2015"}), ("wkt1-gdal", {"version": "WKT1_GDAL"})):
                    try:
                        text = crs0.to_wkt(**kwargs)
                        if CRS.from_wkt(text) == crs0:
                            members.append((wnm, _mk(text, w, h, fext), fext))
                            # pyproj itself re-renders this text differently from the CRS it compares equal to (names only): finding F26
                            if CRS.from_wkt(text).to_wkt() != crs0.to_wkt():
                                rerendered.add(wnm)
                    except Exception:  # noqa: not every CRS has every rendering
                        pass
                members.append(("copy()", members[0][1].copy(), members[0][2]))
                members.append(("copy-of-" + members[-2][0], members[-2][1].copy(), members[-2][2]))
                members.append(("full-slice", members[0][1][:, :], list(members[0][1][:, :].area_extent)))
            base_nm, base, _ = members[0]
            base_dig = base.update_hash().hexdigest()
            base_keys = _keys(base, other, radius=10.0) + _keys(other, base, radius=10.0)
            for nm, a, ext in members:
                inp = {"crs_group": str(group[0])[:60], "extent_values": [float(v) for v in vals], "shape": [h, w],
                       "spelling_a": base_nm, "spelling_b": nm}
                probs = []
                if not (a == base and base == a) or (a != base):
                    probs.append("compare unequal")
                if hash(a) != hash(base):
                    probs.append("hash() differs")
                dig = a.update_hash().hexdigest()
                if dig != base_dig:
                    probs.append("update_hash digest differs")
                if _keys(a, other, radius=10.0) + _keys(other, a, radius=10.0) != base_keys:
                    probs.append("resampler cache key differs")
                if probs:
                    known_wkt = nm.replace("copy-of-", "") in rerendered and "compare unequal" not in probs
                    ctx.fail("AreaDefinition.update_hash", "numerically identical areas in two spellings: " + ", ".join(probs), inp,
                             tags={"kind": "wkt-rerendering-differs" if known_wkt else "spelling"}, size=10)
                if ctx.M and nm != "full-slice":
                    md = _model_digest(ctx, a, list(ext))
                    if md != dig:
                        ctx.disagree("area.digest_bytes", inp, dig, md, note="SHA-1(crs_wkt ++ int64 shape ++ float64 extent)")
                ctx.case("area.spellings", (str(group[0])[:40], tuple(vals), w, h, nm), nontrivial=True,
                         sample={"input": inp} if nm.endswith("array_f32") else None)
            n_groups += 1
    ctx.count("area.spelling_groups", n_groups)


def suite_area_perturb(ctx):
    r = ctx.rng
    other = _mk("EPSG:4326", 7, 3, (0, 0, 7, 3))
    base_ext = (100000.0, 200000.0, 164000.0, 248000.0)
    base = _mk("EPSG:32633", 64, 48, base_ext)
    bd = base.update_hash().hexdigest()
    bk = _keys(base, other, radius=10.0)
    variants = []
    for i in range(4):
        for delta in (1000.0, 50.0, 10.0, 2.5, -2.5):   # well beyond rtol=1e-5 of 1e5..2.5e5
            e = list(base_ext)
            e[i] += delta
            variants.append((f"extent[{i}]{delta:+}", _mk("EPSG:32633", 64, 48, e), True))
        e = list(base_ext)
        e[i] += 1e-4                                    # inside the tolerance: equal, digest unspecified
        variants.append((f"extent[{i}]+1e-4", _mk("EPSG:32633", 64, 48, e), False))
    variants += [("shape 48x64", _mk("EPSG:32633", 48, 64, base_ext), True), ("shape 64x47", _mk("EPSG:32633", 64, 47, base_ext), True),
                 ("crs 32634", _mk("EPSG:32634", 64, 48, base_ext), True)]
    for nm, v, must_differ in variants:
        inp = {"base": {"crs": "EPSG:32633", "shape": [48, 64], "extent": list(base_ext)}, "perturbation": nm}
        eq = (v == base)
        sym = (base == v)
        if eq != sym:
            ctx.fail("AreaDefinition.__eq__", "== is not symmetric", inp, {"a==b": bool(eq), "b==a": bool(sym)}, size=5)
        if must_differ:
            probs = []
            if eq or not (v != base):
                probs.append("compare equal")
            if v.update_hash().hexdigest() == bd:
                probs.append("same digest")
            if _keys(v, other, radius=10.0)[0] == bk[0] or _keys(v, other, radius=10.0)[1] == bk[1]:
                probs.append("same resampler cache key")
            if probs:
                ctx.fail("AreaDefinition.update_hash", "areas differing beyond the tolerance: " + ", ".join(probs), inp,
                         tags={"kind": "perturbation"}, size=5)
        elif not eq:
            ctx.fail("AreaDefinition.__eq__", "areas differing by 1e-4 m (inside the tolerance) compare unequal", inp, size=5)
        ctx.case("area.perturb", nm, nontrivial=True, sample={"input": inp, "equal": bool(eq)})
    # CRS-only differences
    for p1, p2 in CRS_DIFFERENT:
        ext = (-8.0, 40.0, 8.0, 56.0) if "4" in str(p1)[:7] and "32" not in str(p1) and "3035" not in str(p1) else (3000000.0, 2000000.0, 3064000.0, 2048000.0)
        if isinstance(p1, dict):
            ext = (-1000000.0, -3500000.0, 1500000.0, -1000000.0)
        a, b = _mk(p1, 16, 16, ext), _mk(p2, 16, 16, ext)
        inp = {"crs_a": str(p1)[:70], "crs_b": str(p2)[:70], "extent": list(ext)}
        if a.crs == b.crs:
            ctx.note(f"pyproj considers {p1} and {p2} equal; pair skipped")
            continue
        probs = []
        if a == b or b == a:
            probs.append("compare equal")
        if a.update_hash().hexdigest() == b.update_hash().hexdigest():
            probs.append("same digest")
        if hash(a) == hash(b):
            probs.append("same hash()")
        if _keys(a, other)[0] == _keys(b, other)[0] or _keys(other, a)[1] == _keys(other, b)[1]:
            probs.append("same resampler cache key")
        if probs:
            ctx.fail("AreaDefinition.update_hash", "areas that differ only in their CRS: " + ", ".join(probs), inp,
                     tags={"kind": "crs-only"}, size=5)
        ctx.case("area.crs_only", (str(p1), str(p2)), nontrivial=True, sample={"input": inp})
    # kwargs
    kws = [dict(radius=10.0), dict(radius=10.5), dict(radius=10.0, neighbours=2), dict(radius=10.0, epsilon=0.1),
           dict(radius=10.0, fill_value=None), dict(radius=10.0, reduce_data=False), dict(neighbours=2, radius=10.0), dict()]
    seen = {}
    for kw in kws:
        k = _keys(base, other, **kw)
        canon = tuple(sorted(kw.items(), key=lambda t: t[0]))
        for i in (0, 1):
            prev = seen.setdefault((i, k[i]), canon)
            if prev != canon:
                ctx.fail("BaseResampler.get_hash", "two different sets of resampling keywords give the same cache key",
                         {"kwargs_a": dict(prev), "kwargs_b": kw}, size=3)
        ctx.case("kwargs", str(canon), nontrivial=True)
    if _keys(base, other, radius=10.0, neighbours=2) != _keys(base, other, neighbours=2, radius=10.0):
        ctx.fail("BaseResampler.get_hash", "cache key depends on keyword order", {}, size=3)


def suite_eq_boundary(ctx):
    """== at the tolerance boundary: reflexive, symmetric, equal to the model"""
    r = ctx.rng
    for _ in range(150 if ctx.quick else 1500):
        scale = r.choice([1.0, 100.0, 1e5, 2.5e6])
        base = [r.uniform(-1, 1) * scale for _ in range(2)]
        ext = (base[0], base[1], base[0] + r.uniform(0.1, 1) * scale, base[1] + r.uniform(0.1, 1) * scale)
        i = r.randrange(4)
        thr = 1e-8 + 1e-5 * abs(ext[i])
        delta = thr * r.choice([0.5, 0.999, 0.9999999, 1.0, 1.0000001, 1.00001, 1.001, 2.0]) * r.choice([1, -1])
        e2 = list(ext)
        e2[i] += delta
        a, b = _mk("EPSG:32633", 5, 4, ext), _mk("EPSG:32633", 5, 4, e2)
        inp = {"extent_a": list(ext), "extent_b": e2}
        ab, ba = bool(a == b), bool(b == a)
        if not (a == a) or not (b == b):
            ctx.fail("AreaDefinition.__eq__", "== is not reflexive", inp, size=5)
        if ab != ba:
            ctx.fail("AreaDefinition.__eq__", "== is not symmetric", inp, {"a==b": ab, "b==a": ba}, tags={"kind": "symmetry"}, size=5)
        if (a != b) == ab:
            ctx.fail("AreaDefinition.__ne__", "!= is not the negation of ==", inp, size=5)
        if ctx.M:
            rep = ctx.M.ask("areaeq", True, 4, 5, ["d:" + _fr(Fraction(float(v))) for v in a.area_extent],
                            4, 5, ["d:" + _fr(Fraction(float(v))) for v in b.area_extent])
            # np.allclose evaluates |a-b| <= atol + rtol*|b| in floats: skip cases within 1e-12 relative of the threshold
            exact_diff = abs(Fraction(float(a.area_extent[i])) - Fraction(float(b.area_extent[i])))
            t1 = Fraction(1, 10 ** 8) + Fraction(1, 10 ** 5) * abs(Fraction(float(b.area_extent[i])))
            t2 = Fraction(1, 10 ** 8) + Fraction(1, 10 ** 5) * abs(Fraction(float(a.area_extent[i])))
            near = min(abs(exact_diff - t1), abs(exact_diff - t2)) <= Fraction(1, 10 ** 11) * max(t1, t2)
            if not near and (rep == "1") != ab:
                ctx.disagree("area.eq", inp, ab, rep)
        ctx.case("area.eq_boundary", (tuple(ext), i, delta), nontrivial=True, sample={"input": inp, "a==b": ab})


def suite_swath(ctx):
    import dask.array as da
    import xarray as xr
    from pyresample.geometry import SwathDefinition
    r = ctx.rng
    other = _mk("EPSG:4326", 7, 3, (0, 0, 7, 3))
    for _ in range(25 if ctx.quick else 250):
        H, W = r.randrange(1, 6), r.randrange(2, 6)
        lons = np.array([[r.uniform(-180, 180) for _ in range(W)] for _ in range(H)])
        lats = np.array([[r.uniform(-90, 90) for _ in range(W)] for _ in range(H)])
        base = SwathDefinition(lons, lats)
        members = [("array", base),
                   ("list", SwathDefinition(lons.tolist(), lats.tolist())),
                   ("xarray", SwathDefinition(xr.DataArray(lons, dims=("y", "x")), xr.DataArray(lats, dims=("y", "x")))),
                   ("F-ordered", SwathDefinition(np.asfortranarray(lons), np.asfortranarray(lats))),
                   ("transposed-view", SwathDefinition(np.ascontiguousarray(lons.T).T, np.ascontiguousarray(lats.T).T)),
                   ("xarray-transposed", SwathDefinition(xr.DataArray(np.ascontiguousarray(lons.T), dims=("x", "y")).transpose("y", "x"),
                                                         xr.DataArray(np.ascontiguousarray(lats.T), dims=("x", "y")).transpose("y", "x"))),
                   ("copy()", base.copy()), ("full-slice", base[:, :]),
                   ("strided-view", SwathDefinition(np.repeat(lons, 2, axis=1)[:, ::2], np.repeat(lats, 2, axis=1)[:, ::2]))]
        bd = base.update_hash().hexdigest()
        bk = _keys(base, other, radius=1.0)
        for nm, s in members:
            probs = []
            if not (s == base and base == s):
                probs.append("compare unequal")
            if hash(s) != hash(base):
                probs.append("hash() differs")
            if s.update_hash().hexdigest() != bd:
                probs.append("digest differs")
            if _keys(s, other, radius=1.0) != bk:
                probs.append("resampler cache key differs")
            if probs:
                ctx.fail("BaseDefinition.update_hash", f"swath spelled as {nm} vs plain array: " + ", ".join(probs),
                         {"shape": [H, W], "spelling": nm}, tags={"kind": "swath-spelling"}, size=H * W)
            ctx.case("swath.spellings", (H, W, nm, float(lons[0, 0])), nontrivial=True,
                     sample={"input": {"shape": [H, W], "spelling": nm}} if nm == "F-ordered" else None)
        # perturbation beyond the tolerance
        l2 = lons.copy()
        l2[r.randrange(H), r.randrange(W)] += 1e-3
        p = SwathDefinition(l2, lats)
        if p == base or base == p or p.update_hash().hexdigest() == bd or hash(p) == hash(base):
            ctx.fail("BaseDefinition.update_hash", "swaths differing by 1e-3 degree in one coordinate compare equal or share a digest",
                     {"shape": [H, W]}, size=H * W)
        # what is fed to the digest, against the model (proved to determine lons, lats and mask for a given shape/dtype)
        if ctx.M:
            import hashlib
            for dt in (np.float64, np.float32):
                for masked in (False, True):
                    lo_, la_ = lons.astype(dt), lats.astype(dt)
                    mk_ = None
                    if masked:
                        mk_ = np.array([[r.random() < 0.3 for _ in range(W)] for _ in range(H)])
                        sw_ = SwathDefinition(np.ma.masked_array(lo_, mk_), np.ma.masked_array(la_, mk_))
                    else:
                        sw_ = SwathDefinition(lo_, la_)
                    lb, ab = list(lo_.tobytes()), list(la_.tobytes())
                    mb = list(np.ascontiguousarray(mk_).view(np.uint8).tobytes()) if masked else []
                    rep = ctx.M.ask("feed", lb, ab, mb)
                    want = hashlib.sha1(bytes(int(t) for t in rep.split())).hexdigest()
                    got = sw_.update_hash().hexdigest()
                    ctx.case("swath.feed", (H, W, np.dtype(dt).name, masked, float(lons[0, 0])), nontrivial=True)
                    if got != want:
                        ctx.disagree("swath.feed", {"shape": [H, W], "dtype": np.dtype(dt).name, "masked": masked}, got, want,
                                     "update_hash digest is not sha1(lon bytes, lat bytes[, mask bytes]) as in the model")
        # lons and lats exchanged: different coordinates, so unequal and a different digest / hash / cache key
        xa, ya = lats.copy(), (lons / 2.0)
        if not np.array_equal(xa, ya):
            for nm, mk in (("array", lambda v: v.copy()), ("xarray", lambda v: xr.DataArray(v.copy(), dims=("y", "x"))), ("float32", lambda v: v.astype(np.float32))):
                s1, s2 = SwathDefinition(mk(xa), mk(ya)), SwathDefinition(mk(ya), mk(xa))
                probs = []
                if s1 == s2 or s2 == s1:
                    probs.append("compare equal")
                if s1.update_hash().hexdigest() == s2.update_hash().hexdigest():
                    probs.append("same update_hash digest")
                if hash(s1) == hash(s2):
                    probs.append("same hash()")
                if _keys(s1, other, radius=1.0) == _keys(s2, other, radius=1.0):
                    probs.append("same resampler cache key")
                ctx.case("swath.exchanged", (H, W, nm, float(lons[0, 0])), nontrivial=True)
                if probs:
                    ctx.fail("BaseDefinition.update_hash", f"two swaths with lons and lats exchanged ({nm}): " + ", ".join(probs), {"shape": [H, W], "spelling": nm},
                             tags={"kind": "swath-exchanged"}, size=H * W)
        # what == answers does not depend on whether hash() was called before (dict keys, cache look-ups), here for a pair that
        # differs by less than / about / more than the comparison tolerance
        for eps in (2e-7, 8e-7, 3e-6):
            l3 = lons.copy()
            l3[r.randrange(H), r.randrange(W)] += eps
            wrapk = r.choice(["array", "xarray", "list"])
            mk = {"array": lambda v: v.copy(), "xarray": lambda v: xr.DataArray(v.copy(), dims=("y", "x")), "list": lambda v: v.tolist()}[wrapk]
            fresh_ans = bool(SwathDefinition(mk(lons), mk(lats)) == SwathDefinition(mk(l3), mk(lats)))
            a, b = SwathDefinition(mk(lons), mk(lats)), SwathDefinition(mk(l3), mk(lats))
            order = r.choice(["a", "b", "ab", "eq-a-b"])
            if order == "eq-a-b":
                a == b
            for ch in order.replace("eq-", "").replace("-", ""):
                hash(a if ch == "a" else b)
            answers = (bool(a == b), bool(b == a), not bool(a != b))
            ctx.case("swath.eq_after_hash", (H, W, eps, wrapk, order, float(lons[0, 0])), nontrivial=True)
            ctx.count(f"swath.eq_after_hash.fresh_{fresh_ans}")
            if answers != (fresh_ans,) * 3:
                ctx.fail("BaseDefinition.__eq__", f"two {wrapk} swaths differing by {eps} deg in one longitude: fresh instances compare {fresh_ans}, but after hash() on "
                         f"{order} the answers of a==b, b==a, not a!=b are {answers}", {"shape": [H, W], "eps": eps, "spelling": wrapk, "hashed": order},
                         tags={"kind": "eq-depends-on-hash"}, size=H * W)
        # dask: same arrays -> equal and same hash, without computing
        dl, dt = da.from_array(lons, chunks=2), da.from_array(lats, chunks=2)
        d1, d2 = SwathDefinition(dl, dt), SwathDefinition(dl, dt)
        if not (d1 == d2) or hash(d1) != hash(d2) or d1.update_hash().hexdigest() != d2.update_hash().hexdigest():
            ctx.fail("BaseDefinition.update_hash", "two swaths over the same dask arrays are not equal / hash-equal", {"shape": [H, W]}, size=H * W)
    # histories
    for _ in range(200 if ctx.quick else 2500):
        W = r.randrange(1, 4)

        def rows(k):
            return (np.array([[r.uniform(-180, 180) for _ in range(W)] for _ in range(k)]).reshape(k, W),
                    np.array([[r.uniform(-90, 90) for _ in range(W)] for _ in range(k)]).reshape(k, W))
        lo, la = rows(r.randrange(1, 4))
        wrap = r.random() < 0.3
        obj = SwathDefinition(xr.DataArray(lo, dims=("y", "x")), xr.DataArray(la, dims=("y", "x"))) if wrap else SwathDefinition(lo, la)
        cur_lo, cur_la = lo, la
        hist = []
        hashed_then_modified = False
        hashed = False
        for _step in range(r.randrange(1, 7)):
            op = r.choice(["hash", "hash", "append", "slice", "flip", "copy", "eq"])
            if op == "hash":
                hash(obj)
                hashed = True
            elif op == "append" and not wrap:
                k = r.randrange(0, 3)
                o_lo, o_la = rows(k)
                obj.append(SwathDefinition(o_lo, o_la))
                cur_lo, cur_la = np.concatenate([cur_lo, o_lo]), np.concatenate([cur_la, o_la])
                hashed_then_modified |= hashed
                op = f"append({k} rows)"
            elif op == "slice":
                a = r.randrange(0, cur_lo.shape[0] + 1)
                b = r.choice([None, r.randrange(a, cur_lo.shape[0] + 1)])
                if cur_lo[a:b].shape[0] == 0:
                    continue
                obj = obj[slice(a, b), slice(None)]
                cur_lo, cur_la = cur_lo[a:b], cur_la[a:b]
                hashed_then_modified |= hashed
                op = f"[{a}:{b}, :]"
            elif op == "flip":
                # shape-preserving slices that are NOT the identity
                which = r.choice(["rows", "cols", "both"])
                ys = slice(None, None, -1) if which in ("rows", "both") else slice(None)
                xs = slice(None, None, -1) if which in ("cols", "both") else slice(None)
                obj = obj[ys, xs]
                cur_lo, cur_la = cur_lo[ys, xs], cur_la[ys, xs]
                hashed_then_modified |= hashed
                op = f"flip-{which}"
            elif op == "copy":
                obj = obj.copy()
            elif op == "eq":
                obj == SwathDefinition(cur_lo.copy(), cur_la.copy())
            hist.append(op)
        fresh = SwathDefinition(cur_lo.copy(), cur_la.copy())
        inp = {"width": W, "xarray_wrapped": wrap, "history": hist}
        got_lo = np.asarray(obj.lons)
        if got_lo.shape != cur_lo.shape or not np.array_equal(got_lo, cur_lo):
            ctx.disagree("swath.history.coords", inp, got_lo.tolist(), cur_lo.tolist())
        if not (obj == fresh and fresh == obj):
            ctx.fail("CoordinateDefinition", "after this history the object does not equal a fresh object with the same coordinates", inp, size=len(hist))
        elif hash(obj) != hash(fresh) or obj.update_hash().hexdigest() != fresh.update_hash().hexdigest():
            ctx.fail("CoordinateDefinition.append", "after this history hash()/digest differ from those of an equal fresh object (stale memo)",
                     inp, tags={"kind": "stale-hash"}, size=len(hist))
        ctx.case("swath.history", str(hist) + str(float(cur_lo.sum())), nontrivial=hashed_then_modified,
                 sample={"input": inp} if hashed_then_modified else None)


def suite_area_full_slice(ctx):
    """a full slice of an area, in every spelling (area[:, :], area[0:h, 0:w], negative / out-of-range bounds, twice in a row, of a copy),
    is the same area: ==, same hash(), same update_hash digest, same resampler cache keys - for extents that are not round numbers
    (decimal metres, as area files have them) and many shapes, whether or not the parent was hashed before; a real crop is a different
    area.  Both sides of every comparison come from the real code; no model is involved."""
    from pyproj import CRS
    r = ctx.rng
    other = _mk("EPSG:4326", 7, 3, (0, 0, 7, 3))
    stere_d = {"a": "6378144.0", "b": "6356759.0", "lat_0": "50.00", "lat_ts": "50.00", "lon_0": "8.00", "proj": "stere"}
    crss = [stere_d, {"proj": "laea", "lat_0": 52, "lon_0": 10, "x_0": 4321000, "y_0": 3210000, "ellps": "GRS80"}, {"proj": "geos", "h": 35785831, "ellps": "WGS84"},
            "EPSG:32633", "EPSG:3035", "+proj=stere +lat_0=90 +lat_ts=60 +lon_0=0 +ellps=WGS84", {"proj": "merc", "ellps": "WGS84"}, "EPSG:3857"]
    areas = []
    # a classic 3 km polar-stereographic area file entry, at several grid sizes
    classic = (-1370912.72, -909968.64, 1029087.28, 1490031.36)
    shapes = [(800, 800), (425, 425), (640, 480), (1024, 1024), (100, 100), (333, 777)]
    for w, h in (shapes if not ctx.quick else shapes[:3] + r.sample(shapes[3:], 1)):
        areas.append((stere_d, w, h, classic))
    for _ in range(40 if ctx.quick else 400):
        crs = r.choice(crss)
        w, h = r.randrange(1, 1200), r.randrange(1, 1200)
        if r.random() < 0.3:
            w, h = r.randrange(1, 12), r.randrange(1, 12)
        dec = r.choice([2, 4, 1, 10])
        x0, y0 = round(r.uniform(-5.0e6, 5.0e6), dec), round(r.uniform(-5.0e6, 5.0e6), dec)
        px, py = r.choice([round(r.uniform(50, 5000), 3), r.choice([250.0, 1000.0, 3000.0, 4000.0])]), r.choice([round(r.uniform(50, 5000), 3), 3000.0])
        ext = [x0, y0, round(x0 + w * px, dec), round(y0 + h * py, dec)]
        if r.random() < 0.2:      # y (and sometimes x) running max -> min
            ext[1], ext[3] = ext[3], ext[1]
            if r.random() < 0.5:
                ext[0], ext[2] = ext[2], ext[0]
        areas.append((crs, w, h, tuple(ext)))
    for crs, w, h, ext in areas:
        with warnings.catch_warnings():
            warnings.simplefilter("ignore")
            wkt0 = CRS.from_user_input(crs).to_wkt()
            rerendered = CRS.from_wkt(wkt0).to_wkt() != wkt0      # pyproj re-renders its own WKT differently (finding F26)
        for hash_first in (False, True):
            area = _mk(crs, w, h, ext)
            if hash_first:
                hash(area)
            with warnings.catch_warnings():
                warnings.simplefilter("ignore")
                twins = [("area[:, :]", area[:, :]), ("area[0:h, 0:w]", area[0:h, 0:w]), ("area[-h:, :w+3]", area[-h:, :w + 3]),
                         ("area[:, :][:, :]", area[:, :][:, :]), ("area.copy()[:, :]", area.copy()[:, :]), ("area[None:h+1, -w-2:None]", area[None:h + 1, -w - 2:None])]
                crops = [("area[1:, :]", area[1:, :])] if h > 1 else []
                crops += [("area[:, :w-1]", area[:, :w - 1])] if w > 1 else []
            dig = area.update_hash().hexdigest()
            keys = _keys(area, other, radius=10.0) + _keys(other, area, radius=10.0)
            for nm, tw in twins:
                inp = {"crs": str(crs)[:90], "shape": [h, w], "extent": list(ext), "parent_hashed_first": hash_first, "twin": nm}
                probs = []
                if not (tw == area and area == tw) or (tw != area):
                    probs.append("compare unequal")
                if hash(tw) != hash(area):
                    probs.append("hash() differs")
                if tw.update_hash().hexdigest() != dig:
                    probs.append("update_hash digest differs")
                if _keys(tw, other, radius=10.0) + _keys(other, tw, radius=10.0) != keys:
                    probs.append("resampler cache key differs")
                if {area: 1}.get(tw) != 1:
                    probs.append("not found in a dict under its twin")
                same_numbers = tuple(float(v) for v in tw.area_extent) == tuple(float(v) for v in area.area_extent) and tw.shape == area.shape
                if probs and (not rerendered or not same_numbers or "compare unequal" in probs):
                    ctx.fail("AreaDefinition.__getitem__", f"{nm} of an area is not the same area: " + ", ".join(probs), inp,
                             {"extent_of_slice": [float(v) for v in tw.area_extent], "extent_of_area": [float(v) for v in area.area_extent],
                              "shape_of_slice": list(tw.shape)}, tags={"kind": "full-slice"}, size=10)
                elif probs:
                    ctx.fail("AreaDefinition.update_hash", f"{nm} of an area whose CRS text pyproj re-renders differently: " + ", ".join(probs), inp,
                             tags={"kind": "wkt-rerendering-differs"}, size=10)
                ctx.case("area.full_slice", (str(crs)[:40], w, h, ext, hash_first, nm), nontrivial=True,
                         sample={"input": inp} if nm == "area[0:h, 0:w]" and not hash_first else None)
            for nm, cr in crops:
                inp = {"crs": str(crs)[:90], "shape": [h, w], "extent": list(ext), "parent_hashed_first": hash_first, "crop": nm}
                probs = []
                if cr == area or area == cr or not (cr != area):
                    probs.append("compare equal")
                if cr.update_hash().hexdigest() == dig or hash(cr) == hash(area):
                    probs.append("same digest / hash()")
                if probs:
                    ctx.fail("AreaDefinition.__getitem__", f"{nm} (a real crop) of an area: " + ", ".join(probs), inp, tags={"kind": "crop"}, size=10)
                ctx.case("area.full_slice.crop", (str(crs)[:40], w, h, ext, hash_first, nm), nontrivial=True)
        ctx.count("area.full_slice." + ("rerendered_crs" if rerendered else "stable_crs"))


def suite_resampler_histories(ctx):
    """histories on ONE resampler instance: a cache key is requested (BaseResampler.get_hash and its subclasses, the future resamplers'
    _get_hash), then a geometry the resampler holds is modified through its public methods (swath.append) or the public attributes
    source_geo_def / target_geo_def are reassigned (to another geometry, or to an equal one built anew), then a key is requested again,
    in any order.  Every key must be the key a freshly built resampler gives on freshly built geometries with the current coordinates,
    must equal get_hash(source_geo_def=..., target_geo_def=..., **kw) with the current geometries given explicitly, and must not be a key
    that the same keywords had while the resampler held an unequal geometry.  All sides come from the real code."""
    from pyresample.ewa import DaskEWAResampler
    from pyresample.future.resamplers import KDTreeNearestXarrayResampler
    from pyresample.geometry import SwathDefinition
    from pyresample.gradient import ResampleBlocksGradientSearchResampler
    from pyresample.resampler import BaseResampler
    r = ctx.rng
    kws = [dict(radius_of_influence=10000, neighbours=1), dict(radius_of_influence=10000, neighbours=4), dict(radius_of_influence=50000, neighbours=1, epsilon=0.0),
           dict(), dict(rows_per_scan=2), dict(method="nn")]
    projs = ["EPSG:4326", "EPSG:32633", {"proj": "laea", "lat_0": 45.0, "lon_0": 10.0, "ellps": "WGS84"}, {"proj": "stere", "lat_0": 90, "lat_ts": 60, "lon_0": 0, "ellps": "WGS84"}]

    def rows(k, w):
        return (np.array([[r.uniform(-180, 180) for _ in range(w)] for _ in range(k)]).reshape(k, w),
                np.array([[r.uniform(-90, 90) for _ in range(w)] for _ in range(k)]).reshape(k, w))

    def new_spec(kind, w=None):
        if kind == "swath":
            w = w or r.randrange(2, 6)
            lo, la = rows(r.randrange(1, 5), w)
            return ["swath", lo, la]
        proj = r.choice(projs)
        W, H = r.randrange(2, 20), r.randrange(2, 20)
        if proj == "EPSG:4326":
            x0, y0, px = float(r.randrange(-40, 40)), float(r.randrange(-40, 40)), r.choice([0.25, 0.5, 1.0])
        else:
            x0, y0, px = float(r.randrange(-500, 500) * 1000), float(r.randrange(-500, 500) * 1000), r.choice([250.0, 1000.0, 3000.0])
        return ["area", proj, W, H, (x0, y0, x0 + W * px, y0 + H * px)]

    def build(spec):
        if spec[0] == "swath":
            return SwathDefinition(spec[1].copy(), spec[2].copy())
        return _mk(*spec[1:])

    def describe(spec):
        return f"swath{spec[1].shape}" if spec[0] == "swath" else f"area({str(spec[1])[:24]}, {spec[3]}x{spec[2]})"

    def canon(spec):
        return (spec[0], spec[1].tobytes(), spec[2].tobytes(), spec[1].shape) if spec[0] == "swath" else (spec[0], str(spec[1]), spec[2], spec[3], spec[4])

    classes = {"BaseResampler": (BaseResampler, "get_hash"), "DaskEWAResampler": (DaskEWAResampler, "get_hash"),
               "ResampleBlocksGradientSearchResampler": (ResampleBlocksGradientSearchResampler, "get_hash"),
               "future.KDTreeNearestXarrayResampler": (KDTreeNearestXarrayResampler, "_get_hash")}
    for _ in range(160 if ctx.quick else 1600):
        cname = r.choice(["BaseResampler", "BaseResampler", "DaskEWAResampler", "ResampleBlocksGradientSearchResampler", "future.KDTreeNearestXarrayResampler"])
        klass, meth = classes[cname]
        # (the EWA resampler wants a swath as source, the gradient resampler turns swath sources into dask arrays: areas there)
        src_kind = "swath" if cname == "DaskEWAResampler" else "area" if cname.startswith("ResampleBlocks") else r.choice(["swath", "swath", "area"])
        spec = {"source": new_spec(src_kind), "target": new_spec(r.choice(["area", "area", "swath"]))}
        with warnings.catch_warnings():
            warnings.simplefilter("ignore")
            rs = klass(build(spec["source"]), build(spec["target"]))
        site = "Resampler._get_hash" if cname.startswith("future") else "BaseResampler.get_hash"
        hist, bad = [], None
        seen = {}            # kw index -> [(canonical geometry pair, key)]
        keyed = modified_after_key = key_after_modification = False

        def ask_key(kwi):
            """one key request on the long-lived resampler, checked against the fresh paths"""
            kw = kws[kwi]
            with warnings.catch_warnings():
                warnings.simplefilter("ignore")
                now = getattr(rs, meth)(**kw)
                fresh_src, fresh_tgt = build(spec["source"]), build(spec["target"])
                fresh = getattr(klass(fresh_src, fresh_tgt), meth)(**kw)
                if not (rs.source_geo_def == fresh_src and rs.target_geo_def == fresh_tgt):
                    return "the geometries held by the resampler do not equal freshly built ones with the same coordinates (harness shadow out of step)", "shadow"
                if now != fresh:
                    return (f"{meth}({kw}) = {now[:12]}.. but a freshly built {cname} on equal geometries (source {describe(spec['source'])}, target "
                            f"{describe(spec['target'])}) gives {fresh[:12]}..: equal geometries, different cache keys"), "stale-key"
                if meth == "get_hash":
                    explicit = rs.get_hash(source_geo_def=rs.source_geo_def, target_geo_def=rs.target_geo_def, **kw)
                    if explicit != now:
                        return f"get_hash({kw}) differs from get_hash(source_geo_def=<its source>, target_geo_def=<its target>, {kw}) on the same resampler", "implicit-explicit"
                    for which in ("source", "target"):
                        part = rs.get_hash(**{f"{which}_geo_def": getattr(rs, f"{which}_geo_def")}, **kw)
                        if part != now:
                            return f"get_hash({kw}) differs from get_hash({which}_geo_def=<its {which}>, {kw}) on the same resampler", "implicit-explicit"
            pair = (canon(spec["source"]), canon(spec["target"]))
            for old_pair, old_key in seen.get(kwi, []):
                if old_pair != pair and old_key == now:
                    return (f"{meth}({kw}) returns the key it returned while the resampler held an unequal geometry: unequal geometries share a cache key"), "shared-key"
            seen.setdefault(kwi, []).append((pair, now))
            return None

        n_steps = r.randrange(3, 8)
        for step in range(n_steps):
            op = "key" if step == 0 and r.random() < 0.7 else r.choice(["key", "key", "append", "append", "reassign", "reassign-equal", "hash-geometry"])
            if op == "key":
                kwi = r.randrange(len(kws))
                hist.append(f"{meth}({kws[kwi]})")
                key_after_modification |= modified_after_key
                res = ask_key(kwi)
                keyed = True
                if res:
                    bad = res
                    break
                continue
            which = r.choice(["source", "target"])
            geo = getattr(rs, f"{which}_geo_def")
            if op == "append":
                if spec[which][0] != "swath":
                    continue
                k = r.randrange(0, 3)
                o_lo, o_la = rows(k, spec[which][1].shape[1])
                geo.append(SwathDefinition(o_lo, o_la))
                spec[which][1], spec[which][2] = np.concatenate([spec[which][1], o_lo]), np.concatenate([spec[which][2], o_la])
                hist.append(f"{which}_geo_def.append({k} rows)")
                modified_after_key |= keyed and k > 0
            elif op == "reassign":
                kind = "swath" if (cname == "DaskEWAResampler" and which == "source") else "area" if (cname.startswith("ResampleBlocks") and which == "source") \
                    else r.choice(["swath", "area"])
                spec[which] = new_spec(kind)
                with warnings.catch_warnings():
                    warnings.simplefilter("ignore")
                    setattr(rs, f"{which}_geo_def", build(spec[which]))
                hist.append(f"{which}_geo_def = {describe(spec[which])}")
                modified_after_key |= keyed
            elif op == "reassign-equal":
                with warnings.catch_warnings():
                    warnings.simplefilter("ignore")
                    setattr(rs, f"{which}_geo_def", build(spec[which]))
                hist.append(f"{which}_geo_def = <an equal {spec[which][0]} built anew>")
            else:
                hash(geo)
                hist.append(f"hash({which}_geo_def)")
        if not bad:
            # whatever happened: every keyword set once more at the end
            for kwi in range(len(kws)):
                key_after_modification |= modified_after_key
                res = ask_key(kwi)
                if res:
                    hist.append(f"{meth}({kws[kwi]})")
                    bad = res
                    break
        inp = {"resampler": cname, "source": describe(spec["source"]), "target": describe(spec["target"]), "history": hist}
        if bad and bad[1] == "shadow":
            ctx.disagree("resampler.history.shadow", inp, "geometries differ", "equal", bad[0])
        elif bad:
            ctx.fail(site, "after this history on one resampler: " + bad[0], inp, tags={"kind": bad[1], "history": True}, size=len(hist))
        ctx.case("resampler.history", (cname, str(hist), canon(spec["source"]), canon(spec["target"])), nontrivial=key_after_modification,
                 sample={"input": inp} if key_after_modification else None)
        ctx.count("resampler.history." + cname)
        ctx.count("resampler.history." + ("key_modify_key" if key_after_modification else "other"))


def suite_coord_dtype_spellings(ctx):
    """lon/lat definitions (SwathDefinition 1-D and 2-D, CoordinateDefinition, GridDefinition) built from the same numbers in many spellings:
    ndarray of several dtypes (float64/32/16, int64/32/16, uint8), nested lists / tuples of Python ints or floats, lists mixing ints and floats,
    lists / tuples of numpy scalars of one dtype, lists of 1-D row arrays, xarray-wrapped numpy.  What numpy itself makes of a spelling
    (`np.array(spelling)`: values and dtype) is its 'natural' array; the property says list vs array / numpy vs xarray "of one dtype" are the
    same geometry.  So (a) every spelling against the definition built from its own natural array, and (b) every two spellings of one group
    whose natural arrays have the same dtype and values MUST be ==, have equal hash(), equal update_hash digest, equal resampler cache keys and
    collapse to one element in a set - also after hash() followed by append() of the same piece to both.  Pairs with equal values but
    DIFFERENT natural dtypes (int64 list vs float64 array) are only observed (counters), never flagged.  Own random stream; both sides real code."""
    import random

    import xarray as xr
    from pyresample.geometry import CoordinateDefinition, GridDefinition, SwathDefinition
    r = random.Random(f"c12-dtype-spellings-{ctx.seed}")
    other = _mk("EPSG:4326", 7, 3, (0, 0, 7, 3))
    classes = {"SwathDefinition": SwathDefinition, "CoordinateDefinition": CoordinateDefinition, "GridDefinition": GridDefinition}
    dtypes = [np.float64, np.float32, np.float16, np.int64, np.int32, np.int16, np.uint8]

    def nest(arr, conv, seq):
        """arr as nested `seq`s (list / tuple) of conv(element)"""
        if arr.ndim == 1:
            return seq(conv(v) for v in arr)
        return seq(seq(conv(v) for v in row) for row in arr)

    def spellings(arr):
        """[(name, spelling)] of the numbers held by `arr` (dtype D): what numpy makes of each one is computed by the caller"""
        D = arr.dtype.type
        integral = bool(np.all(np.asarray(arr, dtype=np.float64) == np.rint(np.asarray(arr, dtype=np.float64))))
        out = [(f"ndarray[{arr.dtype.name}]", arr.copy()),
               ("list-of-python-scalars", arr.tolist()),
               ("tuple-of-python-scalars", nest(arr, lambda v: v.item(), tuple)),
               (f"list-of-np.{arr.dtype.name}", nest(arr, D, list)),
               (f"tuple-of-np.{arr.dtype.name}", nest(arr, D, tuple)),
               (f"DataArray[{arr.dtype.name}]", xr.DataArray(arr.copy(), dims=("y", "x")[-arr.ndim:])),
               ("ndarray[float64]", arr.astype(np.float64)),
               ("list-of-python-floats", nest(arr, float, list))]
        if arr.ndim == 2:
            out.append((f"list-of-row-arrays[{arr.dtype.name}]", [row.copy() for row in arr]))
            out.append((f"F-ordered[{arr.dtype.name}]", np.asfortranarray(arr)))
        if integral:
            out.append(("list-of-python-ints", nest(arr, int, list)))
            out.append(("tuple-of-python-ints", nest(arr, int, tuple)))
            out.append(("ndarray[int64]", arr.astype(np.int64)))
            flip = [0]

            def mixed(v):
                flip[0] += 1
                return int(v) if flip[0] % 2 else float(v)
            out.append(("list-mixing-ints-and-floats", nest(arr, mixed, list)))
        return out

    def facts(d, keys=True):
        with warnings.catch_warnings():
            warnings.simplefilter("ignore")
            return {"hash": hash(d), "digest": d.update_hash().hexdigest(),
                    "keys": (_keys(d, other, radius=1.0) + _keys(other, d, radius=1.0)) if keys else None}

    def compare(a, fa, b, fb):
        probs = []
        with warnings.catch_warnings():
            warnings.simplefilter("ignore")
            if not (a == b and b == a) or (a != b):
                probs.append("compare unequal")
            if fa["hash"] != fb["hash"]:
                probs.append("hash() differs")
            if fa["digest"] != fb["digest"]:
                probs.append("update_hash digest differs")
            if fa["keys"] != fb["keys"]:
                probs.append("resampler cache key differs")
            if "compare unequal" not in probs and len({a, b}) != 1:
                probs.append("a set of the two keeps both")
        return probs

    for it in range(30 if ctx.quick else 300):
        cname = r.choice(["SwathDefinition", "SwathDefinition", "SwathDefinition", "CoordinateDefinition", "GridDefinition"])
        klass = classes[cname]
        ndim = 2 if cname == "GridDefinition" or r.random() < 0.6 else 1
        shape = (r.randrange(1, 5), r.randrange(2, 6)) if ndim == 2 else (r.randrange(2, 8),)
        D = r.choice(dtypes)
        n = int(np.prod(shape))
        if np.issubdtype(D, np.integer) or r.random() < 0.3:       # whole degrees (a coarse mesh)
            lo_min = 0 if D is np.uint8 else -180
            la_min = 0 if D is np.uint8 else -90
            lons = np.array([r.randrange(lo_min, 181) for _ in range(n)]).reshape(shape).astype(D)
            lats = np.array([r.randrange(la_min, 91) for _ in range(n)]).reshape(shape).astype(D)
        else:
            lons = np.array([r.uniform(-180, 180) for _ in range(n)]).reshape(shape).astype(D)
            lats = np.array([r.uniform(-90, 90) for _ in range(n)]).reshape(shape).astype(D)
        sp_lo, sp_la = spellings(lons), spellings(lats)
        built = []
        for (nm, s_lo), (_, s_la) in zip(sp_lo, sp_la):
            # what numpy itself makes of the spelling: the array the property's "list vs array of one dtype" refers to
            nat_lo, nat_la = np.array(s_lo), np.array(s_la)
            if nat_lo.dtype != nat_la.dtype or nat_lo.dtype == object:
                continue
            if cname == "GridDefinition" and isinstance(s_lo, (list, tuple)):
                continue             # (its constructor takes arrays only: plain sequences raise AttributeError, nothing to compare)
            inp = {"class": cname, "shape": list(shape), "numbers_dtype": np.dtype(D).name, "spelling": nm, "natural_dtype": nat_lo.dtype.name,
                   "lons": np.asarray(lons, dtype=np.float64).tolist(), "lats": np.asarray(lats, dtype=np.float64).tolist()}
            try:
                with warnings.catch_warnings():
                    warnings.simplefilter("ignore")
                    d = klass(s_lo, s_la)
                    ref = klass(nat_lo.copy(), nat_la.copy())
                    fd, fr_ = facts(d), facts(ref)
            except Exception as e:  # noqa
                ctx.fail(f"{cname}.__init__", f"built from {nm}: raised {type(e).__name__}: {str(e)[:120]}", inp, size=n)
                continue
            built.append((nm, nat_lo, nat_la, d, fd))
            ctx.case("coord.dtype_spellings", (cname, shape, np.dtype(D).name, nm, float(lons.flat[0]), float(lats.flat[-1])),
                     nontrivial=not isinstance(s_lo, np.ndarray), sample={"input": {k: v for k, v in inp.items() if k not in ("lons", "lats")}}
                     if nat_lo.dtype != np.float64 and isinstance(s_lo, (list, tuple)) else None)
            ctx.count(f"coord.dtype_spellings.natural_{nat_lo.dtype.name}." + ("sequence" if isinstance(s_lo, (list, tuple)) else "array"))
            probs = compare(d, fd, ref, fr_)
            if probs:
                ctx.fail("BaseDefinition.update_hash", f"{cname} built from {nm} vs built from np.array(<the same {type(s_lo).__name__}>) (dtype {nat_lo.dtype.name}, "
                         "the same values): " + ", ".join(probs), inp, {"dtype_held": str(getattr(d.lons, "dtype", None)), "dtype_of_np_array": nat_lo.dtype.name},
                         tags={"kind": "dtype-spelling", "natural_dtype": nat_lo.dtype.name}, size=n)
                continue
            # hash, then append the same (array) piece to both: still the same geometry
            if ndim == 2 and not isinstance(s_lo, xr.DataArray) and cname != "GridDefinition" and r.random() < 0.5:
                with warnings.catch_warnings():
                    warnings.simplefilter("ignore")
                    d2, ref2 = klass(s_lo, s_la), klass(nat_lo.copy(), nat_la.copy())
                    hash(d2), hash(ref2)
                    piece_lo, piece_la = nat_lo[:1].copy(), nat_la[:1].copy()
                    d2.append(klass(piece_lo, piece_la))
                    ref2.append(klass(piece_lo, piece_la))
                    probs = compare(d2, facts(d2, keys=False), ref2, facts(ref2, keys=False))
                ctx.case("coord.dtype_spellings.append", (cname, shape, np.dtype(D).name, nm, float(lons.flat[0])), nontrivial=True)
                if probs:
                    ctx.fail("CoordinateDefinition.append", f"{cname} built from {nm} vs from np.array(<the same>) (dtype {nat_lo.dtype.name}), both hashed and then "
                             "extended by the same rows: " + ", ".join(probs), {**inp, "history": ["hash", "append(first row)"]},
                             tags={"kind": "dtype-spelling", "history": True}, size=n + 2)
        # every two spellings of the group
        for (n1, lo1, la1, d1, f1), (n2, lo2, la2, d2, f2) in itertools.combinations(built, 2):
            same_values = np.array_equal(lo1, lo2) and np.array_equal(la1, la2)
            if not same_values:      # (float16/32 numbers re-spelled as float64 keep their values: always equal here)
                continue
            if lo1.dtype == lo2.dtype:
                probs = compare(d1, f1, d2, f2)
                ctx.count("coord.dtype_spellings.pairs.same_dtype")
                if probs:
                    ctx.fail("BaseDefinition.update_hash", f"{cname}: the same {lo1.dtype.name} numbers spelled as {n1} and as {n2}: " + ", ".join(probs),
                             {"class": cname, "shape": list(shape), "dtype": lo1.dtype.name, "spelling_a": n1, "spelling_b": n2,
                              "lons": np.asarray(lons, dtype=np.float64).tolist(), "lats": np.asarray(lats, dtype=np.float64).tolist()},
                             tags={"kind": "dtype-spelling", "natural_dtype": lo1.dtype.name}, size=n)
            else:
                # equal values held in different dtypes: what the code does is recorded, not judged (the property speaks of one dtype)
                with warnings.catch_warnings():
                    warnings.simplefilter("ignore")
                    eq = bool(d1 == d2)
                ctx.count("coord.dtype_spellings.pairs.other_dtype." + ("equal" if eq else "unequal") + "." + ("same_digest" if f1["digest"] == f2["digest"] else "different_digest"))


def run(ctx):
    suite_area_spellings(ctx)
    suite_area_perturb(ctx)
    suite_eq_boundary(ctx)
    suite_swath(ctx)
    suite_area_full_slice(ctx)
    suite_resampler_histories(ctx)
    suite_coord_dtype_spellings(ctx)
