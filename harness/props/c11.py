"""C11 — cropping a source to a target never discards a pixel the target needs."""
import warnings
from fractions import Fraction

import numpy as np

from . import kdcommon as kc

META = {
    "rule": "one case = (source geometry, target area, entry point). Same CRS: source grids in all four orientations x targets on a "
            "quarter-pixel lattice of offsets/sizes (inside, partial overlap, containing the source, one-pixel-thick, flipped in "
            "x / y / both) through AreaDefinition.get_area_slices and crop_around - compared exactly with the model and with the "
            "exact cover computed from the extents; different CRS: stere/laea/merc/eqc/longlat/geos (full and partial disk) pairs "
            "through create_slicer().get_slices() and resampler.crop_source_area with the exhaustive oracle 'map every target "
            "pixel centre into the source grid, its containing and nearest source pixels must be inside the slices'; swath sources "
            "with regular and irregular dask chunks. Non-trivial: partial overlap, a flipped geometry, a different CRS, or "
            "irregular chunks. Distinct = distinct canonical input.",
    "assumptions": ["target pixel centres are mapped to the source CRS by the harness with pyproj (parameter class)",
                    "for geostationary sources, source pixels within 0.1 % of the disk radius (the library keeps 1e-4 rad, about 0.07 %) of the Earth-disk edge are not counted as needed",
                    "the soundness of the 10-vertices-per-side polygon + buffer for curved reprojections is decided per pair by this oracle, not proved"],
}


def _needed(src, tgt):
    """(cols, rows) float array positions in the source grid of every target pixel centre that lands on the source grid"""
    import pyproj
    tx, ty = tgt.get_proj_coords()
    tr = pyproj.Transformer.from_crs(tgt.crs, src.crs, always_xy=True)
    with warnings.catch_warnings():
        warnings.simplefilter("ignore")
        sx, sy = tr.transform(np.asarray(tx).ravel(), np.asarray(ty).ravel())
        c, r = src.get_array_coordinates_from_projection_coordinates(np.atleast_1d(np.asarray(sx, float)), np.atleast_1d(np.asarray(sy, float)))
    c, r = np.atleast_1d(np.asarray(c, float)), np.atleast_1d(np.asarray(r, float))
    ok = np.isfinite(c) & np.isfinite(r)
    c, r = c[ok], r[ok]
    on = (c >= -0.5) & (c <= src.width - 0.5) & (r >= -0.5) & (r <= src.height - 0.5)
    return c[on], r[on]


def _geos_margin_filter(src, c, r):
    """drop needed positions lying in the library's safety margin at the Earth-disk edge"""
    if not src.is_geostationary:
        return c, r
    from pyresample.geometry import get_geostationary_angle_extent
    from pyresample.utils.proj4 import get_geostationary_height
    xa, ya = get_geostationary_angle_extent(src)
    h = get_geostationary_height(src.crs)
    x, y = src.get_projection_coordinates_from_array_coordinates(c, r)
    rad = (np.asarray(x) / (xa * h)) ** 2 + (np.asarray(y) / (ya * h)) ** 2
    keep = rad <= (1 - 0.001) ** 2
    return c[keep], r[keep]


def _check_cover(ctx, site, inp, src, c, r, xs, ys, tags=None, size=10):
    """every needed position's containing and nearest pixels are inside the slices"""
    if c.size == 0:
        return True
    xlo, xhi = sorted((xs.start, xs.stop)) if xs.step is None or xs.step > 0 else (xs.stop + 1, xs.start + 1)
    ylo, yhi = sorted((ys.start, ys.stop)) if ys.step is None or ys.step > 0 else (ys.stop + 1, ys.start + 1)
    bad = []
    # the pixel containing / nearest to position u is round(u); on an exact tie (u = k + 1/2) either neighbour may be meant:
    # both must be inside
    for rnd in (lambda a: np.floor(a + 0.5), lambda a: np.ceil(a - 0.5)):
        cc = np.clip(rnd(c), 0, src.width - 1)
        rr = np.clip(rnd(r), 0, src.height - 1)
        out = ~((cc >= xlo) & (cc < xhi) & (rr >= ylo) & (rr < yhi))
        if out.any():
            k = int(np.flatnonzero(out)[0])
            bad.append((float(c[k]), float(r[k]), int(cc[k]), int(rr[k])))
            break
    if bad:
        ctx.fail(site, f"the slices drop source pixel (row {bad[0][3]}, col {bad[0][2]}) that contains / is nearest to a target pixel centre "
                 f"(source array position col {bad[0][0]:.3f}, row {bad[0][1]:.3f})", inp,
                 {"x_slice": str(xs), "y_slice": str(ys), "needed_cols": [float(c.min()), float(c.max())], "needed_rows": [float(r.min()), float(r.max())]},
                 tags=tags or {}, size=size)
        return False
    return True


def suite_same_crs(ctx):
    from pyresample.geometry import IncompatibleAreas
    proj = {"proj": "laea", "lat_0": 52, "lon_0": 10, "ellps": "WGS84"}
    r = ctx.rng
    W, H = 12, 9
    px, py = 1024.0, 512.0
    X0, Y0 = -4096.0, 2048.0
    base = (X0, Y0, X0 + W * px, Y0 + H * py)
    orients = {"north_up": base, "flip_x": (base[2], base[1], base[0], base[3]), "flip_y": (base[0], base[3], base[2], base[1]),
               "flip_xy": (base[2], base[3], base[0], base[1])}
    offs = [-14.25, -3.5, -0.75, -0.5, -0.25, 0.0, 0.25, 0.5, 1.75, 5.0, 10.5, 11.75, 12.0, 13.25]
    sizes = [0.25, 1.0, 2.5, 5.0, 20.0]
    combos = [(ox, oy, sx, sy) for ox in offs for oy in offs[2:11] for sx in sizes for sy in sizes]
    if ctx.quick:
        combos = r.sample(combos, 260)
    for so, sext in orients.items():
        src = kc.mk_area(proj, W, H, sext)
        for ox, oy, sx, sy in combos:
            tw, th = r.choice([1, 2, 5]), r.choice([1, 3, 4])
            tx0, ty0 = X0 + ox * px, Y0 + oy * py
            tbase = (tx0, ty0, tx0 + sx * px, ty0 + sy * py)
            to = r.choice(["north_up", "north_up", "flip_x", "flip_y", "flip_xy"])
            text = {"north_up": tbase, "flip_x": (tbase[2], tbase[1], tbase[0], tbase[3]), "flip_y": (tbase[0], tbase[3], tbase[2], tbase[1]),
                    "flip_xy": (tbase[2], tbase[3], tbase[0], tbase[1])}[to]
            tgt = kc.mk_area(proj, tw, th, text)
            inp = {"source": {"extent": list(sext), "shape": [H, W], "orientation": so}, "target": {"extent": list(text), "shape": [th, tw], "orientation": to}}
            try:
                with warnings.catch_warnings():
                    warnings.simplefilter("ignore")
                    xs, ys = src.get_area_slices(tgt)
            except Exception as e:  # noqa
                ctx.fail("AreaDefinition.get_area_slices", f"raised {type(e).__name__}: {str(e)[:100]}", inp, size=5)
                continue
            # oracle: needed source pixels
            c, rr = _needed(src, tgt)
            _check_cover(ctx, "AreaDefinition.get_area_slices", inp, src, c, rr, xs, ys,
                         tags={"target_flipped_one_axis": to in ("flip_x", "flip_y"), "source_orientation": so}, size=5)
            # excess: at most one pixel per side beyond the exact cover of the target's extent
            lo_x, hi_x = sorted((xs.start, xs.stop)) if xs.step is None else (xs.stop + 1, xs.start + 1)
            lo_y, hi_y = sorted((ys.start, ys.stop)) if ys.step is None else (ys.stop + 1, ys.start + 1)
            g = [Fraction(float(v)) for v in src.area_extent]
            ux = sorted(((Fraction(float(text[0])) - g[0]) / (g[2] - g[0]) * W, (Fraction(float(text[2])) - g[0]) / (g[2] - g[0]) * W))
            uy = sorted(((g[3] - Fraction(float(text[1]))) / (g[3] - g[1]) * H, (g[3] - Fraction(float(text[3]))) / (g[3] - g[1]) * H))
            import math
            ex_lo_x, ex_hi_x = max(0, math.floor(ux[0])), min(W, math.ceil(ux[1]))
            ex_lo_y, ex_hi_y = max(0, math.floor(uy[0])), min(H, math.ceil(uy[1]))
            if ex_lo_x < ex_hi_x and ex_lo_y < ex_hi_y and xs.step is None and ys.step is None:
                if lo_x < ex_lo_x - 1 or hi_x > ex_hi_x + 1 or lo_y < ex_lo_y - 1 or hi_y > ex_hi_y + 1:
                    ctx.fail("AreaDefinition.get_area_slices", "slices exceed the exact cover of the target's extent by more than one pixel on a side",
                             inp, {"x_slice": str(xs), "y_slice": str(ys), "exact_cols": [ex_lo_x, ex_hi_x], "exact_rows": [ex_lo_y, ex_hi_y]}, size=5)
            if ctx.M:
                rep = ctx.M.ask("samecrs", *[Fraction(float(v)) for v in sext], W, H, *[Fraction(float(v)) for v in text])
                m = [int(v) for v in rep.split()]
                impl = [xs.start, xs.stop, ys.start, ys.stop]
                if m != impl:
                    ctx.disagree("samecrs", inp, impl, m)
            # crop_around must be the area sliced with those slices
            if xs.step is None and ys.step is None and xs.start < xs.stop and ys.start < ys.stop:
                with warnings.catch_warnings():
                    warnings.simplefilter("ignore")
                    ca = src.crop_around(tgt)
                if ca.shape != (ys.stop - ys.start, xs.stop - xs.start):
                    ctx.fail("AreaDefinition.crop_around", "cropped area's shape is not that of the slices", inp, size=5)
            ctx.case("same_crs", (so, to, ox, oy, sx, sy, tw, th), nontrivial=so != "north_up" or to != "north_up" or ox < 0 or ox + sx > W,
                     sample={"input": inp, "slices": [str(xs), str(ys)]} if (so == "flip_x" and to == "flip_y") else None)


def _pairs(ctx):
    out = []
    stere = {"proj": "stere", "lat_0": 90, "lat_ts": 60, "lon_0": 0, "ellps": "WGS84"}
    laea = {"proj": "laea", "lat_0": 52, "lon_0": 10, "ellps": "WGS84"}
    merc = {"proj": "merc", "lon_0": 0, "ellps": "WGS84"}
    eqc = {"proj": "eqc", "lon_0": 0, "ellps": "WGS84"}
    ll = {"proj": "longlat", "datum": "WGS84"}
    geos = {"proj": "geos", "lon_0": 0, "h": 35785831, "a": 6378169, "b": 6356583.8}
    src_specs = [("stere_eu", stere, 60, 50, (-2.0e6, -5.0e6, 2.5e6, -1.5e6)), ("laea_eu", laea, 64, 48, (-2.0e6, -1.5e6, 2.0e6, 1.5e6)),
                 ("merc", merc, 50, 40, (-2.0e6, 3.0e6, 3.0e6, 8.0e6)), ("eqc_flip_y", eqc, 40, 30, (-1.0e6, 7.0e6, 3.0e6, 3.5e6)),
                 ("longlat", ll, 72, 36, (-30.0, 30.0, 42.0, 66.0)), ("geos_full", geos, 110, 110, (-5570248.4, -5567248.0, 5567248.0, 5570248.4)),
                 ("geos_part", geos, 60, 40, (-3.0e6, 2.0e6, 3.0e6, 5.4e6))]
    tgt_specs = [("t_laea", laea, 9, 7, (-6.0e5, -4.0e5, 6.0e5, 5.0e5)), ("t_stere_small", stere, 5, 4, (0.0, -3.6e6, 6.0e5, -3.0e6)),
                 ("t_merc_strip", merc, 30, 1, (-1.0e6, 6.0e6, 2.0e6, 6.1e6)), ("t_ll_col", ll, 1, 12, (9.0, 44.0, 9.5, 56.0)),
                 ("t_laea_big", laea, 12, 12, (-4.0e6, -4.0e6, 4.0e6, 4.0e6)), ("t_ll_flip", ll, 8, 6, (20.0, 60.0, 4.0, 45.0)),
                 ("t_eqc_partial", eqc, 6, 6, (2.5e6, 5.0e6, 4.5e6, 6.5e6)), ("t_far_away", laea, 4, 4, (6.0e6, 6.0e6, 6.5e6, 6.5e6))]
    for sn, sp, sw, sh, se in src_specs:
        for tn, tp, tw, th, te in tgt_specs:
            out.append((sn, kc.mk_area(sp, sw, sh, se), tn, kc.mk_area(tp, tw, th, te)))
    if ctx.quick:
        out = out[::2] + out[1::7]
    # rim overlaps: the target reaches less than half a source pixel beyond the centres of the source's edge pixels, so the only
    # target centres on the source grid lie in the outer half of the edge pixels (outside the polygon through the edge centres)
    src = kc.mk_area(laea, 64, 48, (-2.0e6, -1.5e6, 2.0e6, 1.5e6))                  # 62.5 km pixels
    px = 62500.0
    out.append(("laea_eu", src, "t_rim_right", kc.mk_area(laea, 6, 5, (2.0e6 - 0.4 * px, -2.0e5, 2.0e6 - 0.4 * px + 6 * 20000.0, -1.0e5))))
    out.append(("laea_eu", src, "t_rim_top", kc.mk_area(laea, 5, 6, (1.0e5, 1.5e6 - 0.35 * px, 2.0e5, 1.5e6 - 0.35 * px + 6 * 15000.0))))
    out.append(("laea_eu", src, "t_rim_left_bottom", kc.mk_area(laea, 4, 4, (-2.0e6 - 3 * 25000.0, -1.5e6 - 3 * 25000.0, -2.0e6 + 0.3 * px, -1.5e6 + 0.3 * px))))
    # CRSs given as EPSG codes (authority axis order northing/easting or lat/lon): the same grids, spelled differently
    for tn, code, tw, th, te in (("t_epsg4326", "EPSG:4326", 8, 6, (4.0, 45.0, 20.0, 60.0)), ("t_epsg3035", "EPSG:3035", 7, 9, (4.0e6, 2.9e6, 4.7e6, 3.6e6)),
                                 ("t_epsg32633", "EPSG:32633", 6, 6, (2.0e5, 5.4e6, 8.0e5, 6.0e6))):
        for sn, sp, sw, sh, se in (src_specs[0], src_specs[1], src_specs[4], src_specs[5]):
            out.append((sn, kc.mk_area(sp, sw, sh, se), tn, kc.mk_area(code, tw, th, te)))
    out.append(("epsg3035_src", kc.mk_area("EPSG:3035", 70, 60, (2.5e6, 1.5e6, 6.0e6, 4.5e6)), "t_laea", kc.mk_area(laea, 9, 7, (-6.0e5, -4.0e5, 6.0e5, 5.0e5))))
    out.append(("epsg4326_src", kc.mk_area("EPSG:4326", 72, 36, (-30.0, 30.0, 42.0, 66.0)), "t_epsg3035", kc.mk_area("EPSG:3035", 7, 9, (4.0e6, 2.9e6, 4.7e6, 3.6e6))))
    # a full-resolution geostationary disk (3 km pixels) and small targets just inside the Earth-disk edge, all around the disk: the
    # disk polygon the slicer intersects with must follow the limb to well under a pixel
    from pyresample.geometry import get_geostationary_angle_extent
    from pyresample.utils.proj4 import get_geostationary_height
    fine = kc.mk_area(geos, 3712, 3712, (-5570248.4, -5567248.0, 5567248.0, 5570248.4))
    xa, ya = get_geostationary_angle_extent(fine)
    hh = get_geostationary_height(fine.crs)
    rr = ctx.rng
    for k in range(12 if ctx.quick else 60):
        if k % 2:
            th_ = rr.uniform(0, 2 * np.pi)
            f = rr.uniform(0.9945, 0.9965)
            half = rr.choice([6000.0, 9000.0])
        else:
            # where the limb runs along a grid axis the bounding box of (target within the disk polygon) is what decides the slices
            th_ = rr.choice([0.0, 0.5, 1.0, 1.5]) * np.pi + np.radians(rr.uniform(-3.0, 3.0))
            f = rr.uniform(0.9975, 0.9982)
            half = rr.choice([6000.0, 7500.0])
        cx_, cy_ = f * xa * hh * np.cos(th_), f * ya * hh * np.sin(th_)
        n_ = rr.choice([8, 12])
        out.append(("geos_fine", fine, f"t_geos_limb_{np.degrees(th_):.1f}deg", kc.mk_area(geos, n_, n_, (cx_ - half, cy_ - half, cx_ + half, cy_ + half))))
        lo_, la_ = fine.get_lonlat_from_projection_coordinates(cx_, cy_)
        if np.isfinite(lo_) and np.isfinite(la_) and abs(la_) < 80:
            out.append(("geos_fine", fine, f"t_ll_limb_{np.degrees(th_):.1f}deg", kc.mk_area(ll, 6, 6, (float(lo_) - 0.6, float(la_) - 0.6, float(lo_) + 0.6, float(la_) + 0.6))))
    s2 = kc.mk_area(stere, 60, 50, (-2.0e6, -5.0e6, 2.5e6, -1.5e6))                   # 75 x 70 km pixels
    out.append(("stere_eu", s2, "t_rim_stere_bottom", kc.mk_area(stere, 6, 4, (0.0, -5.0e6 - 3 * 20000.0, 1.2e5, -5.0e6 + 0.4 * 70000.0))))
    return out


def suite_diff_crs(ctx):
    from pyresample.geometry import IncompatibleAreas
    from pyresample.resampler import crop_source_area
    from pyresample.slicer import create_slicer
    for sn, src, tn, tgt in _pairs(ctx):
        inp = {"source": sn, "source_shape": list(src.shape), "target": tn, "target_shape": list(tgt.shape), "target_extent": [float(v) for v in tgt.area_extent]}
        c, r = _needed(src, tgt)
        c, r = _geos_margin_filter(src, c, r)
        same_crs = src.crs == tgt.crs
        for entry in ("create_slicer", "crop_source_area"):
            try:
                with warnings.catch_warnings():
                    warnings.simplefilter("ignore")
                    if entry == "create_slicer":
                        xs, ys = create_slicer(src, tgt).get_slices()
                    else:
                        _, xs, ys = crop_source_area(src, tgt)
            except IncompatibleAreas:
                if c.size:
                    ctx.fail(f"slicer.{entry}", f"reported as non-overlapping although {c.size} target pixel centres fall on the source grid", inp,
                             {"needed_cols": [float(c.min()), float(c.max())], "needed_rows": [float(r.min()), float(r.max())]},
                             tags={"one_pixel_thick_target": 1 in tgt.shape, "kind": "incompatible"}, size=5)
                ctx.case("diff_crs", (sn, tn, entry), nontrivial=True)
                continue
            except Exception as e:  # noqa
                ctx.fail(f"slicer.{entry}", f"raised {type(e).__name__}: {str(e)[:120]}", inp, tags={"one_pixel_thick_target": 1 in tgt.shape}, size=5)
                continue
            _check_cover(ctx, f"slicer.{entry}", inp, src, c, r, xs, ys, tags={"one_pixel_thick_target": 1 in tgt.shape, "kind": "cover"}, size=5)
            ctx.case("diff_crs", (sn, tn, entry), nontrivial=not same_crs, sample={"input": inp, "slices": [str(xs), str(ys)], "needed": int(c.size)})
        # the bounds -> slices step against the model, on the real polygon bounds
        if ctx.M:
            from pyresample.slicer import AreaSlicer
            try:
                with warnings.catch_warnings():
                    warnings.simplefilter("ignore")
                    sl = AreaSlicer(src, tgt)
                    poly = sl.get_polygon_to_contain()
                    if poly.is_valid:
                        xb, yb = sl._sanitize_polygon_bounds(poly.bounds)
                        sx, sy = sl._create_slices_from_bounds((xb, yb))
                        for b_, got in ((xb, sx), (yb, sy)):
                            lo, hi = Fraction(float(np.min(b_))), Fraction(float(np.max(b_)))
                            m = [int(v) for v in ctx.M.ask("bounds", lo, hi).split()]
                            if m != [got.start, got.stop]:
                                ctx.disagree("bounds", inp, [got.start, got.stop], m)
            except IncompatibleAreas:
                pass


def suite_reject(ctx):
    """AreaSlicer._sanitize_polygon_bounds ("no slice on area") against the model's per-axis test, on bounds given in array coordinates"""
    from pyresample.geometry import IncompatibleAreas
    from pyresample.slicer import AreaSlicer
    r = ctx.rng
    src = kc.mk_area({"proj": "laea", "lat_0": 52, "lon_0": 10, "ellps": "WGS84"}, 12, 9, (-6.0e5, -4.5e5, 6.0e5, 4.5e5))     # 100 km pixels
    tgt = kc.mk_area({"proj": "laea", "lat_0": 52, "lon_0": 10, "ellps": "WGS84"}, 3, 3, (-1.0e5, -1.0e5, 1.0e5, 1.0e5))
    sl = AreaSlicer(src, tgt)
    W, H = src.width, src.height
    lattice = [Fraction(k, 4) for k in range(-12, 4 * 14)]
    for _ in range(150 if ctx.quick else 1500):
        cx = sorted(r.sample(lattice, 2))
        cy = sorted(Fraction(v) for v in r.sample([Fraction(k, 4) for k in range(-12, 4 * 11)], 2))
        # array coordinates -> projection coordinates of the source (exact: 100 km pixels)
        minx, maxx = (-6.0e5 + 5.0e4 + float(c_) * 1.0e5 for c_ in cx)
        maxy, miny = (4.5e5 - 5.0e4 - float(c_) * 1.0e5 for c_ in cy)
        try:
            sl._sanitize_polygon_bounds((minx, miny, maxx, maxy))
            raised = False
        except IncompatibleAreas:
            raised = True
        mx = ctx.M.ask("reject", W, cx[0], cx[1]) == "1"
        my = ctx.M.ask("reject", H, cy[0], cy[1]) == "1"
        ctx.case("reject", (str(cx), str(cy)), nontrivial=(mx or my) != (cx[1] < 0 or cy[1] < 0 or cx[0] >= W or cy[0] >= H))
        if raised != (mx or my):
            ctx.disagree("reject", {"x_bounds": [str(v) for v in cx], "y_bounds": [str(v) for v in cy], "shape": [H, W]}, raised, mx or my, "'no slice on area' decision differs")
        # the property on the real code: a pixel that contains a position inside the bounds must not be rejected
        needed = any(0 <= k <= W - 1 and cx[0] <= k + Fraction(1, 2) and cx[1] >= k - Fraction(1, 2) for k in range(W)) and \
            any(0 <= k <= H - 1 and cy[0] <= k + Fraction(1, 2) and cy[1] >= k - Fraction(1, 2) for k in range(H))
        if raised and needed:
            ctx.fail("slicer.AreaSlicer._sanitize_polygon_bounds", f"bounds (columns {cx[0]}..{cx[1]}, rows {cy[0]}..{cy[1]}) overlap pixel footprints of the {H}x{W} area but are "
                     "reported as 'no slice on area'", {"x_bounds": [str(v) for v in cx], "y_bounds": [str(v) for v in cy], "shape": [H, W]}, None, tags={"kind": "reject"}, size=2)


def suite_swath(ctx):
    import dask.array as da
    import xarray as xr
    from pyresample.geometry import IncompatibleAreas, SwathDefinition
    from pyresample.slicer import create_slicer
    r = ctx.rng
    n = 40
    # a grid rotated by 30 degrees, seen as a swath
    base = kc.mk_area({"proj": "laea", "lat_0": 50, "lon_0": 10, "ellps": "WGS84"}, n, n, (-1.0e6, -1.0e6, 1.0e6, 1.0e6))
    bx, by = base.get_proj_coords()
    chunkings = [((n,), (n,)), ((10,) * 4, (20, 20)), ((10,) * 4, (10,) * 4), ((10, 30), (n,)), ((4, 12, 12, 12), (8, 32)), ((3, 5, 2, 30), (1, 39)), ((25, 5, 10), (13, 14, 13))]
    targets = [kc.mk_area({"proj": "laea", "lat_0": 50, "lon_0": 10, "ellps": "WGS84"}, 6, 5, e) for e in
               ((-2.0e5, -2.0e5, 2.0e5, 2.0e5), (4.0e5, 3.0e5, 9.0e5, 8.0e5), (-1.2e6, -3.0e5, -5.0e5, 1.0e5), (-1.0e5, 6.0e5, 3.0e5, 1.1e6))]
    targets.append(kc.mk_area({"proj": "merc", "lon_0": 0, "ellps": "WGS84"}, 5, 5, (1.0e6, 6.0e6, 1.6e6, 6.8e6)))
    # long thin targets: they cross the (rotated) swath's chunk grid along either diagonal
    targets.append(kc.mk_area({"proj": "laea", "lat_0": 50, "lon_0": 10, "ellps": "WGS84"}, 14, 3, (-8.5e5, -1.0e5, 8.5e5, 1.0e5)))
    targets.append(kc.mk_area({"proj": "laea", "lat_0": 50, "lon_0": 10, "ellps": "WGS84"}, 3, 14, (-1.0e5, -8.5e5, 1.0e5, 8.5e5)))
    # target CRSs given as EPSG codes whose authority axis order is lat/lon or northing/easting
    targets.append(kc.mk_area("EPSG:4326", 6, 5, (6.0, 47.0, 14.0, 53.0)))
    targets.append(kc.mk_area("EPSG:3035", 6, 6, (4.1e6, 2.8e6, 4.6e6, 3.3e6)))
    targets.append(kc.mk_area("EPSG:32633", 5, 5, (3.0e5, 5.3e6, 7.0e5, 5.7e6)))
    combos = [(a_, ch_) for a_ in (30, -30) for ch_ in chunkings]
    if ctx.quick:
        combos = [(30, chunkings[1]), (-30, chunkings[2]), (30, chunkings[2])] + r.sample(combos, 2)
    for ang_deg, ch in combos:
        ang = np.radians(ang_deg)
        rx, ry = bx * np.cos(ang) - by * np.sin(ang), bx * np.sin(ang) + by * np.cos(ang)
        lons, lats = base.get_lonlat_from_projection_coordinates(rx, ry)
        sw = SwathDefinition(xr.DataArray(da.from_array(lons, chunks=ch), dims=("y", "x")), xr.DataArray(da.from_array(lats, chunks=ch), dims=("y", "x")))
        for ti, tgt in enumerate(targets):
            inp = {"swath_shape": [n, n], "swath_rotation_deg": ang_deg, "chunks": [list(ch[0]), list(ch[1])], "target_extent": [float(v) for v in tgt.area_extent], "target_crs": str(tgt.crs.to_dict().get("proj")), "target_crs_epsg": tgt.crs.to_epsg()}
            # needed swath pixels: nearest swath pixel to every target centre (brute force), if within one pixel spacing
            tlo, tla = kc.lonlats(tgt)
            d, sv, tv = kc.dist_matrix(lons.ravel(), lats.ravel(), tlo.ravel(), tla.ravel())
            near = d.argmin(axis=1)
            spacing = 2.0e6 / n
            ok = d.min(axis=1) <= spacing
            rows, cols = np.unravel_index(near[ok], lons.shape)
            try:
                with warnings.catch_warnings():
                    warnings.simplefilter("ignore")
                    xs, ys = create_slicer(sw, tgt).get_slices()
            except IncompatibleAreas:
                if rows.size:
                    ctx.fail("slicer.SwathSlicer", f"reported as non-overlapping although {rows.size} target centres lie on the swath", inp,
                             tags={"irregular_chunks": len(set(ch[0][:-1])) > 1 or len(set(ch[1][:-1])) > 1}, size=5)
                ctx.case("swath", (ang_deg, str(ch), ti), nontrivial=True)
                continue
            if rows.size and not ((rows >= ys.start) & (rows < ys.stop) & (cols >= xs.start) & (cols < xs.stop)).all():
                k = int(np.flatnonzero(~((rows >= ys.start) & (rows < ys.stop) & (cols >= xs.start) & (cols < xs.stop)))[0])
                ctx.fail("slicer.SwathSlicer", f"the slices drop swath pixel (line {int(rows[k])}, col {int(cols[k])}) nearest to a target pixel centre", inp,
                         {"x_slice": str(xs), "y_slice": str(ys)}, tags={"irregular_chunks": len(set(ch[0][:-1])) > 1 or len(set(ch[1][:-1])) > 1}, size=5)
            ctx.case("swath", (ang_deg, str(ch), ti), nontrivial=len(ch[0]) > 1 or len(ch[1]) > 1, sample={"input": inp, "slices": [str(xs), str(ys)]})


def suite_swath_seams(ctx):
    """chunked swath sources and tiny targets (narrower than the swath's pixel spacing) lying between the last line / column of one
    dask chunk and the first of the next, and where four chunks meet; also thin strips running along such a seam.  Oracle as in
    suite_swath: the swath pixel nearest to every target pixel centre (brute force over all swath pixels) must be inside the slices,
    and 'not overlapping' is wrong as soon as one target centre lies on the swath."""
    import dask.array as da
    import xarray as xr
    from pyresample.geometry import IncompatibleAreas, SwathDefinition
    from pyresample.slicer import create_slicer
    r = ctx.rng
    n = 40
    laea = {"proj": "laea", "lat_0": 50, "lon_0": 10, "ellps": "WGS84"}
    ll = {"proj": "longlat", "datum": "WGS84"}
    bases = {"laea": (kc.mk_area(laea, n, n, (-1.0e6, -1.0e6, 1.0e6, 1.0e6)), 50000.0),        # (grid seen as a swath, pixel spacing in metres)
             "longlat": (kc.mk_area(ll, n, n, (10.0, 1.0, 14.0, 5.0)), 11000.0)}
    chunkings = [((10,) * 4, (10,) * 4), ((20, 20), (10,) * 4), ((4, 12, 12, 12), (8, 16, 16)), ((7, 9, 24), (13, 14, 13)), ((25, 5, 10), (5,) * 8)]
    swaths = [(bn, rot, ch) for bn in bases for rot in ((0, 30, -30) if bn == "laea" else (0,)) for ch in chunkings]
    if ctx.quick:
        swaths = [("laea", 0, chunkings[0]), ("longlat", 0, chunkings[0])] + r.sample(swaths, 3)
    for bn, rot, ch in swaths:
        base, spacing = bases[bn]
        ext = [float(v) for v in base.area_extent]
        px, py = (ext[2] - ext[0]) / n, (ext[3] - ext[1]) / n
        ang = np.radians(rot)

        def to_crs(u, v):
            """array position (col u, row v) of the swath -> coordinates in the base CRS (after the rotation of the grid)"""
            x, y = ext[0] + (u + 0.5) * px, ext[3] - (v + 0.5) * py
            return x * np.cos(ang) - y * np.sin(ang), x * np.sin(ang) + y * np.cos(ang)
        uu, vv = np.meshgrid(np.arange(n, dtype=float), np.arange(n, dtype=float))
        gx, gy = to_crs(uu, vv)
        lons, lats = base.get_lonlat_from_projection_coordinates(gx, gy)
        lons, lats = np.asarray(lons, float), np.asarray(lats, float)
        sw = SwathDefinition(xr.DataArray(da.from_array(lons, chunks=ch), dims=("y", "x")), xr.DataArray(da.from_array(lats, chunks=ch), dims=("y", "x")))
        row_seams = list(np.cumsum(ch[0])[:-1])       # a seam lies between line b-1 and line b
        col_seams = list(np.cumsum(ch[1])[:-1])
        irregular = len(set(ch[0][:-1])) > 1 or len(set(ch[1][:-1])) > 1
        for k in range(14 if ctx.quick else 60):
            kind = ["row-seam", "col-seam", "four-chunks", "row-seam-strip", "col-seam-strip", "inside-chunk", "across-seam"][k % 7]
            in_seam_v = kind in ("row-seam", "four-chunks", "row-seam-strip")
            in_seam_u = kind in ("col-seam", "four-chunks", "col-seam-strip")
            # centre of the target in array coordinates of the swath
            v0 = r.choice(row_seams) - 0.5 + r.uniform(-0.2, 0.2) if in_seam_v else r.uniform(3.0, n - 4.0)
            u0 = r.choice(col_seams) - 0.5 + r.uniform(-0.2, 0.2) if in_seam_u else r.uniform(3.0, n - 4.0)
            if kind == "across-seam":
                v0 = r.choice(row_seams) - 0.5 + r.uniform(-1.5, 1.5)
            strip = kind.endswith("strip")
            aligned = strip or (rot == 0 and r.random() < 0.5)
            if aligned and rot != 0:
                strip, aligned, kind = False, False, kind.replace("-strip", "")
            # half sizes of the target in swath pixels: under 0.25 across a seam (for targets on local axes, tilted by up to 30 degrees
            # against the swath's grid: under 0.15)
            small = (0.25 if aligned else 0.15)
            hv = r.uniform(0.05, small) if in_seam_v or not strip else r.uniform(1.0, 6.0)
            hu = r.uniform(0.05, small) if in_seam_u or not strip else r.uniform(1.0, 6.0)
            if kind in ("inside-chunk", "across-seam"):
                hu, hv = r.uniform(0.05, 1.5), r.uniform(0.05, 1.5)
            th = r.choice([1, 2, 3, 4]) if hv < 1 else r.choice([3, 8, 20])          # one-pixel-thick targets included
            tw = r.choice([1, 2, 3, 4]) if hu < 1 else r.choice([3, 8, 20])
            if aligned:
                x0, y0 = ext[0] + (u0 + 0.5) * px, ext[3] - (v0 + 0.5) * py
                tgt = kc.mk_area(laea if bn == "laea" else ll, tw, th, (x0 - hu * px, y0 - hv * py, x0 + hu * px, y0 + hv * py))
                tcrs = "swath grid CRS"
            else:
                lo0, la0 = base.get_lonlat_from_projection_coordinates(*to_crs(u0, v0))
                tcrs = r.choice(["laea", "tmerc", "stere"])
                tgt = kc.mk_area({"proj": tcrs, "lat_0": float(la0), "lon_0": float(lo0), "ellps": "WGS84"}, tw, th,
                                 (-hu * spacing, -hv * spacing, hu * spacing, hv * spacing))
            inp = {"swath": f"{n}x{n} {bn} grid rotated by {rot} deg, seen as a swath", "chunks": [list(ch[0]), list(ch[1])], "placement": kind,
                   "target_centre_in_swath_array_coords": {"col": round(u0, 3), "row": round(v0, 3)}, "target_half_size_in_swath_pixels": [round(hu, 3), round(hv, 3)],
                   "target_crs": tcrs, "target_shape": [th, tw], "target_extent": [float(v) for v in tgt.area_extent]}
            tlo, tla = kc.lonlats(tgt)
            d, _, _ = kc.dist_matrix(lons.ravel(), lats.ravel(), np.asarray(tlo).ravel(), np.asarray(tla).ravel())
            near = d.argmin(axis=1)
            ok = d.min(axis=1) <= spacing
            rows, cols = np.unravel_index(near[ok], lons.shape)
            tags = {"irregular_chunks": irregular, "placement": kind, "one_pixel_thick_target": 1 in (th, tw)}
            try:
                with warnings.catch_warnings():
                    warnings.simplefilter("ignore")
                    xs, ys = create_slicer(sw, tgt).get_slices()
            except IncompatibleAreas:
                if rows.size:
                    ctx.fail("slicer.SwathSlicer", f"reported as non-overlapping although {rows.size} target centres lie on the swath (nearest swath lines "
                             f"{int(rows.min())}..{int(rows.max())}, columns {int(cols.min())}..{int(cols.max())})", inp, tags=tags, size=5)
                ctx.case("swath.seams", (bn, rot, str(ch), kind, round(u0, 6), round(v0, 6)), nontrivial=True)
                continue
            inside = (rows >= ys.start) & (rows < ys.stop) & (cols >= xs.start) & (cols < xs.stop)
            if rows.size and not inside.all():
                j = int(np.flatnonzero(~inside)[0])
                ctx.fail("slicer.SwathSlicer", f"the slices drop swath pixel (line {int(rows[j])}, col {int(cols[j])}) nearest to a target pixel centre", inp,
                         {"x_slice": str(xs), "y_slice": str(ys)}, tags=tags, size=5)
            ctx.case("swath.seams", (bn, rot, str(ch), kind, round(u0, 6), round(v0, 6)), nontrivial=in_seam_u or in_seam_v,
                     sample={"input": inp, "slices": [str(xs), str(ys)]} if kind == "four-chunks" else None)
            ctx.count("swath.seams." + kind)


def suite_oriented_targets(ctx):
    """area -> area in DIFFERENT CRSs that share the axis unit (metre/metre, degree/degree), the target given in each of the four
    axis orientations (extent min->max or max->min per axis, as native geostationary grids are), with target pixels finer than, equal
    to and several times coarser than the source pixels, targets inside / across the edge of / larger than the source, and
    one-pixel-thick targets.  Oracle: _needed + _check_cover (every target pixel centre mapped into the source grid with pyproj)."""
    import pyproj
    from pyresample.geometry import IncompatibleAreas
    from pyresample.resampler import crop_source_area
    from pyresample.slicer import create_slicer
    r = ctx.rng
    metre = {"laea": {"proj": "laea", "lat_0": 50.0, "lon_0": 10.0, "ellps": "WGS84"},
             "stere": {"proj": "stere", "lat_0": 90.0, "lon_0": 10.0, "lat_ts": 60.0, "ellps": "WGS84"},
             "merc": {"proj": "merc", "lon_0": 0.0, "ellps": "WGS84"},
             "tmerc": {"proj": "tmerc", "lon_0": 12.0, "lat_0": 0.0, "ellps": "WGS84"},
             "geos": {"proj": "geos", "lon_0": 0.0, "h": 35785831.0, "ellps": "WGS84"}}
    degree = {"longlat_wgs84": {"proj": "longlat", "datum": "WGS84"}, "longlat_bessel": {"proj": "longlat", "ellps": "bessel"},
              "longlat_sphere": {"proj": "longlat", "R": 6371229.0}}
    for k in range(36 if ctx.quick else 400):
        unit = "degree" if k % 4 == 3 else "metre"
        table = degree if unit == "degree" else metre
        sname = r.choice([c for c in table if c != "geos"])
        tname = r.choice([c for c in table if c != sname])
        sw_, sh_ = r.choice([(120, 90), (90, 130), (200, 150)])
        ps = r.choice([1000.0, 2000.0, 500.0]) if unit == "metre" else r.choice([0.01, 0.02])
        # the source lies over central Europe
        sx0, sy0 = pyproj.Transformer.from_crs("EPSG:4326", pyproj.CRS.from_user_input(table[sname]), always_xy=True).transform(r.uniform(5.0, 15.0), r.uniform(45.0, 56.0))
        sext = (sx0 - sw_ * ps / 2, sy0 - sh_ * ps / 2, sx0 + sw_ * ps / 2, sy0 + sh_ * ps / 2)
        src = kc.mk_area(table[sname], sw_, sh_, sext)
        # the target: centred on a point of the source (sometimes near / beyond its edge), pixel size = ratio x source pixel size
        ratio = r.choice([0.5, 1.0, 1.7, 2.5, 4.1, 6.0])
        shape_kind = ["block", "block", "row", "column", "pixel", "containing"][k % 6]
        th, tw = {"block": (r.randrange(4, 30), r.randrange(4, 30)), "row": (1, r.randrange(3, 25)), "column": (r.randrange(3, 25), 1), "pixel": (1, 1),
                  "containing": (40, 40)}[shape_kind]
        if shape_kind == "containing":
            ratio = max(sw_, sh_) / 40.0 * r.uniform(1.2, 2.0)
        fu, fv = (r.uniform(0.25, 0.75), r.uniform(0.25, 0.75)) if r.random() < 0.7 else (r.choice([0.02, 0.98, r.uniform(0, 1)]), r.choice([0.03, 0.97, r.uniform(0, 1)]))
        cx, cy = sext[0] + fu * sw_ * ps, sext[1] + fv * sh_ * ps
        tx0, ty0 = pyproj.Transformer.from_crs(src.crs, pyproj.CRS.from_user_input(table[tname]), always_xy=True).transform(cx, cy)
        if not (np.isfinite(tx0) and np.isfinite(ty0)):
            continue
        pt = ratio * ps
        if unit == "metre" and tname in ("merc",):
            pt *= 1.6         # Mercator's scale at these latitudes: keep the ground size of the pixels comparable
        tbase = (tx0 - tw * pt / 2, ty0 - th * pt / 2, tx0 + tw * pt / 2, ty0 + th * pt / 2)
        orients = {"north_up": tbase, "flip_x": (tbase[2], tbase[1], tbase[0], tbase[3]), "flip_y": (tbase[0], tbase[3], tbase[2], tbase[1]),
                   "flip_xy": (tbase[2], tbase[3], tbase[0], tbase[1])}
        for to, text in orients.items():
            tgt = kc.mk_area(table[tname], tw, th, text)
            inp = {"source": {"crs": table[sname], "shape": [sh_, sw_], "extent": [float(v) for v in sext]},
                   "target": {"crs": table[tname], "shape": [th, tw], "extent": [float(v) for v in text], "orientation": to},
                   "target_pixel_over_source_pixel": round(ratio, 3), "axis_unit": unit}
            c, rr = _needed(src, tgt)
            tags = {"one_pixel_thick_target": 1 in (th, tw), "target_orientation": to, "axis_unit": unit}
            for entry in ("create_slicer", "crop_source_area"):
                try:
                    with warnings.catch_warnings():
                        warnings.simplefilter("ignore")
                        if entry == "create_slicer":
                            xs, ys = create_slicer(src, tgt).get_slices()
                        else:
                            _, xs, ys = crop_source_area(src, tgt)
                except IncompatibleAreas:
                    if c.size:
                        ctx.fail(f"slicer.{entry}", f"reported as non-overlapping although {c.size} target pixel centres fall on the source grid", inp,
                                 {"needed_cols": [float(c.min()), float(c.max())], "needed_rows": [float(rr.min()), float(rr.max())]},
                                 tags={**tags, "kind": "incompatible"}, size=5)
                    ctx.case("oriented_targets", (k, sname, tname, to, entry), nontrivial=True)
                    continue
                except Exception as e:  # noqa
                    ctx.fail(f"slicer.{entry}", f"raised {type(e).__name__}: {str(e)[:120]}", inp, tags=tags, size=5)
                    continue
                _check_cover(ctx, f"slicer.{entry}", inp, src, c, rr, xs, ys, tags={**tags, "kind": "cover"}, size=5)
                ctx.case("oriented_targets", (k, sname, tname, to, entry, tuple(text)), nontrivial=to != "north_up",
                         sample={"input": inp, "slices": [str(xs), str(ys)], "needed": int(c.size)} if to == "flip_xy" and ratio > 2 else None)
            ctx.count(f"oriented_targets.{to}.{shape_kind}")


def run(ctx):
    suite_same_crs(ctx)
    suite_diff_crs(ctx)
    suite_reject(ctx)
    suite_swath(ctx)
    suite_swath_seams(ctx)
    suite_oriented_targets(ctx)
