"""C13 — area creation is parameter-set independent and YAML dump/load is lossless."""
import os
import tempfile
import warnings
from fractions import Fraction

import numpy as np

META = {
    "rule": "one case = (CRS, grid, description subset, units) for create_area_def / from_* constructors, or (set of areas) for "
            "dump -> load. CRSs: PROJ dicts in metres, kilometres and US feet, EPSG codes, km variants of EPSG-registered "
            "projections, geographic; grids: random extents/shapes; descriptions: the seven sufficient subsets, each in "
            "projection units, metres and kilometres (degrees for geographic); contradictions (one parameter perturbed "
            "beyond tolerance); insufficient subsets. Non-trivial: the description is not extent+shape, or the units differ "
            "from the CRS units, or the file holds >= 2 areas. Distinct = distinct canonical input.",
    "assumptions": ["unit conversion and CRS normalisation are done by PROJ/pyproj (parameter class): only descriptions in "
                    "projection units are compared with the Lean model; the others are compared with the reference area",
                    "PyYAML round-trips dicts of str/int/float/list"],
}

CRSS = [
    ("laea_m", {"proj": "laea", "lat_0": 52, "lon_0": 10, "ellps": "WGS84"}, 1.0),
    ("stere_m", {"proj": "stere", "lat_0": 90, "lat_ts": 60, "lon_0": 0, "ellps": "WGS84"}, 1.0),
    ("laea_km", {"proj": "laea", "lat_0": 50, "lon_0": 10, "ellps": "WGS84", "units": "km"}, 1000.0),
    ("utm33_km", {"proj": "utm", "zone": 33, "ellps": "WGS84", "units": "km"}, 1000.0),
    ("merc_usft", {"proj": "merc", "lon_0": -90, "ellps": "WGS84", "units": "us-ft"}, 1200.0 / 3937.0),
    ("epsg3035", "EPSG:3035", 1.0),
    ("epsg32633", 32633, 1.0),
    ("epsg_dict", {"EPSG": 3413}, 1.0),
]
GEOG = [("epsg4326", "EPSG:4326"), ("longlat", {"proj": "longlat", "datum": "WGS84"})]


# free-text values an area id / description may hold and a YAML round trip must keep as they are
EDGE_STRINGS = ["", " ", "0", "0.0", "null", "Null", "~", "true", "False", "no", "on", "2023", "1e3", "0x1F", "1_000", ".inf", ".nan", "2001-01-01",
                "a: b", "key:", "# hash", "x #y", "'q'", '"dq"', "it's", "line1\nline2", "tab\there", "\u00fcn\u00ef-\u00e7\u00f8d\u00e9", "- dash", "-", "[a, b]", "{a: b}",
                "trailing ", " leading", "%pct", "&anchor", "*alias", "!tag", "|", ">", "?", "@at", "`bt", "a,b", "::", "long text " * 30]


def _fr(v):
    return Fraction(float(v))


def _same_grid(a, ref, rel=1e-9):
    if a.shape != ref.shape:
        return False
    scale = max(1.0, max(abs(float(v)) for v in ref.area_extent))
    return all(abs(float(x) - float(y)) <= rel * scale for x, y in zip(a.area_extent, ref.area_extent))


def _descriptions(x0, y0, x1, y1, h, w):
    cx, cy = (x0 + x1) / 2, (y0 + y1) / 2
    rx, ry = (x1 - x0) / 2, (y1 - y0) / 2
    px, py = (x1 - x0) / w, (y1 - y0) / h
    return {
        "extent+shape": dict(area_extent=(x0, y0, x1, y1), shape=(h, w)),
        "center+radius+shape": dict(center=(cx, cy), radius=(rx, ry), shape=(h, w)),
        "center+resolution+shape": dict(center=(cx, cy), resolution=(px, py), shape=(h, w)),
        "ul_corner+resolution+shape": dict(upper_left_extent=(x0, y1), resolution=(px, py), shape=(h, w)),
        "center+radius+resolution": dict(center=(cx, cy), radius=(rx, ry), resolution=(px, py)),
        "extent+resolution": dict(area_extent=(x0, y0, x1, y1), resolution=(px, py)),
        "extent+width/height": dict(area_extent=(x0, y0, x1, y1), width=w, height=h),
        "ul_corner+center+shape": dict(upper_left_extent=(x0, y1), center=(cx, cy), shape=(h, w)),
        "ul_corner+radius+shape": dict(upper_left_extent=(x0, y1), radius=(rx, ry), shape=(h, w)),
    }


def _model_args(kw):
    def g(k, n):
        v = kw.get(k)
        return ["none"] if v is None else [_fr(x) for x in v][:n]
    shape = kw.get("shape") or ((kw["height"], kw["width"]) if "width" in kw else None)
    return g("area_extent", 4) + (["none"] if shape is None else [shape[0], shape[1]]) + g("center", 2) + g("radius", 2) + \
        g("resolution", 2) + g("upper_left_extent", 2)


def _grid_in_domain(proj, x0, y0, x1, y1):
    """the whole grid (and a margin) must invert cleanly, else PROJ refuses some descriptions ("valid projection plane")"""
    import pyproj
    try:
        p = pyproj.Proj(pyproj.CRS.from_user_input(f"EPSG:{proj['EPSG']}" if isinstance(proj, dict) and "EPSG" in proj else proj), preserve_units=True)
        mx, my = (x1 - x0), (y1 - y0)
        for x in (x0 - mx, (x0 + x1) / 2, x1 + mx):
            for y in (y0 - my, (y0 + y1) / 2, y1 + my):
                lo, la = p(x, y, inverse=True, errcheck=True)
                if not (np.isfinite(lo) and np.isfinite(la)):
                    return False
                # ... and come back to the same place: transverse projections return finite lon/lat for y beyond the pole, but
                # of another point (a grid 45 000 km "north" in UTM is not a grid of that CRS)
                bx, by = p(lo, la, errcheck=True)
                if not (abs(bx - x) <= 1e-6 * max(1.0, abs(x)) and abs(by - y) <= 1e-6 * max(1.0, abs(y))):
                    return False
        return True
    except Exception:  # noqa
        return False


def suite_create(ctx):
    from pyresample.area_config import create_area_def
    from pyresample.geometry import AreaDefinition, DynamicAreaDefinition
    r = ctx.rng
    n = 14 if ctx.quick else 120
    for _ in range(n):
        cname, proj, unit_m = r.choice(CRSS)
        h, w = r.randrange(1, 40), r.randrange(1, 40)
        exact = r.random() < 0.5
        if exact:       # pixel size and offsets dyadic in projection units
            px, py = r.choice([0.5, 1.0, 2.0, 64.0]), r.choice([0.25, 1.0, 4.0, 128.0])
            x0, y0 = r.randrange(-2000, 2000) * 1.0, r.randrange(-2000, 2000) * 1.0
        else:
            px, py = r.uniform(0.2, 5000) / unit_m, r.uniform(0.2, 5000) / unit_m
            x0, y0 = r.uniform(-2e6, 2e6) / unit_m, r.uniform(-2e6, 2e6) / unit_m
        x1, y1 = x0 + w * px, y0 + h * py
        if not _grid_in_domain(proj, x0, y0, x1, y1):
            ctx.count("skipped.outside_projection_domain")
            continue
        with warnings.catch_warnings():
            warnings.simplefilter("ignore")
            ref = create_area_def("ref", proj, area_extent=(x0, y0, x1, y1), shape=(h, w))
        if not isinstance(ref, AreaDefinition):
            ctx.fail("area_config.create_area_def", "extent + shape did not give an AreaDefinition", {"crs": cname}, size=5)
            continue
        descs = _descriptions(x0, y0, x1, y1, h, w)
        for dname, kw in descs.items():
            for units in (None, "m", "km"):
                if units is None:
                    kwu = dict(kw)
                else:
                    f = unit_m / (1.0 if units == "m" else 1000.0)     # projection units -> requested units
                    kwu = {k: (tuple(v_ * f for v_ in v) if k in ("area_extent", "center", "radius", "resolution", "upper_left_extent") else v)
                           for k, v in kw.items()}
                    kwu["units"] = units
                    if ctx.quick and r.random() < 0.5:
                        continue
                inp = {"crs": cname, "grid": {"extent": [x0, y0, x1, y1], "shape": [h, w]}, "description": dname, "units": units or "projection units"}
                try:
                    with warnings.catch_warnings():
                        warnings.simplefilter("ignore")
                        a = create_area_def("a", proj, **kwu)
                except Exception as e:  # noqa
                    ctx.fail("area_config.create_area_def", f"a consistent description raised {type(e).__name__}: {str(e)[:120]}", inp,
                             tags={"description": dname, "units": units or "proj"}, size=5)
                    continue
                if not isinstance(a, AreaDefinition) or not _same_grid(a, ref, 1e-9 if units is None else 1e-7):
                    ctx.fail("area_config.create_area_def", "this description does not give the same grid as extent + shape", inp,
                             {"got_extent": [float(v) for v in getattr(a, "area_extent", None) or []], "got_shape": list(getattr(a, "shape", ())),
                              "want_extent": [float(v) for v in ref.area_extent]},
                             tags={"description": dname, "units": units or "proj"}, size=5)
                elif a.crs != ref.crs:
                    ctx.fail("area_config.create_area_def", "same description, different CRS", inp, size=5)
                if ctx.M and units is None:
                    rep = ctx.M.ask("create", *_model_args(kw))
                    if rep.startswith("err"):
                        ctx.disagree("create", inp, "area", rep)
                    else:
                        t = rep.split()
                        mext = [Fraction(v) for v in t[1:5]]
                        msh = (Fraction(t[6]), Fraction(t[7]))
                        scale = max(1, max(abs(v) for v in mext))
                        # centre / corner values make a PROJ inverse+forward round trip inside _convert_units: never bit-exact
                        tol = (0 if (exact and dname in ('extent+shape', 'extent+resolution', 'extent+width/height')) else scale * Fraction(1, 10 ** 9)) + Fraction(1, 10 ** 7)
                        if any(abs(_fr(g) - m) > tol for g, m in zip(a.area_extent, mext)) or (msh[0], msh[1]) != (a.height, a.width):
                            ctx.disagree("create", inp, {"extent": [float(v) for v in a.area_extent], "shape": list(a.shape)},
                                         {"extent": [float(v) for v in mext], "shape": [float(msh[0]), float(msh[1])]})
                ctx.case("create", (cname, dname, units, x0, y0, h, w), nontrivial=dname != "extent+shape" or units is not None,
                         sample={"input": inp} if dname == "center+radius+resolution" else None)
        # contradictions
        cx, cy = (x0 + x1) / 2, (y0 + y1) / 2
        for bad_name, kw in (
            # (extent AND shape given -> nothing has to be combined, nothing is validated: such cases are not contradictions
            #  "in the parameters it has to combine", so every case below leaves extent or shape to be found)
            ("centre off by a pixel", dict(area_extent=(x0, y0, x1, y1), center=(cx + px, cy), resolution=(px, py))),
            ("radius 10 % too large", dict(area_extent=(x0, y0, x1, y1), radius=((x1 - x0) / 2 * 1.1, (y1 - y0) / 2), resolution=(px, py))),
            ("shape contradicts radius/resolution", dict(center=(cx, cy), radius=((x1 - x0) / 2, (y1 - y0) / 2), resolution=(px, py), shape=(h + 1, w))),
            ("upper-left corner off", dict(area_extent=(x0, y0, x1, y1), upper_left_extent=(x0 + 3 * px, y1), resolution=(px, py))),
            # no extent given: centre, upper-left corner and radius have to be combined with each other
            ("radius contradicts centre / upper-left corner", dict(center=(cx, cy), upper_left_extent=(x0, y1), radius=((x1 - x0) / 2 * 1.25, (y1 - y0) / 2), resolution=(px, py))),
            ("upper-left corner contradicts centre / radius", dict(center=(cx, cy), upper_left_extent=(x0 - 2 * px, y1), radius=((x1 - x0) / 2, (y1 - y0) / 2), shape=(h, w))),
        ):
            inp = {"crs": cname, "grid": {"extent": [x0, y0, x1, y1], "shape": [h, w]}, "contradiction": bad_name}
            raised = False
            try:
                with warnings.catch_warnings():
                    warnings.simplefilter("ignore")
                    create_area_def("a", proj, **kw)
            except ValueError:
                raised = True
            except Exception as e:  # noqa
                raised = True
                ctx.note(f"contradiction raised {type(e).__name__} instead of ValueError")
            if not raised:
                ctx.fail("area_config.create_area_def", "contradictory parameters were accepted silently", inp, tags={"kind": "contradiction"}, size=5)
            if ctx.M:
                rep = ctx.M.ask("create", *_model_args(kw))
                if (rep == "err:conflict") != raised:
                    ctx.disagree("create.conflict", inp, "raises" if raised else "accepts", rep)
            ctx.case("contradiction", (cname, bad_name, x0, h, w), nontrivial=True)
        # missing information -> dynamic area
        for miss_name, kw in (("resolution only", dict(resolution=(px, py))), ("shape only", dict(shape=(h, w))),
                              ("extent only", dict(area_extent=(x0, y0, x1, y1))), ("center+resolution", dict(center=(cx, cy), resolution=(px, py)))):
            try:
                with warnings.catch_warnings():
                    warnings.simplefilter("ignore")
                    d = create_area_def("a", proj, **kw)
                if not isinstance(d, DynamicAreaDefinition):
                    ctx.fail("area_config.create_area_def", "insufficient information did not give a dynamic area", {"crs": cname, "given": miss_name}, size=5)
            except Exception as e:  # noqa
                ctx.fail("area_config.create_area_def", f"insufficient information raised {type(e).__name__}", {"crs": cname, "given": miss_name}, size=5)
            ctx.case("missing", (cname, miss_name, x0), nontrivial=True)
    # geographic CRS, degrees
    for gname, proj in GEOG:
        for rep in range(9 if ctx.quick else 45):
            h, w = r.randrange(1, 30), r.randrange(1, 30)
            px = r.choice([0.125, 0.25, 0.5, 1.0])
            kind = ("inside", "west", "east")[rep % 3]
            # longitudes may leave -180..180 on either side (0..360 grids, regions over the antimeridian): the grid is
            # defined by its extent in degrees, whatever the description it is built from (finding F37: centre - radius
            # below -180 was wrapped by the projection)
            x0, y0 = r.randrange(-175, 140) * 1.0, r.randrange(-80, 40) * 1.0
            if kind == "west":
                x0 = r.randrange(-215, -180) * 1.0 - r.choice([0.0, 0.5])
            elif kind == "east":
                x0 = 180.0 - w * px + r.randrange(1, 30) * px
            x1, y1 = x0 + w * px, y0 + h * px
            if y1 > 90:
                continue
            ctx.count("create.geographic." + ("west_of_-180" if x0 < -180 else "east_of_180" if x1 > 180 else "inside"))
            with warnings.catch_warnings():
                warnings.simplefilter("ignore")
                ref = create_area_def("ref", proj, area_extent=(x0, y0, x1, y1), shape=(h, w))
                for dname, kw in _descriptions(x0, y0, x1, y1, h, w).items():
                    for units in (None, "degrees"):
                        try:
                            a = create_area_def("a", proj, units=units, **kw)
                            if not _same_grid(a, ref):
                                ctx.fail("area_config.create_area_def", "geographic CRS: this description does not give the same grid",
                                         {"crs": gname, "description": dname, "units": units, "extent": [x0, y0, x1, y1], "shape": [h, w],
                                          "given": {k: list(v) if isinstance(v, tuple) else v for k, v in kw.items()}},
                                         observed={"extent": list(getattr(a, "area_extent", []) or []), "shape": list(getattr(a, "shape", []) or [])}, size=5)
                        except Exception as e:  # noqa
                            ctx.fail("area_config.create_area_def", f"geographic CRS: raised {type(e).__name__}: {str(e)[:100]}",
                                     {"crs": gname, "description": dname, "units": units, "extent": [x0, y0, x1, y1], "shape": [h, w]}, size=5)
                        ctx.case("create.geographic", (gname, dname, units, x0, y0, h, w), nontrivial=True)


def suite_constructors(ctx):
    from pyresample.geometry import AreaDefinition
    r = ctx.rng
    for _ in range(8 if ctx.quick else 60):
        cname, proj, unit_m = r.choice([c for c in CRSS if not isinstance(c[1], dict) or "EPSG" not in c[1]])
        h, w = r.randrange(1, 30), r.randrange(1, 30)
        px, py = r.choice([0.5, 2.0, 1000.0]), r.choice([0.25, 4.0, 1500.0])
        x0, y0 = r.randrange(-1000, 1000) * 8.0, r.randrange(-1000, 1000) * 8.0
        x1, y1 = x0 + w * px, y0 + h * py
        cx, cy = (x0 + x1) / 2, (y0 + y1) / 2
        if not _grid_in_domain(proj, x0, y0, x1, y1):
            ctx.count("skipped.outside_projection_domain")
            continue
        with warnings.catch_warnings():
            warnings.simplefilter("ignore")
            ref = AreaDefinition.from_extent("a", proj, (h, w), (x0, y0, x1, y1))
            others = {
                "from_circle(shape)": AreaDefinition.from_circle("a", proj, (cx, cy), ((x1 - x0) / 2, (y1 - y0) / 2), shape=(h, w)),
                "from_circle(resolution)": AreaDefinition.from_circle("a", proj, (cx, cy), ((x1 - x0) / 2, (y1 - y0) / 2), resolution=(px, py)),
                "from_area_of_interest": AreaDefinition.from_area_of_interest("a", proj, (h, w), (cx, cy), (px, py)),
                "from_ul_corner": AreaDefinition.from_ul_corner("a", proj, (h, w), (x0, y1), (px, py)),
            }
        for nm, a in others.items():
            if not _same_grid(a, ref) or a.crs != ref.crs:
                ctx.fail(f"AreaDefinition.{nm}", "constructor does not give the same grid as from_extent", {"crs": cname, "extent": [x0, y0, x1, y1], "shape": [h, w]},
                         {"got": [float(v) for v in a.area_extent], "shape": list(a.shape)}, size=5)
            ctx.case("constructors", (cname, nm, x0, y0, h, w), nontrivial=True)


def suite_yaml(ctx):
    from pyresample.area_config import load_area, load_area_from_string
    from pyresample.geometry import AreaDefinition
    r = ctx.rng
    specs = []
    for cname, proj, unit_m in CRSS:
        if isinstance(proj, dict) and "EPSG" in proj:
            proj = f"EPSG:{proj['EPSG']}"
        for _ in range(1 if ctx.quick else 4):
            h, w = r.randrange(1, 12), r.randrange(1, 12)
            px = r.choice([250.0, 1000.0, 3000.0]) / unit_m
            x0, y0 = r.uniform(-1e6, 1e6) / unit_m, r.uniform(-1e6, 1e6) / unit_m
            specs.append((f"{cname}_{len(specs)}", proj, w, h, (x0, y0, x0 + w * px, y0 + h * px)))
    specs.append(("geo_0", "EPSG:4326", 6, 4, (-10.0, 40.0, 5.0, 50.0)))
    # the same kind of grid with the extent held in numpy integer containers (as read from file attributes)
    specs.append(("int64_array", CRSS[0][1] if not (isinstance(CRSS[0][1], dict) and "EPSG" in CRSS[0][1]) else "EPSG:3035", 8, 5, np.array([3000000, 2000000, 3008000, 2005000], dtype=np.int64)))
    specs.append(("int32_scalars", "EPSG:4326", 6, 4, tuple(np.int32(v) for v in (-12, 40, 6, 52))))
    specs.append(("mixed_scalars", "EPSG:4326", 6, 4, (np.int64(-12), 40.0, np.float32(6.0), 52)))
    specs.append(("geo_pm", {"proj": "longlat", "datum": "WGS84", "pm": 180}, 6, 4, (-10.0, 40.0, 5.0, 50.0)))
    areas = []
    with warnings.catch_warnings():
        warnings.simplefilter("ignore")
        for nm, proj, w, h, ext in specs:
            areas.append(AreaDefinition(nm, f"description of {nm}", "", proj, w, h, ext))

    def compare(orig, back, how):
        inp = {"area_id": orig.area_id, "description": orig.description, "crs": str(orig.crs.to_dict())[:80], "extent": [float(v) for v in orig.area_extent],
               "shape": list(orig.shape), "via": how}
        probs = []
        if back.area_id != orig.area_id or back.description != orig.description:
            probs.append(f"id / description changed: loaded ({back.area_id!r}, {back.description!r}), dumped ({orig.area_id!r}, {orig.description!r})")
        if back.shape != orig.shape:
            probs.append(f"shape {back.shape} instead of {orig.shape}")
        else:
            with warnings.catch_warnings():
                warnings.simplefilter("ignore")
                lo, la = orig.get_lonlats()
                lb, lab = back.get_lonlats()
            if not (np.allclose(lo, lb, atol=1e-9, rtol=0, equal_nan=True) and np.allclose(la, lab, atol=1e-9, rtol=0, equal_nan=True)):
                probs.append(f"pixel lon/lats differ (max {float(np.nanmax(np.abs(lo - lb))):.3g} deg)")
        keeps_crs = orig.crs.to_epsg() is None and "units" not in orig.crs.to_dict()
        if keeps_crs and not probs and not (back == orig):
            probs.append("area compares unequal although the dump keeps the CRS as written")
        if probs:
            ctx.fail("AreaDefinition.dump / load_area", "; ".join(probs), inp, tags={"via": how}, size=5)
        ctx.case("yaml", (orig.area_id, how), nontrivial=True, sample={"input": inp})

    with warnings.catch_warnings():
        warnings.simplefilter("ignore")
        def loads(fn, how, a=None):
            try:
                return fn()
            except Exception as e:  # noqa: a dump that cannot be read back is a failed round trip, with this area as the input
                ctx.fail("AreaDefinition.dump / load_area", f"the dump cannot be loaded back: {type(e).__name__}: {str(e)[:200]}",
                         {"via": how, "area_id": None if a is None else a.area_id, "extent_types": None if a is None else [type(v).__name__ for v in np.ravel(a.area_extent)],
                          "extent": None if a is None else [float(v) for v in a.area_extent]}, tags={"via": how, "cause": "load-raises"}, size=5)
                return None
        for a in areas:
            back = loads(lambda: load_area_from_string(a.dump(), a.area_id), "load_area_from_string(one)", a)
            if back is not None:
                compare(a, back, "load_area_from_string(one)")
        many = "".join(a.dump() for a in areas)
        loaded = loads(lambda: load_area_from_string(many), "load_area_from_string(many)")
        if loaded is None:
            pass
        elif len(loaded) != len(areas):
            ctx.fail("area_config.load_area_from_string", "number of areas loaded from a multi-area string differs", {"n": len(areas), "got": len(loaded)}, size=5)
        else:
            for a, b in zip(areas, loaded):
                compare(a, b, "load_area_from_string(many)")
        tmp = tempfile.mkdtemp(prefix="pyresample-verif-c13-")
        try:
            path = os.path.join(tmp, "areas.yaml")
            for a in areas:
                a.dump(path)          # appends
            for a in areas[:: max(1, len(areas) // 5)]:
                back = loads(lambda: load_area(path, a.area_id), "load_area(file, id)", a)
                if back is not None:
                    compare(a, back, "load_area(file, id)")
            sel = [areas[0].area_id, areas[-1].area_id]
            two = loads(lambda: load_area(path, *sel), "load_area(file, two ids)")
            if two is not None:
                compare(areas[0], two[0], "load_area(file, two ids)")
                compare(areas[-1], two[1], "load_area(file, two ids)")
            # histories on one file: areas appended, the file rewritten (same ids, other grids), loads in between - every load
            # returns what the file holds at that moment
            import pathlib
            for hno in range(3 if ctx.quick else 20):
                hpath = os.path.join(tmp, f"history{hno}.yaml")
                truth, hist = {}, []
                for step in range(r.randrange(3, 8)):
                    op = r.choice(["append", "rewrite", "load", "load"]) if truth else "append"
                    if op in ("append", "rewrite"):
                        src_a = r.choice(areas)
                        h2, w2 = r.randrange(1, 40), r.randrange(1, 40)
                        aid = r.choice(["alpha", "beta", "gamma"])
                        if op == "append" and aid in truth:
                            op = "rewrite"
                        with warnings.catch_warnings():
                            warnings.simplefilter("ignore")
                            na = AreaDefinition(aid, f"{aid} version {step}", "", src_a.crs, w2, h2, tuple(float(v) for v in src_a.area_extent))
                        if op == "rewrite":
                            truth = {aid: na}
                            with open(hpath, "w") as fh:
                                fh.write(na.dump())
                        else:
                            truth[aid] = na
                            na.dump(hpath)
                        hist.append(f"{op}({aid}: {h2}x{w2})")
                    else:
                        aid = r.choice(sorted(truth))
                        arg = hpath if r.random() < 0.6 else pathlib.Path(hpath)
                        hist.append(f"load({aid})")
                        back = loads(lambda: load_area(arg, aid), "load_area(file history)", truth[aid])
                        ctx.count("yaml.history.loads")
                        if back is not None and (back.shape != truth[aid].shape or back.description != truth[aid].description):
                            ctx.fail("area_config.load_area", f"after the file history {hist} the load returns '{back.description}' with shape {back.shape}, but the file holds "
                                     f"'{truth[aid].description}' with shape {truth[aid].shape}", {"history": hist}, tags={"via": "file-history", "cause": "stale-file-content"}, size=len(hist))
                            break
                        if back is not None:
                            compare(truth[aid], back, f"load_area(file history {hno}.{step})")
            # ids and descriptions are free text: strings that YAML (or a loader testing truthiness / type) could mistake for
            # something else - empty, blank, null-, bool-, number-, date-like, YAML indicators, quotes, line breaks - must come
            # back as the very same strings, through every route, whatever the grid
            for rnd in range(2 if ctx.quick else 12):
                descs = [""] + r.sample(EDGE_STRINGS, 5 if ctx.quick else 12)
                ids = r.sample([s_ for s_ in EDGE_STRINGS if s_], 3 if ctx.quick else 8)
                sareas = []
                with warnings.catch_warnings():
                    warnings.simplefilter("ignore")
                    for k, (aid, desc) in enumerate([(f"s{rnd}_{i}", d) for i, d in enumerate(descs)] +
                                                    [(i_, r.choice(["plain description", i_, ""])) for i_ in ids]):
                        src_a = r.choice(areas)
                        h2, w2 = r.randrange(1, 30), r.randrange(1, 30)
                        sareas.append(AreaDefinition(aid, desc, "", src_a.crs, w2, h2, tuple(float(v) for v in src_a.area_extent)))
                for a in sareas:
                    ctx.count("yaml.strings.description." + ("empty" if a.description == "" else "id" if a.description == a.area_id else "other"))
                    back = loads(lambda: load_area_from_string(a.dump(), a.area_id), "strings: load_area_from_string(one, id)", a)
                    if back is not None:
                        compare(a, back, "strings: load_area_from_string(one, id)")
                    back = loads(lambda: load_area_from_string(a.dump()), "strings: load_area_from_string(one)", a)
                    if back is not None:
                        compare(a, back, "strings: load_area_from_string(one)")
                many = "".join(a.dump() for a in sareas)
                loaded = loads(lambda: load_area_from_string(many), "strings: load_area_from_string(many)")
                if loaded is not None and len(loaded) != len(sareas):
                    ctx.fail("area_config.load_area_from_string", "number of areas loaded from a multi-area string differs",
                             {"ids": [a.area_id for a in sareas], "got": len(loaded)}, size=5)
                elif loaded is not None:
                    for a, b in zip(sareas, loaded):
                        compare(a, b, "strings: load_area_from_string(many)")
                spath = os.path.join(tmp, f"strings{rnd}.yaml")
                if rnd % 2:
                    for a in sareas:
                        a.dump(spath)         # file name: appends
                else:
                    with open(spath, "a", encoding="utf-8") as fh:
                        for a in sareas:
                            a.dump(fh)        # file-like object
                whole = loads(lambda: load_area(spath), "strings: load_area(file)")
                if whole is not None and len(whole) != len(sareas):
                    ctx.fail("area_config.load_area", "number of areas loaded from a multi-area file differs",
                             {"ids": [a.area_id for a in sareas], "got": len(whole)}, size=5)
                elif whole is not None:
                    for a, b in zip(sareas, whole):
                        compare(a, b, "strings: load_area(file)")
                for a in r.sample(sareas, min(4, len(sareas))):
                    back = loads(lambda: load_area(spath, a.area_id), "strings: load_area(file, id)", a)
                    if back is not None:
                        compare(a, back, "strings: load_area(file, id)")
        finally:
            import shutil
            shutil.rmtree(tmp, ignore_errors=True)


def run(ctx):
    suite_create(ctx)
    suite_constructors(ctx)
    suite_yaml(ctx)
