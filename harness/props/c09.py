"""C09 — gradient search finds the exact source position; chunking is invisible."""
import itertools
import warnings
from fractions import Fraction

import numpy as np

from . import kdcommon as kc

META = {
    "rule": "kernel suites: one case = (source fields, target positions, element type / method) given to the compiled kernel "
            "(one_step_gradient_indices / one_step_gradient_search) and to the Lean model - all values dyadic with power-of-two "
            "determinants so that every float operation is exact and the comparison is exact, NaN pattern included; fields are affine "
            "(all orientations, rotated / sheared) or arbitrary per-pixel gradients (non-convergence, d = 0, clamping, carried state). "
            "block suites: block_nn_interpolator / block_bilinear_interpolator on cropped blocks with offsets vs the model. "
            "area suites: one case = (source area, target area, chunk size, method, dtype, ndim) through gradient_resampler_indices, "
            "ResampleBlocksGradientSearchResampler.precompute/compute and resample_blocks: indices against the exact position "
            "computed by the harness (pyproj as parameter), values against nearest-pixel / standard bilinear oracles, and all chunk "
            "sizes against each other (values and valid-pixel pattern). Non-trivial: target partly outside the source, different CRS, "
            "or >= 2 blocks. Distinct = distinct canonical input.",
    "assumptions": ["'inside the source grid' = inside the hull of the source pixel centres (0 <= row <= H-1, 0 <= col <= W-1): that is "
                    "what the kernel implements and tests pin; the outer half-pixel frame gets no value under every chunking",
                    "target pixel centres are mapped into the source CRS by pyproj (parameter class); positions within 1e-6 pixel of "
                    "the hull edge, of a rounding tie (nn) are not decided",
                    "geostationary sources: target pixels whose source position is within 0.4 % of the Earth-disk radius of the disk edge "
                    "(or beyond it) are not decided - the same safety margin of the cropping that C11's statement allows",
                    "the compiled kernel in /repo is the .so built from _gradient_search.pyx; no Cython in the sandbox, so a change to "
                    "the .pyx alone is not observable (stated in DESIGN.md)"],
}

F = Fraction
DY = [F(1, 4), F(1, 2), F(1), F(2), F(4)]


def _arr(rows, dtype=np.float64):
    return np.array([[float(v) for v in r] for r in rows], dtype=dtype)


def _flat(rows):
    return [v for r in rows for v in r]


def _parse_cell(s):
    if s == "nan":
        return None
    p = s.split(",")
    return {"P": F(p[0]), "L": F(p[1]), "nn": (int(p[2]), int(p[3])), "la": int(p[4]), "lb": int(p[5]), "wl": F(p[6]),
            "pa": int(p[7]), "pb": int(p[8]), "wp": F(p[9])}


def _model_search(ctx, fields, dstx, dsty):
    rows, cols = len(fields[0]), len(fields[0][0])
    tr, tc = len(dstx), len(dstx[0])
    parts = ["search", rows, cols]
    for f in fields:
        parts += _flat(f)
    parts += [tr, tc]
    parts += ["inf" if v is None else v for v in _flat(dstx)]
    parts += ["inf" if v is None else v for v in _flat(dsty)]
    rep = ctx.M.ask(*parts)
    cells = [_parse_cell(s) for s in rep.split(" ")]
    return [[cells[i * tc + j] for j in range(tc)] for i in range(tr)]


def _gen_affine(rng, rows, cols):
    """sx = x0 + p*a + l*b ; sy = y0 + p*c + l*e with d = e*a - c*b = +-2^k"""
    kind = rng.choice(["axis", "axis", "axis", "rot", "shear"])
    sg = lambda: rng.choice([1, -1])
    if kind == "axis":
        a, b, c, e = sg() * rng.choice(DY), F(0), F(0), sg() * rng.choice(DY)
    elif kind == "rot":
        a, b, c, e = F(0), sg() * rng.choice(DY), sg() * rng.choice(DY), F(0)
    else:
        a, e = sg() * rng.choice(DY), sg() * rng.choice(DY)
        b, c = (rng.choice(DY) * sg(), F(0)) if rng.random() < 0.5 else (F(0), rng.choice(DY) * sg())
    x0, y0 = F(rng.randint(-40, 40), 4), F(rng.randint(-40, 40), 4)
    sx = [[x0 + p * a + l * b for p in range(cols)] for l in range(rows)]
    sy = [[y0 + p * c + l * e for p in range(cols)] for l in range(rows)]
    const = lambda v: [[v] * cols for _ in range(rows)]
    # kernel naming: xl = d sx / d line, xp = d sx / d pixel, yl, yp
    return kind, (sx, sy, const(b), const(a), const(e), const(c)), (x0, y0, a, b, c, e)


def _gen_general(rng, rows, cols):
    """arbitrary per-pixel gradients with determinant 0 or +-2^k, arbitrary dyadic coordinates"""
    sx = [[F(rng.randint(-32, 32), 4) for _ in range(cols)] for _ in range(rows)]
    sy = [[F(rng.randint(-32, 32), 4) for _ in range(cols)] for _ in range(rows)]
    xl, xp, yl, yp = ([[F(0)] * cols for _ in range(rows)] for _ in range(4))
    for l in range(rows):
        for p in range(cols):
            k = rng.random()
            sg = lambda: rng.choice([1, -1])
            if k < 0.1:
                pass                                            # d == 0
            elif k < 0.6:
                xp[l][p], yl[l][p] = sg() * rng.choice(DY), sg() * rng.choice(DY)
                if rng.random() < 0.3:
                    xl[l][p] = sg() * rng.choice(DY)
            else:
                xl[l][p], yp[l][p] = sg() * rng.choice(DY), sg() * rng.choice(DY)
                if rng.random() < 0.3:
                    xp[l][p] = sg() * rng.choice(DY)
    return "general", (sx, sy, xl, xp, yl, yp), None


def _gen_targets(rng, fields, tr, tc, affine):
    sx, sy = fields[0], fields[1]
    xs, ys = _flat(sx), _flat(sy)
    lo_x, hi_x, lo_y, hi_y = min(xs), max(xs), min(ys), max(ys)
    span_x, span_y = max(hi_x - lo_x, F(1)), max(hi_y - lo_y, F(1))
    dstx, dsty = [], []
    mode = rng.choice(["lattice", "scatter", "scatter"])
    ox = lo_x - span_x * F(rng.randint(0, 3), 4)
    oy = hi_y + span_y * F(rng.randint(0, 3), 4)
    stepx = (span_x * F(rng.randint(4, 7), 4)) / max(tc - 1, 1)
    stepy = (span_y * F(rng.randint(4, 7), 4)) / max(tr - 1, 1)
    q = lambda v: F(round(v * 8), 8)
    for i in range(tr):
        rx, ry = [], []
        for j in range(tc):
            if rng.random() < 0.06:
                rx.append(None)
                ry.append(None)
                continue
            if mode == "lattice":
                rx.append(q(ox + j * stepx))
                ry.append(q(oy - i * stepy))
            else:
                rx.append(q(lo_x - span_x / 4 + span_x * F(rng.randint(0, 48), 32)))
                ry.append(q(lo_y - span_y / 4 + span_y * F(rng.randint(0, 48), 32)))
        dstx.append(rx)
        dsty.append(ry)
    return mode, dstx, dsty


def _to_np(grid):
    return np.array([[np.inf if v is None else float(v) for v in r] for r in grid], dtype=np.float64)


def suite_kernel(ctx):
    """compiled kernel vs model, exact"""
    from pyresample.gradient._gradient_search import one_step_gradient_indices, one_step_gradient_search
    rng = ctx.rng
    n = 160 if ctx.quick else 1500
    for it in range(n):
        rows, cols = rng.choice([1, 2, 3, 4, 5, 6, 7]), rng.choice([1, 2, 3, 4, 5, 6, 9])
        gen = _gen_affine if rng.random() < 0.6 else _gen_general
        kind, fields, par = gen(rng, rows, cols)
        tr, tc = rng.choice([1, 2, 3, 5, 6]), rng.choice([1, 2, 4, 5, 7])
        mode, dstx, dsty = _gen_targets(rng, fields, tr, tc, par)
        model = _model_search(ctx, fields, dstx, dsty)
        npf = [_arr(f) for f in fields]
        dx_, dy_ = _to_np(dstx), _to_np(dsty)
        inp = {"kind": kind, "rows": rows, "cols": cols, "fields": [[[str(v) for v in r] for r in f] for f in fields],
               "dstx": [[None if v is None else str(v) for v in r] for r in dstx],
               "dsty": [[None if v is None else str(v) for v in r] for r in dsty]}
        got = one_step_gradient_indices(*npf, dx_, dy_)
        n_found = sum(1 for r in model for c in r if c is not None)
        ctx.count(f"kernel.kind.{kind}")
        ctx.count("kernel.found", n_found)
        ctx.count("kernel.notfound", tr * tc - n_found)
        ctx.case("kernel-indices", (kind, str(fields), str(dstx), str(dsty)), nontrivial=0 < n_found,
                 sample={"kind": kind, "shape": [rows, cols], "target": [tr, tc], "found": n_found})
        bad = None
        for i in range(tr):
            for j in range(tc):
                m = model[i][j]
                gx, gy = got[0, i, j], got[1, i, j]
                if m is None:
                    if not (np.isnan(gx) and np.isnan(gy)):
                        bad = (i, j, [float(gx), float(gy)], "nan")
                elif np.isnan(gx) or F(float(gx)) != m["P"] or F(float(gy)) != m["L"]:
                    bad = (i, j, [float(gx), float(gy)], [str(m["P"]), str(m["L"])])
                if bad:
                    break
            if bad:
                break
        if bad:
            ctx.disagree("kernel-indices", {**inp, "pixel": bad[:2]}, bad[2], bad[3], "one_step_gradient_indices differs from searchLoop")
            continue
        # for affine axis-aligned sources: the model output must be the exact position, inside iff emitted (property oracle)
        if par is not None and kind == "axis":
            x0, y0, a, b, c, e = par
            for i in range(tr):
                for j in range(tc):
                    if dstx[i][j] is None:
                        continue
                    P, L = (dstx[i][j] - x0) / a, (dsty[i][j] - y0) / e
                    inside = 0 <= P <= cols - 1 and 0 <= L <= rows - 1
                    gx, gy = got[0, i, j], got[1, i, j]
                    if inside and (np.isnan(gx) or F(float(gx)) != P or F(float(gy)) != L):
                        ctx.fail("_gradient_search.one_step_gradient_indices",
                                 f"target position inside the source grid at exact (col {P}, row {L}) but the search returned ({gx}, {gy})",
                                 {**inp, "pixel": [i, j]}, {"got": [float(gx), float(gy)]}, tags={"cause": "kernel-exact"}, size=rows * cols + tr * tc)
                    if not inside and not np.isnan(gx):
                        ctx.fail("_gradient_search.one_step_gradient_indices",
                                 f"target position outside the source grid (col {P}, row {L}) received a position ({gx}, {gy})",
                                 {**inp, "pixel": [i, j]}, {"got": [float(gx), float(gy)]}, tags={"cause": "kernel-outside"}, size=rows * cols + tr * tc)
        # data variants
        for dtype in (np.float64, np.float32):
            for method in ("nn", "bilinear"):
                nb = rng.choice([1, 1, 2, 3])
                data = np.array([[[rng.randint(-64, 64) for _ in range(cols)] for _ in range(rows)] for _ in range(nb)], dtype=dtype)
                res = one_step_gradient_search(data, *npf, dx_, dy_, method=method)
                ctx.count(f"kernel.data.{method}.{np.dtype(dtype).name}")
                ctx.case("kernel-data", (kind, str(fields), str(dstx), str(dsty), method, str(dtype), data.tobytes()), nontrivial=0 < n_found)
                bad = None
                for i in range(tr):
                    for j in range(tc):
                        m = model[i][j]
                        for z in range(nb):
                            g = res[z, i, j]
                            if m is None:
                                exp = None
                            elif method == "nn":
                                exp = F(float(data[z, m["nn"][0], m["nn"][1]]))
                            else:
                                d = lambda l, p: F(float(data[z, l, p]))
                                wl, wp = m["wl"], m["wp"]
                                exp = ((1 - wl) * (1 - wp) * d(m["la"], m["pa"]) + (1 - wl) * wp * d(m["la"], m["pb"])
                                       + wl * (1 - wp) * d(m["lb"], m["pa"]) + wl * wp * d(m["lb"], m["pb"]))
                            ok = np.isnan(g) if exp is None else (not np.isnan(g) and abs(F(float(g)) - exp) <= (F(1, 10**9) if dtype is np.float64 else F(1, 10**3)) * (1 + abs(exp)))
                            if not ok:
                                bad = (z, i, j, float(g), None if exp is None else float(exp))
                                break
                        if bad:
                            break
                    if bad:
                        break
                if bad:
                    ctx.disagree("kernel-data", {**inp, "method": method, "dtype": np.dtype(dtype).name, "data": data.tolist(), "pixel": bad[:3]},
                                 bad[3], bad[4], f"one_step_gradient_search({method}) differs from the model's pixel / weights")


def suite_blocks(ctx):
    """block_nn_interpolator / block_bilinear_interpolator vs blockNN / blockBil, incl. block offsets and NaN indices"""
    from pyresample.gradient import block_bilinear_interpolator, block_nn_interpolator
    rng = ctx.rng
    n = 80 if ctx.quick else 600
    for it in range(n):
        h, wd = rng.choice([1, 2, 3, 4, 6]), rng.choice([1, 2, 3, 5, 7])
        nb = rng.choice([0, 0, 1, 3])                  # 0 = 2-D data
        oy, ox = rng.choice([0, 0, 1, 5]), rng.choice([0, 0, 2, 7])
        th, tw = rng.choice([1, 2, 4]), rng.choice([1, 3, 5])
        shape = ((nb,) if nb else ()) + (h, wd)
        dtype = rng.choice([np.float64, np.float32])
        data = np.array(np.reshape([rng.randint(-50, 50) for _ in range(int(np.prod(shape)))], shape), dtype=dtype)
        # global fractional indices on a 1/8 lattice, some outside the block by up to 1.5 pixel, some NaN
        gx = [[F(rng.randint(-12, 8 * wd + 4), 8) + ox for _ in range(tw)] for _ in range(th)]
        gy = [[F(rng.randint(-12, 8 * h + 4), 8) + oy for _ in range(tw)] for _ in range(th)]
        nanmask = [[rng.random() < 0.15 for _ in range(tw)] for _ in range(th)]
        ind = np.array([[[np.nan if nanmask[i][j] else float(g[i][j]) for j in range(tw)] for i in range(th)] for g in (gx, gy)])
        use_bi = not (ox == 0 and oy == 0 and rng.random() < 0.5)
        bi = {0: {"array-location": (slice(oy, oy + h), slice(ox, ox + wd))}} if use_bi else None
        if not use_bi:
            ox = oy = 0
        ind0 = ind.copy()
        fill = rng.choice([np.nan, -999.0])
        inp = {"shape": list(shape), "dtype": np.dtype(dtype).name, "offset": [oy, ox], "block_info": use_bi, "fill": None if np.isnan(fill) else fill,
               "gx": [[str(v) for v in r] for r in gx], "gy": [[str(v) for v in r] for r in gy], "nan": nanmask, "data": data.tolist()}
        for method, fn in (("nn", block_nn_interpolator), ("bilinear", block_bilinear_interpolator)):
            with warnings.catch_warnings():
                warnings.simplefilter("ignore")
                res = np.asarray(fn(data, ind, fill_value=fill, block_info=bi))
            ctx.count(f"blocks.{method}")
            ctx.case("block-interp", (method, str(inp)), nontrivial=True, sample={"method": method, "shape": list(shape), "offset": [oy, ox]})
            if not np.array_equal(ind, ind0, equal_nan=True):
                ctx.fail(f"gradient.block_{'nn' if method == 'nn' else 'bilinear'}_interpolator",
                         "the interpolator modified the shared indices array in place (a second consumer of the same indices sees different positions)",
                         {**inp, "method": method}, {"after": ind.tolist()}, tags={"cause": "indices-mutated"}, size=th * tw)
                ind = ind0.copy()
            bad = None
            for i in range(th):
                for j in range(tw):
                    zs = range(nb) if nb else [None]
                    for z in zs:
                        g = res[(z, i, j) if nb else (i, j)]
                        d = (lambda l, p: F(float(data[(z, l, p) if nb else (l, p)])))
                        if nanmask[i][j]:
                            exp = None
                        elif method == "nn":
                            l = int(ctx.M.ask("blocknn", gy[i][j] - oy, h))
                            p = int(ctx.M.ask("blocknn", gx[i][j] - ox, wd))
                            exp = d(l, p)
                        else:
                            ls, le, wl = ctx.M.ask("blockbil", gy[i][j] - oy, h).split(" ")
                            ps, pe, wp = ctx.M.ask("blockbil", gx[i][j] - ox, wd).split(" ")
                            ls, le, ps, pe, wl, wp = int(ls), int(le), int(ps), int(pe), F(wl), F(wp)
                            # np.clip(l_start + 1, 1, n - 1) with n = 1 gives 0 (a_min > a_max -> a_max)
                            le, pe = (min(le, h - 1), min(pe, wd - 1))
                            exp = ((1 - wl) * (1 - wp) * d(ls, ps) + (1 - wl) * wp * d(ls, pe) + wl * (1 - wp) * d(le, ps) + wl * wp * d(le, pe))
                        if exp is None:
                            ok = (np.isnan(g) if np.isnan(fill) else g == fill)
                        else:
                            ok = not np.isnan(g) and abs(F(float(g)) - exp) <= F(1, 10**4) * (1 + abs(exp))
                        if not ok:
                            bad = (z, i, j, float(g), None if exp is None else float(exp))
                            break
                    if bad:
                        break
                if bad:
                    break
            if bad:
                ctx.disagree("block-interp", {**inp, "method": method, "pixel": bad[:3]}, bad[3], bad[4], f"block {method} interpolator differs from the model")


# ---------------------------------------------------------------------------------------------------------------------------
# area -> area
# ---------------------------------------------------------------------------------------------------------------------------

def _pairs(ctx):
    """(label, source area, target area)"""
    from pyresample.geometry import AreaDefinition
    rng = ctx.rng
    A = lambda name, proj, w, h, ext: AreaDefinition(name, name, name, proj, w, h, ext)
    out = []
    # same CRS: shifted / scaled / finer / coarser targets, partly outside
    laea = {"proj": "laea", "lat_0": 52, "lon_0": 10, "ellps": "WGS84"}
    src = A("laea_src", laea, 23, 17, (-115000, -85000, 115000, 85000))
    out.append(("same-shift", src, A("laea_t1", laea, 19, 14, (-60300, -50200, 140700, 95100))))
    out.append(("same-fine", src, A("laea_t2", laea, 31, 29, (-33300, -29100, 27700, 31100))))
    out.append(("same-coarse", src, A("laea_t3", laea, 7, 6, (-150000, -120000, 160000, 110000))))
    # different CRS
    stere = {"proj": "stere", "lat_0": 90, "lat_ts": 60, "lon_0": 0, "ellps": "WGS84"}
    merc = {"proj": "merc", "lon_0": 0, "ellps": "WGS84"}
    ll = {"proj": "longlat", "ellps": "WGS84"}
    out.append(("laea->stere", src, A("st_t", stere, 21, 18, (480000, -4300000, 780000, -4050000))))
    out.append(("merc->laea", A("merc_s", merc, 26, 22, (600000, 6300000, 1700000, 7400000)), A("laea_t4", laea, 20, 25, (-200000, -250000, 210000, 260000))))
    out.append(("ll->laea", A("ll_s", ll, 30, 20, (4.0, 48.0, 16.0, 56.0)), A("laea_t5", laea, 24, 22, (-300000, -250000, 310000, 240000))))
    out.append(("laea->ll", src, A("ll_t", ll, 27, 16, (8.0, 51.0, 12.5, 53.0))))
    # flipped source (y up)
    out.append(("flipped-src", A("ll_flip", ll, 30, 20, (4.0, 56.0, 16.0, 48.0)), A("laea_t6", laea, 18, 16, (-250000, -200000, 260000, 210000))))
    # geos source -> ll target (targets off the disk give inf)
    geos = {"proj": "geos", "h": 35785831.0, "lon_0": 0, "a": 6378169.0, "b": 6356583.8}
    out.append(("geos->ll", A("geos_s", geos, 40, 40, (-5570000, -5570000, 5570000, 5570000)), A("ll_t2", ll, 22, 14, (-85.0, 30.0, 20.0, 85.0))))
    # a source that is itself a slice of a larger area (crop to a region of interest, then resample)
    big = A("laea_big", laea, 46, 40, (-230000, -200000, 230000, 200000))
    out.append(("sliced-src", big[5:33, 4:37], A("laea_t7", laea, 22, 18, (-150000, -120000, 120000, 110000))))
    out.append(("sliced-src->stere", big[3:36, 6:40], A("st_t2", stere, 19, 16, (480000, -4300000, 780000, -4050000))))
    # a very wide source: positions inside a source crop run into the thousands
    out.append(("long-strip", A("laea_strip", laea, 2300, 6, (-1150000, -3000, 1150000, 3000)), A("laea_t8", laea, 41, 5, (-1100300, -2400, 1120900, 2300))))
    # random same-CRS / rotated pairs
    for k in range(2 if ctx.quick else 8):
        w, h = rng.randint(8, 30), rng.randint(8, 30)
        res = rng.choice([1000.0, 2500.0, 4000.0])
        x0, y0 = rng.uniform(-2e5, 2e5), rng.uniform(-2e5, 2e5)
        s = A(f"rs{k}", laea, w, h, (x0, y0, x0 + w * res, y0 + h * res))
        tw, th = rng.randint(5, 28), rng.randint(5, 28)
        tres = res * rng.choice([0.37, 0.8, 1.0, 1.7, 2.9])
        tx0, ty0 = x0 + rng.uniform(-0.4, 0.6) * w * res, y0 + rng.uniform(-0.4, 0.6) * h * res
        proj = rng.choice([laea, laea, {"proj": "laea", "lat_0": 48, "lon_0": 14, "ellps": "WGS84"}])
        out.append((f"rand{k}", s, A(f"rt{k}", proj, tw, th, (tx0, ty0, tx0 + tw * tres, ty0 + th * tres))))
    return out


def _exact_positions(src, tgt):
    """fractional (col, row) of every target pixel centre in the source grid; inf where the centre cannot be expressed in the source CRS"""
    import pyproj
    tx, ty = tgt.get_proj_coords()
    tr = pyproj.Transformer.from_crs(tgt.crs, src.crs, always_xy=True)
    with warnings.catch_warnings():
        warnings.simplefilter("ignore")
        sx, sy = tr.transform(np.asarray(tx, float), np.asarray(ty, float))
    x_ll, y_ll, x_ur, y_ur = src.area_extent
    dx = (x_ur - x_ll) / src.width
    dy = (y_ur - y_ll) / src.height
    P = (np.asarray(sx) - (x_ll + dx / 2)) / dx
    L = ((y_ur - dy / 2) - np.asarray(sy)) / dy
    return P, L


EDGE = 1e-6


def _limb(src, P, L):
    """geostationary sources: positions within 0.4 % of the Earth-disk edge (or beyond it) - the cropping's safety margin"""
    if not getattr(src, "is_geostationary", False):
        return np.zeros(P.shape, bool)
    from pyresample.geometry import get_geostationary_angle_extent
    from pyresample.utils.proj4 import get_geostationary_height
    xa, ya = get_geostationary_angle_extent(src)
    h = get_geostationary_height(src.crs)
    fin = np.isfinite(P) & np.isfinite(L)
    x, y = src.get_projection_coordinates_from_array_coordinates(np.where(fin, P, 0.0), np.where(fin, L, 0.0))
    rad2 = (np.asarray(x) / (xa * h)) ** 2 + (np.asarray(y) / (ya * h)) ** 2
    return fin & (rad2 >= (1 - 0.004) ** 2)


def _classify(src, P, L):
    fin = np.isfinite(P) & np.isfinite(L)
    Pm = np.where(fin, P, -1e9)
    Lm = np.where(fin, L, -1e9)
    limb = _limb(src, P, L)
    inside = fin & ~limb & (Pm >= EDGE) & (Pm <= src.width - 1 - EDGE) & (Lm >= EDGE) & (Lm <= src.height - 1 - EDGE)
    outside = ~fin | (Pm < -EDGE) | (Pm > src.width - 1 + EDGE) | (Lm < -EDGE) | (Lm > src.height - 1 + EDGE)
    return inside, outside


def _set_chunk(cs):
    import pyresample
    import pyresample.gradient as g
    pyresample.CHUNK_SIZE = cs
    g.CHUNK_SIZE = cs
    for modname in ("geometry", "resampler"):
        m = getattr(pyresample, modname, None)
        if m is not None and hasattr(m, "CHUNK_SIZE"):
            m.CHUNK_SIZE = cs


def _area_desc(a):
    return {"proj": a.crs.to_dict() if hasattr(a.crs, "to_dict") else str(a.crs), "width": a.width, "height": a.height, "extent": list(map(float, a.area_extent))}


def _oracle_values(data3, P, L, inside, method):
    """nearest-pixel / standard bilinear of the four enclosing centres at the exact positions (float64)"""
    Pc = np.where(inside, P, 0.0)
    Lc = np.where(inside, L, 0.0)
    H, W = data3.shape[-2:]
    if method == "nn":
        p = np.clip(np.rint(Pc), 0, W - 1).astype(int)
        l = np.clip(np.rint(Lc), 0, H - 1).astype(int)
        tie = (np.abs(Pc - np.floor(Pc) - 0.5) < 1e-6) | (np.abs(Lc - np.floor(Lc) - 0.5) < 1e-6)
        return data3[..., l, p].astype(float), tie
    p0 = np.clip(np.floor(Pc), 0, W - 1).astype(int)
    l0 = np.clip(np.floor(Lc), 0, H - 1).astype(int)
    p1 = np.clip(p0 + 1, 0, W - 1)
    l1 = np.clip(l0 + 1, 0, H - 1)
    wp, wl = Pc - p0, Lc - l0
    d = data3.astype(float)
    val = ((1 - wl) * (1 - wp) * d[..., l0, p0] + (1 - wl) * wp * d[..., l0, p1] + wl * (1 - wp) * d[..., l1, p0] + wl * wp * d[..., l1, p1])
    return val, np.zeros(P.shape, bool)


def suite_areas(ctx):
    import dask
    import dask.array as da
    import xarray as xr

    from pyresample.gradient import ResampleBlocksGradientSearchResampler, gradient_resampler_indices
    from pyresample.resampler import resample_blocks
    from pyresample.gradient import gradient_resampler_indices_block, block_nn_interpolator, block_bilinear_interpolator
    rng = ctx.rng
    pairs = _pairs(ctx)
    chunk_sets = [4096, 7, 5, 4, 3, 16] if ctx.quick else [4096, 16, 11, 7, 6, 5, 4, 3, 2]
    for label, src, tgt in pairs:
        P, L = _exact_positions(src, tgt)
        inside, outside = _classify(src, P, L)
        inp0 = {"pair": label, "source": _area_desc(src), "target": _area_desc(tgt)}
        ctx.count("areas.pixels.inside", int(inside.sum()))
        ctx.count("areas.pixels.outside", int(outside.sum()))
        ctx.count("areas.pixels.undecided", int((~inside & ~outside).sum()))
        nontriv = bool(inside.any() and outside.any()) or src.crs != tgt.crs

        def check_indices(ind, site, inp, tags):
            gx, gy = np.asarray(ind[0]), np.asarray(ind[1])
            got = ~np.isnan(gx) & ~np.isnan(gy)
            miss = inside & ~got
            extra = outside & got
            if miss.any():
                i, j = map(int, np.argwhere(miss)[0])
                ctx.fail(site, f"target pixel ({i},{j}) whose centre is inside the source grid at (col {P[i, j]:.4f}, row {L[i, j]:.4f}) got no position "
                         f"({int(miss.sum())} such pixels)", {**inp, "pixel": [i, j]}, {"missing": int(miss.sum())}, tags={**tags, "cause": "missing"}, size=tgt.size)
                return False
            if extra.any():
                i, j = map(int, np.argwhere(extra)[0])
                ctx.fail(site, f"target pixel ({i},{j}) outside the source grid (col {P[i, j]:.4f}, row {L[i, j]:.4f}) got position ({gx[i, j]:.4f},{gy[i, j]:.4f})",
                         {**inp, "pixel": [i, j]}, {"extra": int(extra.sum())}, tags={**tags, "cause": "extra"}, size=tgt.size)
                return False
            err = np.where(inside, np.maximum(np.abs(np.where(inside, gx, 0) - np.where(inside, P, 0)), np.abs(np.where(inside, gy, 0) - np.where(inside, L, 0))), 0)
            if err.max() > 1e-5:
                i, j = map(int, np.unravel_index(np.argmax(err), err.shape))
                ctx.fail(site, f"target pixel ({i},{j}): returned position ({gx[i, j]:.6f},{gy[i, j]:.6f}) but the exact one is ({P[i, j]:.6f},{L[i, j]:.6f})",
                         {**inp, "pixel": [i, j]}, {"max_err_px": float(err.max())}, tags={**tags, "cause": "inexact"}, size=tgt.size)
                return False
            return True

        # 1. the un-blocked entry point
        with warnings.catch_warnings():
            warnings.simplefilter("ignore")
            ind = gradient_resampler_indices(src, tgt)
        ctx.case("area-indices", ("direct", label, str(_area_desc(src)), str(_area_desc(tgt))), nontrivial=nontriv,
                 sample={"pair": label, "inside": int(inside.sum()), "outside": int(outside.sum())})
        check_indices(ind, "gradient.gradient_resampler_indices", {**inp0, "entry": "gradient_resampler_indices"}, {"entry": "direct"})

        # 2. blocked: all chunk sizes, indices + values, against the oracle and against each other
        nb = rng.choice([0, 2, 3])
        dtype = rng.choice([np.float32, np.float64])
        yy, xx = np.mgrid[0:src.height, 0:src.width]
        base = (3.0 * yy + 0.5 * xx + 0.25 * yy * xx + 7 * np.sin(yy * 1.3) * np.cos(xx * 0.7))
        tight = label == "long-strip"
        if tight:
            # small magnitude, strong pixel-to-pixel variation: interpolation weights must be right to single precision
            base = np.modf(np.abs(np.sin(yy * 12.9898 + xx * 78.233) * 43758.5453))[0]
            dtype = np.float32
        data_np = (np.stack([base * (k + 1) + k for k in range(nb)]) if nb else base).astype(dtype)
        results = {}
        for cs in chunk_sets:
            _set_chunk(cs)
            try:
                nblocks = -(-tgt.height // cs) * -(-tgt.width // cs)
                src_chunks = rng.choice([-1, 5, (4, 9)])
                dims = (("bands", "y", "x") if nb else ("y", "x"))
                dchunks = ((nb,) if nb else ()) + ((src.height, src.width) if src_chunks == -1 else
                                                   ((src_chunks, src_chunks) if isinstance(src_chunks, int) else src_chunks))
                xdata = xr.DataArray(da.from_array(data_np, chunks=dchunks), dims=dims)
                inp = {**inp0, "chunk_size": cs, "source_chunks": str(src_chunks), "ndim": data_np.ndim, "dtype": np.dtype(dtype).name}
                with warnings.catch_warnings(), dask.config.set(scheduler="synchronous"):
                    warnings.simplefilter("ignore")
                    rs = ResampleBlocksGradientSearchResampler(src, tgt)
                    rs.precompute()
                    ind_b = rs.indices_xy.compute()
                    ctx.count(f"areas.chunk.{cs}")
                    ctx.count("areas.blocks", nblocks)
                    ctx.case("area-indices", ("blocked", label, cs), nontrivial=nontriv or nblocks > 1)
                    ok = check_indices(ind_b, "gradient.ResampleBlocksGradientSearchResampler.precompute", {**inp, "entry": "precompute"}, {"entry": "blocked", "chunk": cs})
                    vals = {}
                    for method in ("nn", "bilinear"):
                        out = rs.compute(xdata, method=method, fill_value=np.nan)
                        v1 = np.asarray(out.values)
                        # the same resampler, the same indices, used a second time (indices are shared between consumers)
                        v2 = np.asarray(rs.compute(xdata, method=method, fill_value=np.nan).values)
                        ctx.case("area-values", (label, cs, method, nb, str(dtype), str(src_chunks)), nontrivial=nontriv or nblocks > 1)
                        if not np.array_equal(v1, v2, equal_nan=True):
                            ctx.fail("gradient.ResampleBlocksGradientSearchResampler.compute",
                                     f"computing the same resampling twice with the same resampler gives different arrays (method {method})",
                                     {**inp, "method": method}, {"n_diff": int((~((v1 == v2) | (np.isnan(v1) & np.isnan(v2)))).sum())},
                                     tags={"cause": "second-compute", "method": method}, size=tgt.size)
                        if v1.dtype != data_np.dtype:
                            ctx.count("areas.note.computed_dtype_differs_from_declared")   # np.full blocks for missed source: out of C09's scope
                        if v1.shape != data_np.shape[:-2] + tgt.shape:
                            ctx.fail("gradient.ResampleBlocksGradientSearchResampler.compute",
                                     f"result has shape {v1.shape}, expected {data_np.shape[:-2] + tgt.shape}",
                                     {**inp, "method": method}, None, tags={"cause": "shape"}, size=tgt.size)
                            continue
                        vals[method] = v1
                        exp, tie = _oracle_values(data_np, P, L, inside, method)
                        tol = (1e-4 if dtype is np.float32 else 1e-7) * (1 + np.abs(exp)) + (np.abs(data_np).max() * 2e-5 if method == "bilinear" else 0)
                        if tight:
                            tol = 2e-5 * np.ones_like(exp)
                        dec = inside & ~tie
                        wrong = dec & (np.isnan(v1) | (np.abs(np.nan_to_num(v1) - exp) > tol))
                        vout = outside & ~np.isnan(v1)
                        if wrong.any():
                            idx = tuple(map(int, np.argwhere(wrong)[0]))
                            ctx.fail("gradient.ResampleBlocksGradientSearchResampler.compute",
                                     f"{method} value at target index {idx} is {v1[idx]} but the "
                                     f"{'source pixel containing the point has' if method == 'nn' else 'bilinear interpolation of the enclosing centres gives'} {exp[idx]:.6f} "
                                     f"(position col {P[idx[-2:]]:.4f}, row {L[idx[-2:]]:.4f}; {int(wrong.sum())} such values)",
                                     {**inp, "method": method, "index": list(idx)}, {"n_wrong": int(wrong.sum())},
                                     tags={"cause": "value", "method": method, "chunk": cs}, size=tgt.size)
                        if vout.any():
                            idx = tuple(map(int, np.argwhere(vout)[0]))
                            ctx.fail("gradient.ResampleBlocksGradientSearchResampler.compute",
                                     f"{method}: target index {idx} lies outside the source grid but received value {v1[idx]}",
                                     {**inp, "method": method, "index": list(idx)}, {"n": int(vout.sum())}, tags={"cause": "value-outside", "method": method}, size=tgt.size)
                    # two DIFFERENT datasets through the same resampler, evaluated together in one graph (RGB channels, a Dataset's
                    # variables): each result belongs to its own source, exactly as when it is computed alone
                    if cs in chunk_sets[:3] or not ctx.quick:
                        data2_np = np.ascontiguousarray(data_np[..., ::-1, ::-1] * dtype(0.5) - dtype(3)).astype(dtype)
                        xdata2 = xr.DataArray(da.from_array(data2_np, chunks=dchunks), dims=dims)
                        for method in vals:
                            o1 = rs.compute(xdata, method=method, fill_value=np.nan)
                            o2 = rs.compute(xdata2, method=method, fill_value=np.nan)
                            alone2 = np.asarray(rs.compute(xdata2, method=method, fill_value=np.nan).values)
                            how = rng.choice(["dask.compute", "xr.Dataset", "xr.concat"])
                            if how == "dask.compute":
                                j1, j2 = dask.compute(o1.data, o2.data)
                            elif how == "xr.Dataset":
                                ds = xr.Dataset({"a": o1, "b": o2}).compute()
                                j1, j2 = ds["a"].values, ds["b"].values
                            else:
                                st = xr.concat([o1, o2], dim="stack").compute().values
                                j1, j2 = st[0], st[1]
                            ctx.case("area-joint", (label, cs, method, how), nontrivial=True)
                            ctx.count(f"areas.joint.{how}")
                            for nm, j, ref in (("first", j1, vals[method]), ("second", j2, alone2)):
                                if not np.array_equal(np.asarray(j), ref, equal_nan=True):
                                    nd = int((~((np.asarray(j) == ref) | (np.isnan(j) & np.isnan(ref)))).sum())
                                    ctx.fail("gradient.ResampleBlocksGradientSearchResampler.compute",
                                             f"{method}: two datasets resampled by one resampler and evaluated together ({how}): the {nm} result differs from the one computed "
                                             f"alone in {nd} values", {**inp, "method": method, "how": how}, {"n_diff": nd},
                                             tags={"cause": "joint-compute", "method": method}, size=tgt.size)
                    results[cs] = (ind_b, vals, inp)
            finally:
                _set_chunk(4096)
        # 3. chunking is invisible: every pair of chunk sizes
        ref_cs = chunk_sets[0]
        if ref_cs in results:
            ind_r, vals_r, _ = results[ref_cs]
            for cs, (ind_b, vals, inp) in results.items():
                if cs == ref_cs:
                    continue
                ctx.case("chunk-invariance", (label, cs), nontrivial=True)
                nan_r, nan_b = np.isnan(ind_r[0]), np.isnan(ind_b[0])
                decided = inside | outside
                if ((nan_r != nan_b) & decided).any():
                    i, j = map(int, np.argwhere((nan_r != nan_b) & decided)[0])
                    ctx.fail("resampler.resample_blocks", f"target pixel ({i},{j}) receives a position with chunk size {cs if nan_r[i, j] else ref_cs} but not with "
                             f"{ref_cs if nan_r[i, j] else cs} (exact position col {P[i, j]:.4f}, row {L[i, j]:.4f}; {int((nan_r != nan_b).sum())} pixels differ)",
                             {**inp, "other_chunk_size": ref_cs, "pixel": [i, j]}, {"n": int((nan_r != nan_b).sum())}, tags={"cause": "valid-pattern", "chunk": cs}, size=tgt.size)
                    continue
                both = ~nan_r & ~nan_b
                d = float(np.max(np.abs(ind_r - ind_b)[:, both])) if both.any() else 0.0
                if d > 1e-6:
                    ctx.fail("resampler.resample_blocks", f"positions differ by {d:.3g} px between chunk sizes {ref_cs} and {cs}", {**inp, "other_chunk_size": ref_cs},
                             {"max_diff": float(d)}, tags={"cause": "positions", "chunk": cs}, size=tgt.size)
                for method in vals:
                    if method not in vals_r:
                        continue
                    a, b = vals_r[method], vals[method]
                    if ((np.isnan(a) != np.isnan(b)) & decided).any():
                        idx = tuple(map(int, np.argwhere((np.isnan(a) != np.isnan(b)) & decided)[0]))
                        ctx.fail("resampler.resample_blocks", f"{method}: target index {idx} receives a value under one of chunk sizes {ref_cs}/{cs} only",
                                 {**inp, "method": method, "other_chunk_size": ref_cs, "index": list(idx)}, None, tags={"cause": "valid-pattern-values", "chunk": cs, "method": method}, size=tgt.size)
                        continue
                    if method == "nn":
                        # nearest pixel may legitimately differ only on exact ties; away from them the arrays are identical
                        _, tie = _oracle_values(data_np, P, L, inside, "nn")
                        neq = ~((a == b) | (np.isnan(a) & np.isnan(b))) & ~tie & decided
                    else:
                        neq = (np.abs(np.nan_to_num(a) - np.nan_to_num(b)) > (1e-3 if dtype is np.float32 else 1e-7) * (1 + np.abs(np.nan_to_num(a))) + np.abs(data_np).max() * 2e-5) & decided
                    if neq.any():
                        idx = tuple(map(int, np.argwhere(neq)[0]))
                        ctx.fail("resampler.resample_blocks", f"{method}: value at {idx} is {a[idx]} with chunk size {ref_cs} and {b[idx]} with {cs} ({int(neq.sum())} differ)",
                                 {**inp, "method": method, "other_chunk_size": ref_cs, "index": list(idx)}, {"n": int(neq.sum())},
                                 tags={"cause": "values", "chunk": cs, "method": method}, size=tgt.size)

    # 4. resample_blocks directly with irregular explicit target chunks (1-pixel-thick remainder blocks)
    for label, src, tgt in pairs[:4 if ctx.quick else len(pairs)]:
        P, L = _exact_positions(src, tgt)
        inside, outside = _classify(src, P, L)
        h, w = tgt.shape
        ych = (h - 1, 1) if rng.random() < 0.5 else (1, h - 2, 1)
        xch = (1, w - 1) if rng.random() < 0.5 else (w // 2, w - w // 2 - 1, 1)
        inp = {"pair": label, "source": _area_desc(src), "target": _area_desc(tgt), "target_chunks": [list(ych), list(xch)]}
        with warnings.catch_warnings(), dask.config.set(scheduler="synchronous"):
            warnings.simplefilter("ignore")
            ind_b = resample_blocks(gradient_resampler_indices_block, src, [], tgt, chunk_size=(2, ych, xch), dtype=float).compute()
            ind_1 = resample_blocks(gradient_resampler_indices_block, src, [], tgt, chunk_size=(2, h, w), dtype=float).compute()
        ctx.case("thin-blocks", (label, ych, xch), nontrivial=True, sample={"pair": label, "chunks": [list(ych), list(xch)]})
        ctx.count("areas.thin_blocks")
        nan_b, nan_1 = np.isnan(ind_b[0]), np.isnan(ind_1[0])
        decided = inside | outside
        nan_b = np.where(decided, nan_b, nan_1)
        miss = inside & nan_b
        if miss.any():
            i, j = map(int, np.argwhere(miss)[0])
            ctx.fail("resampler.resample_blocks", f"with one-pixel-thick target blocks, pixel ({i},{j}) inside the source grid (col {P[i, j]:.4f}, row {L[i, j]:.4f}) gets no position "
                     f"({int(miss.sum())} pixels)", {**inp, "pixel": [i, j]}, {"n": int(miss.sum())}, tags={"cause": "thin-missing"}, size=tgt.size)
        elif (nan_b != nan_1).any():
            i, j = map(int, np.argwhere(nan_b != nan_1)[0])
            ctx.fail("resampler.resample_blocks", f"pixel ({i},{j}) receives a position under one block decomposition only (thin blocks vs a single block)",
                     {**inp, "pixel": [i, j]}, {"n": int((nan_b != nan_1).sum())}, tags={"cause": "thin-pattern"}, size=tgt.size)
        elif (~nan_b & ~nan_1).any() and np.max(np.abs(ind_b - ind_1)[:, ~np.isnan(ind_b[0]) & ~nan_1]) > 1e-6:
            ctx.fail("resampler.resample_blocks", "positions differ between thin blocks and a single block", inp, {"max": float(np.nanmax(np.abs(ind_b - ind_1)))},
                     tags={"cause": "thin-positions"}, size=tgt.size)


def run(ctx):
    import traceback
    for suite in (suite_kernel, suite_blocks, suite_areas):
        try:
            suite(ctx)
        except Exception as e:  # noqa: one suite crashing on a changed tree must not hide what the others find
            from core import Infra
            if isinstance(e, Infra):
                raise
            ctx.disagree(suite.__name__, {"exception": f"{type(e).__name__}: {e}"}, "exception while driving the real code", "no exception",
                         note=traceback.format_exc()[-800:])

