"""C08 — EWA maps swath pixels exactly and averages them without inventing values; chunking is invisible."""
import math
import warnings
from fractions import Fraction

import numpy as np

META = {
    "rule": "ll2cr: one case = (target area in any orientation, swath points incl. unprojectable ones) through ewa.ll2cr against the model "
            "(projected coordinates supplied by pyproj) and against the area's own get_array_coordinates_from_projection_coordinates. "
            "cells: one case = (scan geometry cols/rows, rows_per_scan, data with NaN / fill pixels, dtype, weight parameters, mode): the "
            "per-pixel footprints W_p are measured on the real kernel (one valid pixel at a time), then for arbitrary data every grid cell's "
            "(weight sum, accumulation, written value) from fornav_weights_and_sums_wrapper, write_grid_image_single and ewa.fornav is "
            "compared with the model fed with that cell's contribution list in scan order. combine: dask_ewa._combine_fornav / "
            "_average_fornav vs the model. axis: footprint interval under a sub-grid shift. dask: DaskEWAResampler.resample for all output "
            "chunkings and scan-aligned input chunkings vs the one-shot ll2cr+fornav. dask-mixed: the same with the data's row chunking drawn "
            "independently of the geolocation's (uniform / irregular whole-scan chunks, one chunk, numpy on either side, column-split data, a bands "
            "dimension, rows_per_scan from the keyword or lons.attrs); a difference that is exactly the omission of geolocation chunks without a pixel "
            "within one cell of the grid is tagged cause=edge-chunk-dropped. dask-scan-grouping: bow-tie swaths (scan grouping changes the grid), rows_per_scan "
            "keyword = the instrument's scan size / a multiple / a divisor / 0 / not given, next to numpy, dask, DataArray geolocation with or without "
            "attrs['rows_per_scan'], vs one-shot fornav(rows_per_scan=keyword). Non-trivial: at least two contributions in some cell "
            "and at least one invalid pixel, or more than one chunk. Distinct = distinct canonical input.",
    "assumptions": ["the Gaussian weight of a pixel on a cell (ellipse parameters, exp table, float32) is a parameter: measured on the real kernel "
                    "with single-valid-pixel data; what is checked is that every result is the model's combination of those footprints",
                    "float32 accumulation: weight sums / accumulations compared at 2e-5 relative, written values at 1e-4 of the data range; cells whose "
                    "weight sum is within 1e-3 relative of the weight_sum_min threshold are not compared",
                    "the extension module is rebuilt from /repo's C++ sources (_fornav.cpp as generated + _fornav_templates.cpp/.h); _ll2cr and a "
                    "change to a .pyx alone cannot be rebuilt (no Cython)"],
}

F = Fraction


def fr(x):
    return F(float(x))


# -----------------------------------------------------------------------------------------------------------------------
# ll2cr
# -----------------------------------------------------------------------------------------------------------------------

def suite_ll2cr(ctx):
    import pyproj

    from pyresample.ewa import ll2cr
    from pyresample.geometry import AreaDefinition, SwathDefinition
    rng = ctx.rng
    projs = [{"proj": "longlat", "ellps": "WGS84"}, {"proj": "laea", "lat_0": 52, "lon_0": 10, "ellps": "WGS84"},
             {"proj": "stere", "lat_0": 90, "lat_ts": 60, "lon_0": 0, "ellps": "WGS84"}, {"proj": "merc", "lon_0": 0, "ellps": "WGS84"},
             {"proj": "geos", "h": 35785831.0, "lon_0": 0, "a": 6378169.0, "b": 6356583.8}]
    n = 30 if ctx.quick else 200
    for it in range(n):
        proj = rng.choice(projs)
        w, h = rng.randint(2, 12), rng.randint(2, 12)
        if proj["proj"] == "longlat":
            x0, y0 = rng.randint(-40, 40) / 4, rng.randint(30 * 4, 60 * 4) / 4
            dx, dy = rng.choice([0.25, 0.5, 1.0]), rng.choice([0.25, 0.5, 1.0])
        elif proj["proj"] == "geos":
            x0, y0 = rng.uniform(-3e6, 1e6), rng.uniform(-3e6, 1e6)
            dx, dy = rng.choice([50000.0, 200000.0]), rng.choice([50000.0, 200000.0])
        elif proj["proj"] == "stere":
            x0, y0 = rng.uniform(-1e6, 1e6), rng.uniform(-4.5e6, -2e6)
            dx, dy = rng.choice([4000.0, 25000.0]), rng.choice([4000.0, 25000.0])
        elif proj["proj"] == "merc":
            x0, y0 = rng.uniform(-1e6, 2e6), rng.uniform(5e6, 8e6)
            dx, dy = rng.choice([4000.0, 25000.0]), rng.choice([4000.0, 25000.0])
        else:
            x0, y0 = rng.uniform(-5e5, 5e5), rng.uniform(-5e5, 5e5)
            dx, dy = rng.choice([1000.0, 4000.0, 12500.0]), rng.choice([1000.0, 4000.0, 12500.0])
        x1, y1 = x0 + w * dx, y0 + h * dy
        orient = rng.choice(["normal", "normal", "flip-y", "flip-x", "flip-both"])
        ext = [x0, y0, x1, y1]
        if orient in ("flip-y", "flip-both"):
            ext[1], ext[3] = ext[3], ext[1]
        if orient in ("flip-x", "flip-both"):
            ext[0], ext[2] = ext[2], ext[0]
        with warnings.catch_warnings():
            warnings.simplefilter("ignore")
            area = AreaDefinition("a", "a", "a", proj, w, h, tuple(ext))
        # swath points: pixel centres, random points in and around the area, far away points, unprojectable ones
        tr_inv = pyproj.Transformer.from_crs(area.crs, area.crs.geodetic_crs, always_xy=True)
        tr = pyproj.Transformer.from_crs(area.crs.geodetic_crs, area.crs, always_xy=True)
        sr, sc = rng.randint(2, 6), rng.randint(2, 7)
        px = np.array([[rng.uniform(min(x0, x1) - 2.5 * dx, max(x0, x1) + 2.5 * dx) for _ in range(sc)] for _ in range(sr)])
        py = np.array([[rng.uniform(min(y0, y1) - 2.5 * dy, max(y0, y1) + 2.5 * dy) for _ in range(sc)] for _ in range(sr)])
        # some exact pixel centres
        cx, cy = area.get_proj_coords()
        for _ in range(3):
            i, j = rng.randrange(sr), rng.randrange(sc)
            ii, jj = rng.randrange(h), rng.randrange(w)
            px[i, j], py[i, j] = cx[ii, jj], cy[ii, jj]
        with warnings.catch_warnings():
            warnings.simplefilter("ignore")
            lons, lats = tr_inv.transform(px, py)
        lons, lats = np.array(lons, float), np.array(lats, float)
        bad = []
        for _ in range(rng.choice([0, 1, 2])):
            i, j = rng.randrange(sr), rng.randrange(sc)
            lons[i, j], lats[i, j] = rng.choice([(np.nan, np.nan), (1e30, 1e30), (np.inf, np.inf), (10.0, np.nan)])
            bad.append((i, j))
        with warnings.catch_warnings():
            warnings.simplefilter("ignore")
            X, Y = tr.transform(lons, lats)
        X, Y = np.array(X, float), np.array(Y, float)
        inp = {"proj": proj, "width": w, "height": h, "extent": ext, "orientation": orient, "lons": lons.tolist(), "lats": lats.tolist()}
        lons_before = lons.copy()
        with warnings.catch_warnings():
            warnings.simplefilter("ignore")
            cnt, cols, rows = ll2cr(SwathDefinition(lons, lats), area)
        ctx.case("ll2cr", (str(proj), w, h, str(ext), lons.tobytes(), lats.tobytes()), nontrivial=orient != "normal" or bool(bad),
                 sample={"proj": proj["proj"], "orientation": orient, "shape": [sr, sc]})
        ctx.count(f"ll2cr.orient.{orient}")
        ctx.count(f"ll2cr.proj.{proj['proj']}")
        if not np.array_equal(lons, lons_before, equal_nan=True):
            ctx.fail("ewa.ll2cr", "ll2cr(copy=True) modified the swath's longitude array in place", inp, None, tags={"cause": "inplace"}, size=sr * sc)
        toks = []
        for xv, yv in zip(X.ravel(), Y.ravel()):
            toks += ["inf", "inf"] if not (np.isfinite(xv) and np.isfinite(yv)) or xv >= 1e30 else [fr(xv), fr(yv)]
        rep = ctx.M.ask("ll2cr", fr(ext[0]), fr(ext[1]), fr(ext[2]), fr(ext[3]), w, h, sr * sc, *toks).split(" ")
        m_cnt = int(rep[4])
        m_pts = rep[5:]
        # the area's own answer (the property)
        with warnings.catch_warnings(), np.errstate(all="ignore"):
            warnings.simplefilter("ignore")
            ac, ar = area.get_array_coordinates_from_projection_coordinates(X, Y)
        cols, rows = np.asarray(cols, float), np.asarray(rows, float)
        n_in = 0
        for k, tok in enumerate(m_pts):
            i, j = divmod(k, sc)
            gc, gr = cols[i, j], rows[i, j]
            if tok == "fill":
                # a half-valid coordinate pair (lat NaN, lon finite) keeps its finite half: fornav skips a pixel if either is NaN
                if not (np.isnan(gc) or np.isnan(gr)):
                    ctx.disagree("ll2cr", {**inp, "pixel": [i, j]}, [float(gc), float(gr)], "fill", "unprojectable point must not get a usable column/row")
                continue
            mc, mr = (float(F(v)) for v in tok.split(","))
            tol = 1e-9 * (1 + abs(mc) + abs(mr))
            if not (abs(gc - mc) <= tol and abs(gr - mr) <= tol):
                ctx.disagree("ll2cr", {**inp, "pixel": [i, j]}, [float(gc), float(gr)], [mc, mr], "column / row differ from the model")
            if not (abs(gc - ac[i, j]) <= 1e-6 * (1 + abs(ac[i, j])) and abs(gr - ar[i, j]) <= 1e-6 * (1 + abs(ar[i, j]))):
                ctx.fail("ewa.ll2cr", f"{orient} {proj['proj']} area: swath pixel ({i},{j}) gets column/row ({gc:.4f}, {gr:.4f}) but the area itself assigns "
                         f"({ac[i, j]:.4f}, {ar[i, j]:.4f}) to that location", {**inp, "pixel": [i, j]}, None, tags={"cause": "not-area-mapping", "orientation": orient}, size=sr * sc)
                break
            if -1 + 1e-9 < min(gc, gr) and gc < w + 1 - 1e-9 and gr < h + 1 - 1e-9:
                n_in += 1
        # count: compare unless some point sits on the +-1 cell border
        border = any(abs(v - b) < 1e-9 for v, bs in ((cols.ravel(), (-1, w + 1)), (rows.ravel(), (-1, h + 1))) for b in bs for v in v[np.isfinite(v)])
        if not border and cnt != m_cnt:
            ctx.disagree("ll2cr", inp, int(cnt), m_cnt, "points-in-grid count differs")


# -----------------------------------------------------------------------------------------------------------------------
# cells: the accumulation logic on measured footprints
# -----------------------------------------------------------------------------------------------------------------------

def _scan_geometry(rng, srows, scols, gw, gh):
    """fractional grid positions of a small scanning swath (smooth, slightly sheared), some unprojectable pixels"""
    ang = rng.uniform(-0.5, 0.5)
    stepc, stepr = rng.uniform(0.5, 1.6), rng.uniform(0.5, 1.6)
    oc, orr = rng.uniform(-1.5, 1.0), rng.uniform(-1.5, 1.0)
    ii, jj = np.meshgrid(np.arange(srows), np.arange(scols), indexing="ij")
    cols = oc + jj * stepc * math.cos(ang) - ii * stepr * math.sin(ang) + 0.03 * jj * jj
    rows = orr + jj * stepc * math.sin(ang) + ii * stepr * math.cos(ang)
    cols = cols + np.array([[rng.uniform(-0.05, 0.05) for _ in range(scols)] for _ in range(srows)])
    rows = rows + np.array([[rng.uniform(-0.05, 0.05) for _ in range(scols)] for _ in range(srows)])
    if rng.random() < 0.3:
        i, j = rng.randrange(srows), rng.randrange(scols)
        cols[i, j] = rows[i, j] = np.nan
    return cols, rows


def _footprints(wrapper, cols, rows, gshape, rps, kw, dtype):
    """W_p[cell] for every pixel p, measured with single-valid-pixel data (average mode)"""
    srows, scols = cols.shape
    out = np.zeros((srows, scols) + gshape, dtype=np.float64)
    for i in range(srows):
        for j in range(scols):
            d = np.full(cols.shape, np.nan, dtype=dtype)
            d[i, j] = 1.0
            wts = np.zeros(gshape, dtype=np.float32)
            acc = np.zeros(gshape, dtype=np.float32)
            try:
                wrapper(cols, rows, d, wts, acc, np.nan, np.nan, rps, **kw)
            except RuntimeError:
                continue
            out[i, j] = wts
    return out


def suite_cells(ctx):
    from pyresample.ewa import _fornav, fornav
    from pyresample.geometry import AreaDefinition
    rng = ctx.rng
    wrapper = _fornav.fornav_weights_and_sums_wrapper
    n = 14 if ctx.quick else 120
    for it in range(n):
        rps = rng.choice([2, 3, 4])
        srows = rps * rng.choice([1, 2, 3])
        scols = rng.randint(3, 6)
        gw, gh = rng.randint(3, 8), rng.randint(3, 8)
        cr_dtype = rng.choice([np.float64, np.float32])
        cols, rows = _scan_geometry(rng, srows, scols, gw, gh)
        cols, rows = np.ascontiguousarray(cols.astype(cr_dtype)), np.ascontiguousarray(rows.astype(cr_dtype))
        kw = {"weight_count": rng.choice([10000, 100]), "weight_min": rng.choice([0.01, 0.1]), "weight_distance_max": rng.choice([1.0, 1.5]),
              "weight_delta_max": rng.choice([10.0, 2.0]), "weight_sum_min": rng.choice([-1.0, 0.05, 0.5])}
        dtype = rng.choice([np.float32, np.float64])
        fillv = rng.choice([np.nan, -999.0])
        data = np.array([[rng.uniform(-20, 50) for _ in range(scols)] for _ in range(srows)], dtype=dtype)
        inval = np.array([[rng.random() < 0.25 for _ in range(scols)] for _ in range(srows)])
        kind_bad = np.array([[rng.random() < 0.5 for _ in range(scols)] for _ in range(srows)])
        data_in = data.copy()
        data_in[inval & kind_bad] = np.nan
        data_in[inval & ~kind_bad] = fillv
        valid = ~(np.isnan(data_in) | (data_in == fillv))
        constant = rng.random() < 0.2
        if constant:
            data_in = np.where(valid, dtype(12.5), data_in).astype(dtype)
        area = AreaDefinition("g", "g", "g", {"proj": "longlat", "ellps": "WGS84"}, gw, gh, (0.0, 0.0, float(gw), float(gh)))
        W = _footprints(wrapper, cols, rows, (gh, gw), rps, kw, dtype)
        if not W.any():
            ctx.count("cells.no_overlap")
            continue
        inp = {"cols": cols.astype(float).tolist(), "rows": rows.astype(float).tolist(), "cr_dtype": np.dtype(cr_dtype).name, "rows_per_scan": rps,
               "grid": [gh, gw], "data": [[None if np.isnan(v) else float(v) for v in r] for r in data_in], "dtype": np.dtype(dtype).name,
               "fill": None if np.isnan(fillv) else fillv, "kwargs": kw}
        sum_min = kw["weight_min"] if kw["weight_sum_min"] == -1.0 else kw["weight_sum_min"]
        vmin, vmax = (float(data_in[valid].min()), float(data_in[valid].max())) if valid.any() else (0.0, 0.0)
        for mwm in (False, True):
            wts = np.zeros((gh, gw), dtype=np.float32)
            acc = np.zeros((gh, gw), dtype=np.float32)
            try:
                wrapper(cols, rows, data_in, wts, acc, fillv, fillv, rps, maximum_weight_mode=mwm, **kw)
            except RuntimeError:
                continue
            outw = np.full((gh, gw), np.nan, dtype=dtype)
            _fornav.write_grid_image_single(outw, wts, acc, np.nan, weight_sum_min=sum_min, maximum_weight_mode=mwm)
            # the public one-shot entry point (fill handling included)
            try:
                with warnings.catch_warnings():
                    warnings.simplefilter("ignore")
                    # the caller's array may have any memory layout: contiguous, Fortran-ordered, a strided view of a larger array
                    layout = rng.choice(["C", "F", "strided", "reversed"])
                    if layout == "F":
                        d_pub = np.asfortranarray(data_in)
                    elif layout == "strided":
                        big = np.full((srows, 2 * scols + 1), 77.0, dtype=dtype)
                        big[:, 1::2] = data_in
                        d_pub = big[:, 1::2]
                    elif layout == "reversed":
                        d_pub = np.ascontiguousarray(data_in[::-1, ::-1])[::-1, ::-1]
                    else:
                        d_pub = data_in.copy()
                    assert np.array_equal(d_pub, data_in, equal_nan=True)
                    ctx.count(f"cells.public_input_layout.{layout}")
                    cnt_pub, out_pub = fornav(cols, rows, area, d_pub, rows_per_scan=rps, fill=fillv, maximum_weight_mode=mwm, **kw)
                out_pub = np.asarray(out_pub, float)
                if not np.isnan(fillv):
                    out_pub = np.where(out_pub == fillv, np.nan, out_pub)
            except RuntimeError:
                out_pub = None
            n_multi = 0
            for gy in range(gh):
                for gx in range(gw):
                    contrib = [(W[i, j, gy, gx], data_in[i, j] if valid[i, j] else None) for i in range(srows) for j in range(scols) if W[i, j, gy, gx] > 0]
                    if sum(1 for c in contrib if c[1] is not None) >= 2:
                        n_multi += 1
                    toks = []
                    for wv, v in contrib:
                        toks += [fr(wv), "nan" if v is None else fr(v)]
                    rep = ctx.M.ask("cell", mwm, F(sum_min).limit_denominator(10**6), len(contrib), *toks).split(" ")
                    mW, mA = float(F(rep[0])), float(F(rep[1]))
                    mOut = None if rep[2] == "fill" else float(F(rep[2]))
                    cellinp = {**inp, "mode": "max" if mwm else "avg", "public_input_layout": layout, "cell": [gy, gx], "contributions": [[float(a), None if b is None else float(b)] for a, b in contrib]}
                    tolW = 2e-5 * (1 + abs(mW))
                    tolA = 2e-5 * (1 + abs(mA)) + 2e-5 * sum(abs(a * (b or 0)) for a, b in contrib)
                    if abs(wts[gy, gx] - mW) > tolW or abs(acc[gy, gx] - mA) > tolA:
                        ctx.disagree("cells", cellinp, [float(wts[gy, gx]), float(acc[gy, gx])], [mW, mA], "weight sum / accumulation differ from the model's combination of the footprints")
                        continue
                    near_thr = abs(mW - sum_min) <= 1e-3 * sum_min
                    if near_thr:
                        ctx.count("cells.skipped.threshold")
                        continue
                    for name, arr, site in (("write_grid_image_single", outw, "ewa._fornav.write_grid_image_single"), ("ewa.fornav", out_pub, "ewa.fornav")):
                        if arr is None:
                            continue
                        g = float(arr[gy, gx])
                        if mOut is None:
                            if not np.isnan(g):
                                ctx.disagree("cells", {**cellinp, "entry": name}, g, "fill", "value written where the model writes fill")
                            continue
                        if np.isnan(g) or abs(g - mOut) > 1e-4 * (1 + abs(vmax - vmin) + abs(mOut)):
                            # decide with the property itself on the real code
                            if not np.isnan(g) and valid.any() and (g < vmin - 1e-3 * (1 + abs(vmin)) or g > vmax + 1e-3 * (1 + abs(vmax))):
                                ctx.fail(site, f"{'maximum-weight' if mwm else 'average'} mode, input fill {inp['fill']}: grid cell ({gy},{gx}) is {g}, outside the range "
                                         f"[{vmin}, {vmax}] of the valid input pixels", {**cellinp, "entry": name}, {"value": g}, tags={"cause": "out-of-range", "entry": name}, size=srows * scols)
                            else:
                                ctx.disagree("cells", {**cellinp, "entry": name}, g, mOut, "written value differs from the model")
                            continue
                        # property oracles on the real value
                        if not mwm and valid.any() and not (vmin - 1e-3 * (1 + abs(vmin)) <= g <= vmax + 1e-3 * (1 + abs(vmax))):
                            ctx.fail(site, f"average mode: cell ({gy},{gx}) = {g} outside the valid input range [{vmin}, {vmax}]", {**cellinp, "entry": name}, None, tags={"cause": "out-of-range"}, size=srows * scols)
                        if mwm and not any(v is not None and abs(float(v) - g) <= 1e-6 * (1 + abs(g)) for _, v in contrib):
                            ctx.fail(site, f"maximum-weight mode: cell ({gy},{gx}) = {g} is not one of the contributing input values", {**cellinp, "entry": name}, None, tags={"cause": "max-not-input"}, size=srows * scols)
                        if constant and abs(g - 12.5) > 1e-4:
                            ctx.fail(site, f"constant field 12.5 gives {g} in cell ({gy},{gx})", {**cellinp, "entry": name}, None, tags={"cause": "constant"}, size=srows * scols)
            ctx.case("cells", (cols.tobytes(), rows.tobytes(), data_in.tobytes(), str(kw), mwm, rps), nontrivial=n_multi > 0 and bool(inval.any()),
                     sample={"swath": [srows, scols], "grid": [gh, gw], "rps": rps, "mode": "max" if mwm else "avg", "cells_with_2+": n_multi})
            ctx.count(f"cells.mode.{'max' if mwm else 'avg'}")
            ctx.count("cells.cells_with_2plus_contributions", n_multi)
            ctx.count(f"cells.fill.{'nan' if np.isnan(fillv) else 'numeric'}")

    # write_grid_image_single for int8 grids: rounding half away from zero, saturation
    for it in range(20 if ctx.quick else 150):
        gh, gw = 2, 3
        wts = np.array([[rng.choice([0.0, 0.004, 0.25, 0.5, 1.0, 2.0]) for _ in range(gw)] for _ in range(gh)], dtype=np.float32)
        acc = np.array([[rng.choice([-300.0, -7.5, -1.25, 0.0, 0.75, 2.5, 63.5, 400.0]) for _ in range(gw)] for _ in range(gh)], dtype=np.float32)
        mwm = rng.random() < 0.4
        sm = rng.choice([-1.0, 0.01, 0.3])
        out = np.full((gh, gw), -128, dtype=np.int8)
        _fornav.write_grid_image_single(out, wts, acc, np.int8(-128), weight_sum_min=sm, maximum_weight_mode=mwm)
        ctx.case("write-int8", (wts.tobytes(), acc.tobytes(), mwm, sm), nontrivial=True)
        ctx.count("cells.write_int8")
        for gy in range(gh):
            for gx in range(gw):
                rep = ctx.M.ask("writei8", mwm, fr(sm), fr(wts[gy, gx]), fr(acc[gy, gx]))
                exp = -128 if rep == "fill" else int(rep)
                if int(out[gy, gx]) != exp:
                    ctx.disagree("write-int8", {"weight": float(wts[gy, gx]), "accum": float(acc[gy, gx]), "mwm": mwm, "weight_sum_min": sm}, int(out[gy, gx]), exp,
                                 "int8 output differs from the model")


def suite_combine(ctx):
    from pyresample.ewa import dask_ewa as D
    rng = ctx.rng
    for it in range(40 if ctx.quick else 300):
        k = rng.randint(1, 5)
        shape = (2, 3)
        mwm = rng.random() < 0.5
        parts, desc = [], []
        for c in range(k):
            kind = rng.choice(["arr", "arr", "arr", "empty"])
            if kind == "empty":
                parts.append(((shape, 0, np.float32), (shape, 0, np.float32)))
                desc.append("empty")
            else:
                wv = np.array([[rng.choice([0.0, 0.25, 0.5, 0.5, 1.0, 2.0]) for _ in range(shape[1])] for _ in range(shape[0])], dtype=np.float32)
                av = np.where(wv > 0, np.array([[rng.randint(-40, 40) / 4 for _ in range(shape[1])] for _ in range(shape[0])], dtype=np.float32), np.float32(0))
                parts.append((wv, av.astype(np.float32)))
                desc.append([wv.tolist(), av.tolist()])
        res = D._combine_fornav([p if isinstance(p[0], tuple) else (p[0].copy(), p[1].copy()) for p in parts], axis=(0,), keepdims=False, maximum_weight_mode=mwm)
        ctx.case("combine", (str(desc), mwm), nontrivial=k > 1)
        ctx.count(f"combine.mode.{'max' if mwm else 'avg'}")
        arrs = [p for p in parts if not isinstance(p[0], tuple)]
        if isinstance(res[0], tuple) or not arrs:
            if arrs:
                ctx.disagree("combine", {"parts": desc, "mwm": mwm}, "empty placeholder", "arrays", "combine lost the arrays")
            continue
        rw, ra = np.asarray(res[0], float), np.asarray(res[1], float)
        for gy in range(shape[0]):
            for gx in range(shape[1]):
                toks = []
                for p in arrs:
                    toks += [fr(p[0][gy, gx]), fr(p[1][gy, gx])]
                rep = ctx.M.ask("combine", mwm, len(arrs), *toks).split(" ")
                if F(float(rw[gy, gx])) != F(rep[0]) or F(float(ra[gy, gx])) != F(rep[1]):
                    ctx.disagree("combine", {"parts": desc, "mwm": mwm, "cell": [gy, gx]}, [float(rw[gy, gx]), float(ra[gy, gx])], [float(F(rep[0])), float(F(rep[1]))],
                                 "_combine_fornav differs from the model")
    # axis footprint under sub-grid shifts: model-only exhaustive lattice (the theorem axis_subgrid, run as a test of the driver too)
    for it in range(40 if ctx.quick else 300):
        u0, dl = F(rng.randint(-24, 80), 8), F(rng.randint(0, 24), 8)
        nfull = rng.randint(3, 10)
        off = rng.randint(0, nfull - 1)
        n = rng.randint(1, nfull - off)
        full = ctx.M.ask("axis", u0, dl, nfull)
        sub = ctx.M.ask("axis", u0 - off, dl, n)
        fset = set() if full == "none" else set(range(int(full.split(" ")[0]), int(full.split(" ")[1]) + 1))
        sset = set() if sub == "none" else set(range(int(sub.split(" ")[0]), int(sub.split(" ")[1]) + 1))
        ctx.case("axis", (str(u0), str(dl), nfull, off, n), nontrivial=True)
        if {c + off for c in sset} != {c for c in fset if off <= c < off + n}:
            ctx.disagree("axis", {"u0": str(u0), "del": str(dl), "nfull": nfull, "off": off, "n": n}, sorted(sset), sorted(fset), "sub-grid footprint is not the restriction of the full one")


# -----------------------------------------------------------------------------------------------------------------------
# dask resampler vs one-shot
# -----------------------------------------------------------------------------------------------------------------------

def _swath_for(rng, area, srows, scols, tilt):
    """a scanning swath over (and beyond) the area, in lon/lat"""
    import pyproj
    x0, y0, x1, y1 = area.area_extent
    ii, jj = np.meshgrid(np.linspace(-0.15, 1.15, srows), np.linspace(-0.15, 1.15, scols), indexing="ij")
    u = jj + tilt * (ii - 0.5) + 0.05 * np.sin(ii * 5)
    v = ii + 0.08 * (jj - 0.5) ** 2
    X, Y = x0 + u * (x1 - x0), y1 + v * (y0 - y1)
    tr = pyproj.Transformer.from_crs(area.crs, area.crs.geodetic_crs, always_xy=True)
    lons, lats = tr.transform(X, Y)
    return np.asarray(lons, float), np.asarray(lats, float)


def suite_dask(ctx):
    import dask
    import dask.array as da
    import xarray as xr

    from pyresample.ewa import DaskEWAResampler, fornav, ll2cr
    from pyresample.geometry import AreaDefinition, SwathDefinition
    rng = ctx.rng
    laea = {"proj": "laea", "lat_0": 52, "lon_0": 10, "ellps": "WGS84"}
    ll = {"proj": "longlat", "ellps": "WGS84"}
    areas = [("laea", laea, 23, 19, (-230000, -190000, 230000, 190000)), ("longlat", ll, 17, 21, (2.0, 44.0, 19.0, 58.0)),
             ("laea-flip-y", laea, 16, 14, (-160000, 140000, 160000, -140000))]
    n = 3 if ctx.quick else 10
    for it in range(n):
        name, proj, w, h, ext = areas[it % len(areas)]
        with warnings.catch_warnings():
            warnings.simplefilter("ignore")
            area = AreaDefinition(name, name, name, proj, w, h, ext)
        rps = rng.choice([2, 4, 5])
        nscans = rng.choice([3, 4, 6])
        srows, scols = rps * nscans, rng.randint(14, 30)
        lons, lats = _swath_for(rng, area, srows, scols, rng.uniform(-0.2, 0.2))
        dtype = rng.choice([np.float32, np.float64])
        ii, jj = np.meshgrid(np.arange(srows), np.arange(scols), indexing="ij")
        data = (10 + 3 * np.sin(ii * 0.7) + 2 * np.cos(jj * 0.4) + 0.1 * ii).astype(dtype)
        bad = np.array([[rng.random() < 0.08 for _ in range(scols)] for _ in range(srows)])
        data[bad] = np.nan
        kw = {"weight_delta_max": rng.choice([10.0, 3.0]), "weight_distance_max": rng.choice([1.0, 1.4])}
        # an explicit numeric fill value (0 and -999 are both common): marked pixels are invalid input, empty cells carry the fill
        fillv = [None, 0.0, -999.0][it % 3]
        if fillv is not None:
            data = np.where(np.isnan(data), dtype(fillv), data).astype(dtype)
        fkw = {} if fillv is None else {"fill_value": fillv}
        for mwm in (False, True):
            with warnings.catch_warnings():
                warnings.simplefilter("ignore")
                cnt, cols, rows = ll2cr(SwathDefinition(lons.copy(), lats.copy()), area)
                try:
                    _, ref = fornav(cols, rows, area, data.copy(), rows_per_scan=rps, maximum_weight_mode=mwm, fill=fillv, **kw)
                except RuntimeError:
                    continue
            ref = np.asarray(ref, float)
            if fillv is not None:
                ref = np.where(ref == fillv, np.nan, ref)
            vdat = data[~bad]
            vmin, vmax = float(vdat.min()), float(vdat.max())
            inp0 = {"area": {"proj": proj, "width": w, "height": h, "extent": list(ext)}, "swath": [srows, scols], "rows_per_scan": rps, "dtype": np.dtype(dtype).name,
                    "mode": "max" if mwm else "avg", "kwargs": kw, "fill_value": fillv, "lons_checksum": float(lons.sum()), "nan_pixels": int(bad.sum())}
            in_chunkings = [rps * nscans, rps, rps * 2]
            irregular = ((2, 5, h - 7), (3, w - 7, 4))                        # three unequal chunks per axis
            out_chunkings = ([(h, w), (5, 7), (h, 4), (3, w), ((1, h - 1), (w - 2, 2)), irregular, (1, 1)] if not ctx.quick
                             else [(h, w), (5, 7), ((1, h - 1), (w - 2, 2)), irregular, (4, 3)])
            for inc in in_chunkings:
                if srows % inc:
                    continue
                for outc in out_chunkings:
                    if inc != in_chunkings[0] and outc not in out_chunkings[:2]:
                        continue
                    for persist in ((False, True) if outc == out_chunkings[1] else (False,)):
                        with warnings.catch_warnings(), dask.config.set(scheduler="synchronous"):
                            warnings.simplefilter("ignore")
                            sw = SwathDefinition(xr.DataArray(da.from_array(lons, chunks=(inc, scols)), dims=("y", "x"), attrs={"rows_per_scan": rps}),
                                                 xr.DataArray(da.from_array(lats, chunks=(inc, scols)), dims=("y", "x")))
                            rs = DaskEWAResampler(sw, area)
                            xd = xr.DataArray(da.from_array(data, chunks=(inc, scols)), dims=("y", "x"))
                            res = rs.resample(xd, rows_per_scan=rps, chunks=outc, maximum_weight_mode=mwm, persist=persist, **fkw, **kw)
                            got = np.asarray(res.values, float)
                            # the same resampler again (cached ll2cr results are reused)
                            got2 = np.asarray(rs.resample(xd, rows_per_scan=rps, chunks=outc, maximum_weight_mode=mwm, **fkw, **kw).values, float)
                        if fillv is not None:
                            got, got2 = np.where(got == fillv, np.nan, got), np.where(got2 == fillv, np.nan, got2)
                        inp = {**inp0, "input_chunk_rows": inc, "output_chunks": str(outc), "persist": persist}
                        nblocks = (1 if isinstance(outc[0], int) and outc[0] >= h else 2)
                        ctx.case("dask", (name, lons.tobytes(), data.tobytes(), mwm, inc, str(outc), persist, str(kw)), nontrivial=True,
                                 sample={"area": name, "in": inc, "out": str(outc), "mode": inp0["mode"]})
                        ctx.count(f"dask.mode.{inp0['mode']}")
                        if got.shape != ref.shape:
                            ctx.fail("ewa.DaskEWAResampler.resample", f"result shape {got.shape}, one-shot {ref.shape}", inp, None, tags={"cause": "shape"}, size=w * h)
                            continue
                        if not np.array_equal(got, got2, equal_nan=True):
                            ctx.fail("ewa.DaskEWAResampler.resample", "resampling the same data twice with the same resampler gives different grids", inp,
                                     {"n_diff": int((~((got == got2) | (np.isnan(got) & np.isnan(got2)))).sum())}, tags={"cause": "second-resample"}, size=w * h)
                        pat = np.isnan(got) != np.isnan(ref)
                        if pat.any():
                            # a cell may sit on the weight_sum_min threshold: only a pattern difference with a clear weight is a failure; decide by value plausibility
                            idx = tuple(map(int, np.argwhere(pat)[0]))
                            ctx.fail("ewa.DaskEWAResampler.resample", f"grid cell {idx}: dask result {'fill' if np.isnan(got[idx]) else got[idx]} but one-shot ll2cr+fornav gives "
                                     f"{'fill' if np.isnan(ref[idx]) else ref[idx]} ({int(pat.sum())} cells)", inp, {"n": int(pat.sum())}, tags={"cause": "pattern", "mode": inp0["mode"]}, size=w * h)
                            continue
                        both = ~np.isnan(ref)
                        if mwm:
                            dif = both & (got != ref)
                        else:
                            dif = both & (np.abs(np.where(both, got - ref, 0)) > 2e-4 * (1 + np.abs(np.where(both, ref, 0))))
                        if dif.any():
                            idx = tuple(map(int, np.argwhere(dif)[0]))
                            ctx.fail("ewa.DaskEWAResampler.resample", f"grid cell {idx}: dask {got[idx]} vs one-shot {ref[idx]} ({int(dif.sum())} cells differ)", inp,
                                     {"n": int(dif.sum())}, tags={"cause": "values", "mode": inp0["mode"]}, size=w * h)
                        if both.any() and (np.nanmin(got) < vmin - 1e-3 or np.nanmax(got) > vmax + 1e-3):
                            ctx.fail("ewa.DaskEWAResampler.resample", f"values [{np.nanmin(got)}, {np.nanmax(got)}] leave the input range [{vmin}, {vmax}]", inp, None,
                                     tags={"cause": "out-of-range"}, size=w * h)


def _row_chunks(rng, srows, rps, kind):
    """a scan-aligned row chunking of `srows` rows: every chunk is a whole number of scans"""
    nscans = srows // rps
    if kind == "one":
        return (srows,)
    if kind == "uniform":                           # k scans per chunk (the last chunk may be shorter, still whole scans)
        k = rng.randint(1, max(1, nscans - 1))
        return tuple(min(k * rps, srows - r) for r in range(0, srows, k * rps))
    parts, left = [], nscans                        # irregular: unequal whole-scan chunks
    while left:
        k = min(left, rng.choice([1, 1, 2, 3, 5]))
        parts.append(k * rps)
        left -= k
    return tuple(parts)


def suite_dask_mixed(ctx):
    """DaskEWAResampler when the data array is chunked differently from the swath's longitude / latitude arrays (all chunkings scan
    aligned), is a plain numpy array next to dask-backed geolocation (or the reverse), is split along the columns, or carries a 'bands'
    dimension: the grid must be the one-shot ll2cr + fornav grid of the same pixels."""
    import dask
    import dask.array as da
    import xarray as xr

    from pyresample.ewa import DaskEWAResampler, fornav, ll2cr
    from pyresample.geometry import AreaDefinition, SwathDefinition
    rng = ctx.rng
    site = "ewa.DaskEWAResampler.resample"
    laea = {"proj": "laea", "lat_0": 52, "lon_0": 10, "ellps": "WGS84"}
    ll = {"proj": "longlat", "ellps": "WGS84"}
    lcc = {"proj": "lcc", "lat_0": 25, "lat_1": 25, "lon_0": -95, "datum": "WGS84"}
    areas = [("laea", laea, 23, 19, (-230000, -190000, 230000, 190000)), ("longlat", ll, 17, 21, (2.0, 44.0, 19.0, 58.0)),
             ("lcc", lcc, 20, 26, (-150000, -200000, 150000, 200000)), ("laea-flip-y", laea, 16, 14, (-160000, 140000, 160000, -140000))]
    n = 4 if ctx.quick else 16
    for it in range(n):
        name, proj, w, h, ext = areas[it % len(areas)]
        with warnings.catch_warnings():
            warnings.simplefilter("ignore")
            area = AreaDefinition(name, name, name, proj, w, h, ext)
        rps = rng.choice([2, 4, 5, 10])
        nscans = rng.choice([4, 6, 8, 9])
        srows, scols = rps * nscans, rng.randint(14, 30)
        lons, lats = _swath_for(rng, area, srows, scols, rng.uniform(-0.2, 0.2))
        lons, lats = np.ascontiguousarray(lons), np.ascontiguousarray(lats)
        dtype = rng.choice([np.float32, np.float64])
        ii, jj = np.meshgrid(np.arange(srows), np.arange(scols), indexing="ij")
        # every scan line has its own level: pixels combined with the locations of another part of the swath are clearly visible
        data = (5.0 * ii + 2 * np.cos(jj * 0.4)).astype(dtype)
        bad = np.array([[rng.random() < 0.06 for _ in range(scols)] for _ in range(srows)])
        data[bad] = np.nan
        data = np.ascontiguousarray(data)
        vdat = data[~bad]
        vmin, vmax = float(vdat.min()), float(vdat.max())
        kw = {"weight_delta_max": rng.choice([10.0, 3.0]), "weight_distance_max": rng.choice([1.0, 1.4])}
        refs = {}
        for mwm in (False, True):
            with warnings.catch_warnings():
                warnings.simplefilter("ignore")
                _, cols, rows = ll2cr(SwathDefinition(lons.copy(), lats.copy()), area)
                try:
                    _, ref = fornav(cols, rows, area, data.copy(), rows_per_scan=rps, maximum_weight_mode=mwm, **kw)
                except RuntimeError:
                    continue
            refs[mwm] = np.asarray(ref, float)
        n_layouts = 4 if ctx.quick else 8
        for li in range(n_layouts):
            mwm = bool(li % 2)
            if mwm not in refs:
                continue
            ref = refs[mwm]
            geo_kind = rng.choice(["uniform", "uniform", "irregular", "one", "numpy"])
            data_kind = rng.choice(["uniform", "uniform", "irregular", "one", "numpy", "colsplit", "bands"])
            if geo_kind == "numpy" and data_kind == "numpy":
                data_kind = "uniform"
            gch = None if geo_kind == "numpy" else _row_chunks(rng, srows, rps, geo_kind)
            if data_kind == "numpy":
                dch = None
            else:
                dch = _row_chunks(rng, srows, rps, data_kind if data_kind in ("uniform", "irregular", "one") else "uniform")
                if li < 2 and gch is not None and dch == gch:
                    # make sure that every geometry sees a data chunking that differs from the geolocation's
                    dch = _row_chunks(rng, srows, rps, "irregular" if len(gch) == 1 or len(set(gch)) == 1 else "one")
            cch = (scols,)
            if data_kind == "colsplit":
                c0 = rng.randint(1, scols - 1)
                cch = (c0, scols - c0)
            rps_from = rng.choice(["keyword", "lons.attrs"]) if gch is not None else "keyword"
            outc = rng.choice([(h, w), (5, 7), ((1, h - 1), (w - 2, 2)), (4, 3)])
            inp = {"area": {"proj": proj, "width": w, "height": h, "extent": list(ext)}, "swath": [srows, scols], "rows_per_scan": rps,
                   "dtype": np.dtype(dtype).name, "mode": "max" if mwm else "avg", "kwargs": kw, "lons_checksum": float(lons.sum()),
                   "nan_pixels": int(bad.sum()), "geolocation_row_chunks": "numpy" if gch is None else list(gch),
                   "data_row_chunks": "numpy" if dch is None else list(dch), "data_col_chunks": list(cch), "data_kind": data_kind,
                   "rows_per_scan_from": rps_from, "output_chunks": str(outc)}
            differs = (gch is None) != (dch is None) or (gch is not None and tuple(gch) != tuple(dch)) or len(cch) > 1
            ctx.case("dask-mixed", (name, lons.tobytes(), data.tobytes(), mwm, str(gch), str(dch), str(cch), data_kind, str(outc), str(kw)),
                     nontrivial=differs, sample={"area": name, "geo": inp["geolocation_row_chunks"], "data": inp["data_row_chunks"], "mode": inp["mode"]})
            ctx.count(f"dask_mixed.geo.{geo_kind}")
            ctx.count(f"dask_mixed.data.{data_kind}")
            ctx.count("dask_mixed.chunkings_differ" if differs else "dask_mixed.chunkings_same")
            try:
                with warnings.catch_warnings(), dask.config.set(scheduler="synchronous"):
                    warnings.simplefilter("ignore")
                    if gch is None:
                        sw = SwathDefinition(lons.copy(), lats.copy())
                    else:
                        attrs = {"rows_per_scan": rps} if rps_from == "lons.attrs" else {}
                        sw = SwathDefinition(xr.DataArray(da.from_array(lons, chunks=(gch, (scols,))), dims=("y", "x"), attrs=attrs),
                                             xr.DataArray(da.from_array(lats, chunks=(gch, (scols,))), dims=("y", "x")))
                    rs = DaskEWAResampler(sw, area)
                    if data_kind == "bands":
                        # two bands: the field and its mirror image (same NaN pixels), each with its own one-shot reference
                        stack = np.ascontiguousarray(np.stack([data, (vmin + vmax) - data]).astype(dtype))
                        _, ref_b = fornav(cols, rows, area, stack[1].copy(), rows_per_scan=rps, maximum_weight_mode=mwm, **kw)
                        ref_b = np.asarray(ref_b, float)
                        xd = xr.DataArray(da.from_array(stack, chunks=((1, 1), dch, cch)), dims=("bands", "y", "x"), coords={"bands": ["a", "b"]})
                    elif dch is None:
                        xd = data.copy()
                    else:
                        xd = xr.DataArray(da.from_array(data, chunks=(dch, cch)), dims=("y", "x"))
                    rkw = {} if rps_from == "lons.attrs" else {"rows_per_scan": rps}
                    res = rs.resample(xd, chunks=outc, maximum_weight_mode=mwm, **rkw, **kw)
                    got_all = np.asarray(res.values if hasattr(res, "values") else res, float)
            except Exception as e:  # noqa
                ctx.fail(site, f"raised {type(e).__name__}: {str(e)[:200]} (geolocation row chunks {inp['geolocation_row_chunks']}, data row chunks "
                         f"{inp['data_row_chunks']}); one-shot ll2cr+fornav resamples the same pixels", inp, None, tags={"cause": "exception", "mode": inp["mode"]}, size=w * h)
                continue
            def dropped_chunks_explain(got, band_data, tol):
                """Attribution only (the verdict is already 'differs from one-shot'): is the dask grid the one-shot grid of the swath WITHOUT the
                geolocation chunks that have no pixel within one cell of the grid (ll2cr count 0)?  The dask path skips such chunks although
                the footprints of their pixels can still reach the cells at the edge of the grid."""
                g = srows if gch is None else gch[0]
                c2, r2, dropped = np.array(cols, copy=True), np.array(rows, copy=True), []
                for r0 in range(0, srows, g):
                    with warnings.catch_warnings():
                        warnings.simplefilter("ignore")
                        n_in = ll2cr(SwathDefinition(lons[r0:r0 + g].copy(), lats[r0:r0 + g].copy()), area)[0]
                    if n_in == 0:
                        c2[r0:r0 + g] = np.nan
                        r2[r0:r0 + g] = np.nan
                        dropped.append([r0, min(r0 + g, srows)])
                if not dropped:
                    return None
                try:
                    with warnings.catch_warnings():
                        warnings.simplefilter("ignore")
                        _, alt = fornav(c2, r2, area, band_data.copy(), rows_per_scan=rps, maximum_weight_mode=mwm, **kw)
                except RuntimeError:
                    return None
                alt = np.asarray(alt, float)
                if alt.shape != got.shape or (np.isnan(alt) != np.isnan(got)).any():
                    return None
                ok = ~np.isnan(alt)
                t = tol if np.isscalar(tol) else 2e-4 * (1 + np.abs(np.where(ok, alt, 0)))
                return dropped if not (ok & (np.abs(np.where(ok, got - alt, 0)) > t)).any() else None

            pairs = [("", got_all, ref, data)] if data_kind != "bands" else \
                [(" (band a)", got_all[0], ref, data), (" (band b)", got_all[1] if got_all.ndim == 3 and got_all.shape[0] == 2 else got_all, ref_b, stack[1])]
            for tag, got, want, band_data in pairs:
                if got.shape != want.shape:
                    ctx.fail(site, f"result shape {got_all.shape}, one-shot {ref.shape}{tag}", inp, None, tags={"cause": "shape"}, size=w * h)
                    break
                pat = np.isnan(got) != np.isnan(want)
                if pat.any():
                    idx = tuple(map(int, np.argwhere(pat)[0]))
                    dropped = dropped_chunks_explain(got, band_data, 0.0 if mwm else None)
                    ctx.fail(site, f"grid cell {idx}{tag}: dask result {'fill' if np.isnan(got[idx]) else got[idx]} but one-shot ll2cr+fornav gives "
                             f"{'fill' if np.isnan(want[idx]) else want[idx]} ({int(pat.sum())} cells)"
                             + (f"; the dask grid is the one-shot grid without the swath rows {dropped}: chunks with no pixel within one cell of the grid are skipped, "
                                "their footprints reach it" if dropped else ""), {**inp, "skipped_rows": dropped}, {"n": int(pat.sum())},
                             tags={"cause": "edge-chunk-dropped" if dropped else "pattern", "mode": inp["mode"]}, size=w * h)
                    break
                both = ~np.isnan(want)
                tol = 0.0 if mwm else 2e-4 * (1 + np.abs(np.where(both, want, 0)))     # maximum-weight mode copies input values: exact
                dif = both & (np.abs(np.where(both, got - want, 0)) > tol)
                if dif.any():
                    idx = tuple(map(int, np.argwhere(dif)[0]))
                    dropped = dropped_chunks_explain(got, band_data, 0.0 if mwm else None)
                    ctx.fail(site, f"grid cell {idx}{tag}: dask {got[idx]} vs one-shot {want[idx]} ({int(dif.sum())} cells differ; geolocation row chunks "
                             f"{inp['geolocation_row_chunks']}, data row chunks {inp['data_row_chunks']})"
                             + (f"; the dask grid is the one-shot grid without the swath rows {dropped}: chunks with no pixel within one cell of the grid are skipped, "
                                "their footprints reach it" if dropped else ""), {**inp, "skipped_rows": dropped}, {"n": int(dif.sum())},
                             tags={"cause": "edge-chunk-dropped" if dropped else "values", "mode": inp["mode"]}, size=w * h)
                    break
                if both.any() and (np.nanmin(got) < vmin - 1e-3 * (1 + abs(vmin)) or np.nanmax(got) > vmax + 1e-3 * (1 + abs(vmax))):
                    ctx.fail(site, f"values [{np.nanmin(got)}, {np.nanmax(got)}]{tag} leave the input range [{vmin}, {vmax}]", inp, None,
                             tags={"cause": "out-of-range"}, size=w * h)
                    break


def _bowtie_swath(rng, area, scan, nscans, scols):
    """a whisk-broom scanner's swath over (and a little beyond) the area, in lon/lat: `nscans` scans of `scan` detector rows; every scan
    grows off-nadir and overlaps its neighbours there (bow-tie), the scan lines are curved and the columns are unevenly spaced, so that
    the geometry is not an affine function of (row, column) and the EWA ellipse parameters depend on how rows are grouped into scans"""
    import pyproj
    x0, y0, x1, y1 = area.area_extent
    c = np.linspace(-1.0, 1.0, scols)
    sidx, tidx = np.divmod(np.arange(scan * nscans), scan)
    lo, hi = rng.uniform(-0.12, 0.02), rng.uniform(0.98, 1.12)
    centre = lo + (sidx + 0.5) / nscans * (hi - lo)                     # one scan per 1/nscans of the grid height
    offset = (tidx - (scan - 1) / 2.0) / scan * (hi - lo) / nscans      # detector rows inside the scan
    growth = 1.0 + rng.uniform(0.8, 2.2) * c ** 2                       # scan height grows off-nadir
    v = centre[:, None] + offset[:, None] * growth[None, :] + rng.uniform(-0.12, 0.12) * c[None, :] ** 2
    u = 0.5 + rng.uniform(0.5, 0.62) * (c + rng.uniform(0.1, 0.4) * c ** 3)[None, :] + rng.uniform(-0.15, 0.15) * (v - 0.5)
    X, Y = x0 + u * (x1 - x0), y1 + v * (y0 - y1)
    tr = pyproj.Transformer.from_crs(area.crs, area.crs.geodetic_crs, always_xy=True)
    lons, lats = tr.transform(X, Y)
    return np.ascontiguousarray(np.asarray(lons, float)), np.ascontiguousarray(np.asarray(lats, float))


def _edge_chunks_explain(lons, lats, area, cols, rows, data, chunk_rows, rps, mwm, kw, got):
    """Attribution only (finding F34; the verdict 'differs from one-shot' is already in): is `got` the one-shot grid of the swath WITHOUT
    the geolocation chunks (of `chunk_rows` rows) that have no pixel within one cell of the grid?  -> the dropped row ranges or None"""
    from pyresample.ewa import fornav, ll2cr
    from pyresample.geometry import SwathDefinition
    srows = lons.shape[0]
    c2, r2, dropped = np.array(cols, copy=True), np.array(rows, copy=True), []
    for r0 in range(0, srows, chunk_rows):
        with warnings.catch_warnings():
            warnings.simplefilter("ignore")
            n_in = ll2cr(SwathDefinition(lons[r0:r0 + chunk_rows].copy(), lats[r0:r0 + chunk_rows].copy()), area)[0]
        if n_in == 0:
            c2[r0:r0 + chunk_rows] = np.nan
            r2[r0:r0 + chunk_rows] = np.nan
            dropped.append([r0, min(r0 + chunk_rows, srows)])
    if not dropped:
        return None
    try:
        with warnings.catch_warnings():
            warnings.simplefilter("ignore")
            _, alt = fornav(c2, r2, area, data.copy(), rows_per_scan=rps, maximum_weight_mode=mwm, **kw)
    except RuntimeError:
        return None
    alt = np.asarray(alt, float)
    if alt.shape != got.shape or (np.isnan(alt) != np.isnan(got)).any():
        return None
    ok = ~np.isnan(alt)
    t = 0.0 if mwm else 2e-4 * (1 + np.abs(np.where(ok, alt, 0)))
    return dropped if not (ok & (np.abs(np.where(ok, got - alt, 0)) > t)).any() else None


def suite_dask_scan_grouping(ctx):
    """DaskEWAResampler.resample(data, rows_per_scan=R) on a real scanner geometry (bow-tie scans, curved scan lines), where the grid
    depends on how the rows are grouped into scans: R is the instrument's scan size, a multiple or a divisor of it, or 0 (the whole swath
    as one scan), whatever the geolocation says about itself - numpy / dask / DataArray lon/lats, DataArrays whose attrs carry the
    instrument's rows_per_scan (on the longitudes, or on both), or no keyword at all (then the attrs decide).  The grid must be the
    one-shot ll2cr + fornav(rows_per_scan=R) grid; a constant field stays constant and values stay within the input range."""
    import dask
    import dask.array as da
    import xarray as xr

    from pyresample.ewa import DaskEWAResampler, fornav, ll2cr
    from pyresample.geometry import AreaDefinition, SwathDefinition
    rng = ctx.rng
    site = "ewa.DaskEWAResampler.resample"
    laea = {"proj": "laea", "lat_0": 52, "lon_0": 10, "ellps": "WGS84"}
    areas = [("laea", laea, 34, 40, (-340000, -400000, 340000, 400000)), ("longlat", {"proj": "longlat", "ellps": "WGS84"}, 30, 36, (2.0, 40.0, 17.0, 58.0)),
             ("eqc", {"proj": "eqc", "lon_0": -90, "datum": "WGS84"}, 35, 45, (-600000, 2450000, 600000, 3350000)),
             ("lcc", {"proj": "lcc", "lat_0": 25, "lat_1": 25, "lon_0": -95, "datum": "WGS84"}, 28, 38, (-280000, -380000, 280000, 380000))]
    n = 4 if ctx.quick else 24
    for it in range(n):
        name, proj, w, h, ext = areas[it % len(areas)]
        with warnings.catch_warnings():
            warnings.simplefilter("ignore")
            area = AreaDefinition(name, name, name, proj, w, h, ext)
        scan = rng.choice([4, 6, 10])                                    # the instrument's scan size
        nscans = rng.choice([4, 6, 8])
        srows, scols = scan * nscans, rng.randint(16, 30)
        lons, lats = _bowtie_swath(rng, area, scan, nscans, scols)
        dtype = rng.choice([np.float32, np.float64])
        ii, jj = np.meshgrid(np.arange(srows), np.arange(scols), indexing="ij")
        if rng.random() < 0.5:
            data = (5.0 * ii + 2 * np.cos(jj * 0.4)).astype(dtype)
        else:
            data = np.array([[rng.random() for _ in range(scols)] for _ in range(srows)]).astype(dtype)
        bad = np.array([[rng.random() < 0.05 for _ in range(scols)] for _ in range(srows)])
        data[bad] = np.nan
        data = np.ascontiguousarray(data)
        vmin, vmax = float(data[~bad].min()), float(data[~bad].max())
        const = np.where(bad, np.nan, 7.25).astype(dtype)
        kw = {"weight_delta_max": rng.choice([10.0, 4.0]), "weight_distance_max": rng.choice([1.0, 1.4])}
        with warnings.catch_warnings():
            warnings.simplefilter("ignore")
            _, cols, rows = ll2cr(SwathDefinition(lons.copy(), lats.copy()), area)
        requests = [scan, 2 * scan, 0, srows, scan // 2, None]            # the keyword; None: not given
        refs = {}
        for mwm in (False, True):
            for req in requests:
                rps = scan if req is None else (req or srows)
                if (rps, mwm) in refs:
                    continue
                try:
                    with warnings.catch_warnings():
                        warnings.simplefilter("ignore")
                        refs[(rps, mwm)] = np.asarray(fornav(cols, rows, area, data.copy(), rows_per_scan=rps, maximum_weight_mode=mwm, **kw)[1], float)
                except RuntimeError:
                    refs[(rps, mwm)] = None
        n_layouts = 8 if ctx.quick else 16
        for li in range(n_layouts):
            mwm = bool(li % 2)
            geo_kind = ["xarray+attrs", "xarray+attrs", "xarray+attrs-both", "xarray", "dask", "numpy", "xarray+attrs", "xarray+attrs-both"][li % 8]
            req = requests[(li // 2 + it) % 5] if li % 8 < 6 or not geo_kind.startswith("xarray+attrs") else None
            if req is None and not geo_kind.startswith("xarray+attrs"):
                req = scan
            rps = scan if req is None else (req or srows)
            ref = refs[(rps, mwm)]
            if ref is None:
                continue
            # geolocation chunks: whole multiples of both the instrument's and the requested scan size
            unit = rps if rps % scan == 0 else scan
            gch_rows = srows if geo_kind == "numpy" else unit * rng.choice([k for k in (1, 2, 3, 4) if srows % (unit * k) == 0])
            eff_rows = gch_rows if gch_rows % rps == 0 else srows          # (the resampler re-chunks geolocation that is not aligned to the request)
            dch_rows = rng.choice([gch_rows, srows, unit])
            outc = rng.choice([(h, w), (7, 9), ((1, h - 1), (w - 2, 2)), (16, 12)])
            attrs_scan = scan if geo_kind.startswith("xarray+attrs") else None
            inp = {"area": {"proj": proj, "width": w, "height": h, "extent": list(ext)}, "swath": [srows, scols], "instrument_scan_rows": scan,
                   "geolocation": geo_kind, "lons.attrs.rows_per_scan": attrs_scan, "rows_per_scan_keyword": "not given" if req is None else req,
                   "scan_rows_expected": rps, "dtype": np.dtype(dtype).name, "mode": "max" if mwm else "avg", "kwargs": kw,
                   "lons_checksum": float(lons.sum()), "nan_pixels": int(bad.sum()), "geolocation_chunk_rows": "numpy" if geo_kind == "numpy" else gch_rows,
                   "data_chunk_rows": dch_rows, "output_chunks": str(outc)}
            ref_instr = refs.get((scan, mwm))
            matters = ref_instr is not None and rps != scan and bool(
                (np.isnan(ref_instr) != np.isnan(ref)).any() or np.nanmax(np.abs(np.where(np.isnan(ref) | np.isnan(ref_instr), 0, ref - ref_instr))) > 1e-3 * (1 + abs(vmax - vmin)))
            conflict = attrs_scan is not None and req is not None and rps != attrs_scan
            ctx.case("dask-scan-grouping", (name, lons.tobytes(), data.tobytes(), mwm, geo_kind, str(req), gch_rows, dch_rows, str(outc), str(kw)),
                     nontrivial=(conflict and matters) or gch_rows != srows, sample={"area": name, "geo": geo_kind, "scan": scan, "keyword": inp["rows_per_scan_keyword"], "mode": inp["mode"]})
            ctx.count(f"dask_scan_grouping.geo.{geo_kind}")
            ctx.count("dask_scan_grouping.keyword." + ("none" if req is None else "instrument" if rps == scan else "whole-swath" if rps == srows else "other-grouping"))
            if conflict:
                ctx.count("dask_scan_grouping.keyword_differs_from_attrs." + ("grid_depends_on_grouping" if matters else "same_grid_either_way"))
            try:
                with warnings.catch_warnings(), dask.config.set(scheduler="synchronous"):
                    warnings.simplefilter("ignore")

                    def geo():
                        if geo_kind == "numpy":
                            return SwathDefinition(lons.copy(), lats.copy())
                        dl, dt = da.from_array(lons, chunks=(gch_rows, scols)), da.from_array(lats, chunks=(gch_rows, scols))
                        if geo_kind == "dask":
                            return SwathDefinition(dl, dt)
                        a_lon = {"rows_per_scan": scan} if attrs_scan is not None else {}
                        a_lat = {"rows_per_scan": scan} if geo_kind == "xarray+attrs-both" else {}
                        return SwathDefinition(xr.DataArray(dl, dims=("y", "x"), attrs=a_lon), xr.DataArray(dt, dims=("y", "x"), attrs=a_lat))
                    rkw = {} if req is None else {"rows_per_scan": req}
                    xd = xr.DataArray(da.from_array(data, chunks=(dch_rows, scols)), dims=("y", "x"))
                    res = DaskEWAResampler(geo(), area).resample(xd, chunks=outc, maximum_weight_mode=mwm, **rkw, **kw)
                    got = np.asarray(res.values if hasattr(res, "values") else res, float)
                    got_c = None
                    if li % 4 == 0:
                        res_c = DaskEWAResampler(geo(), area).resample(const.copy(), chunks=outc, maximum_weight_mode=mwm, **rkw, **kw)
                        got_c = np.asarray(res_c.values if hasattr(res_c, "values") else res_c, float)
            except Exception as e:  # noqa
                ctx.fail(site, f"raised {type(e).__name__}: {str(e)[:200]} (rows_per_scan keyword {inp['rows_per_scan_keyword']}, lons.attrs {attrs_scan}); one-shot ll2cr+fornav "
                         "resamples the same pixels", inp, None, tags={"cause": "exception", "mode": inp["mode"]}, size=w * h)
                continue
            hint = (f"; rows_per_scan={req} was asked for while lons.attrs['rows_per_scan'] = {attrs_scan}" if conflict else "")
            if got.shape != ref.shape:
                ctx.fail(site, f"result shape {got.shape}, one-shot {ref.shape}", inp, None, tags={"cause": "shape"}, size=w * h)
                continue
            pat = np.isnan(got) != np.isnan(ref)
            both = ~np.isnan(ref) & ~np.isnan(got)
            tol = 0.0 if mwm else 2e-4 * (1 + np.abs(np.where(both, ref, 0)))     # maximum-weight mode copies input values: exact
            dif = both & (np.abs(np.where(both, got - ref, 0)) > tol)
            if pat.any() or dif.any():
                dropped = _edge_chunks_explain(lons, lats, area, cols, rows, data, eff_rows, rps, mwm, kw, got)
                # which grouping does the result follow instead?  (description only)
                follows = [g_ for (g_, m_), r_ in refs.items() if m_ == mwm and g_ != rps and r_ is not None and not (np.isnan(r_) != np.isnan(got)).any()
                           and not (np.abs(np.where(np.isnan(r_), 0, got - r_)) > (0.0 if mwm else 2e-4 * (1 + np.abs(np.where(np.isnan(r_), 0, r_))))).any()]
                idx = tuple(map(int, np.argwhere(pat if pat.any() else dif)[0]))
                ctx.fail(site, f"grid cell {idx}: dask result {'fill' if np.isnan(got[idx]) else got[idx]} but one-shot ll2cr+fornav(rows_per_scan={rps}) gives "
                         f"{'fill' if np.isnan(ref[idx]) else ref[idx]} ({int(pat.sum())} cells differ in fill/valid state, {int(dif.sum())} in value)" + hint
                         + (f"; the dask grid is the one-shot grid for rows_per_scan={follows[0]}" if follows else "")
                         + (f"; the dask grid is the one-shot grid without the swath rows {dropped}: chunks with no pixel within one cell of the grid are skipped, "
                            "their footprints reach it" if dropped else ""), {**inp, "skipped_rows": dropped}, {"n_pattern": int(pat.sum()), "n_values": int(dif.sum())},
                         tags={"cause": "edge-chunk-dropped" if dropped else ("pattern" if pat.any() else "values"), "mode": inp["mode"]}, size=w * h)
                continue
            if both.any() and (np.nanmin(got) < vmin - 1e-3 * (1 + abs(vmin)) or np.nanmax(got) > vmax + 1e-3 * (1 + abs(vmax))):
                ctx.fail(site, f"values [{np.nanmin(got)}, {np.nanmax(got)}] leave the input range [{vmin}, {vmax}]", inp, None, tags={"cause": "out-of-range"}, size=w * h)
            if got_c is not None and (~np.isnan(got_c)).any() and np.nanmax(np.abs(got_c - 7.25)) > 1e-3:
                ctx.fail(site, f"a constant field 7.25 comes out as [{np.nanmin(got_c)}, {np.nanmax(got_c)}]" + hint, inp, None, tags={"cause": "constant"}, size=w * h)


def suite_fornav_masked(ctx):
    """ewa.fornav with numpy MaskedArray input (finding F36): masked pixels are invalid pixels. The result must be what the same data gives
    with the masked pixels marked by the fill value (NaN for floats, the fill for integers), returned as a masked array whose mask is
    exactly the fill cells; single arrays and tuples of arrays, average and maximum-weight mode."""
    import warnings

    from pyresample import ewa
    from pyresample.geometry import AreaDefinition, SwathDefinition
    r = ctx.rng
    areas = [("laea", {"proj": "laea", "lat_0": 52.0, "lon_0": 10.0, "ellps": "WGS84"}, (-120000.0, -100000.0, 120000.0, 100000.0)),
             ("longlat", {"proj": "longlat", "datum": "WGS84"}, (0.0, 40.0, 12.0, 50.0))]
    for rep in range(6 if ctx.quick else 40):
        aname, proj, ext = r.choice(areas)
        gw, gh = r.randrange(8, 20), r.randrange(8, 20)
        with warnings.catch_warnings():
            warnings.simplefilter("ignore")
            area = AreaDefinition("t", "t", "t", proj, gw, gh, ext)
        rps = r.choice([2, 5, 10])
        srows, scols = rps * r.randrange(3, 7), r.randrange(12, 30)
        lons, lats = _swath_for(r, area, srows, scols, r.uniform(-0.2, 0.2))
        with warnings.catch_warnings():
            warnings.simplefilter("ignore")
            _, cols, rows = ewa.ll2cr(SwathDefinition(lons, lats), area)
        dtype = r.choice([np.float32, np.float64, np.int8])
        maxw = r.random() < 0.3
        n_arr = r.choice([1, 1, 2])
        arrays, refs, fills = [], [], []
        for k in range(n_arr):
            base = (np.arange(srows * scols).reshape(srows, scols) % 50 + 1 + 10 * k)
            mask = np.zeros((srows, scols), bool)
            y0, x0 = r.randrange(0, srows - 2), r.randrange(0, scols - 3)
            mask[y0:y0 + r.randrange(2, 6), x0:x0 + r.randrange(2, 8)] = True
            for _ in range(srows * scols // 10):
                mask[r.randrange(srows), r.randrange(scols)] = True
            hidden = np.where(mask, 100 if dtype == np.int8 else 1000, base).astype(dtype)     # what sits under the mask must never show
            arrays.append(np.ma.masked_array(hidden, mask=mask))
            fill = -99 if dtype == np.int8 else np.nan
            refs.append(np.where(mask, fill, base).astype(dtype))
            fills.append(fill)
        fill = fills[0]
        kw = dict(rows_per_scan=rps, maximum_weight_mode=maxw, fill=fill)
        inp = {"area": aname, "grid": [gh, gw], "swath": [srows, scols], "rows_per_scan": rps, "dtype": np.dtype(dtype).name, "arrays": n_arr,
               "maximum_weight_mode": maxw, "masked_pixels": [int(a.mask.sum()) for a in arrays]}
        try:
            with warnings.catch_warnings():
                warnings.simplefilter("ignore")
                _, out_m = ewa.fornav(cols, rows, area, tuple(arrays) if n_arr > 1 else arrays[0], **kw)
                _, out_r = ewa.fornav(cols.copy(), rows.copy(), area, tuple(refs) if n_arr > 1 else refs[0], **kw)
        except Exception as e:  # noqa
            ctx.fail("ewa.fornav", f"masked-array input raised {type(e).__name__}: {str(e)[:120]}", inp, size=srows * scols)
            ctx.case("fornav-masked", (rep, aname, gw, gh, srows, scols, rps, np.dtype(dtype).name, maxw, n_arr), nontrivial=True)
            continue
        outs_m = list(out_m) if n_arr > 1 else [out_m]
        outs_r = list(out_r) if n_arr > 1 else [out_r]
        for k, (om, orf) in enumerate(zip(outs_m, outs_r)):
            is_fill = np.isnan(orf) if dtype != np.int8 else (orf == fill)
            probs = []
            if not isinstance(om, np.ma.MaskedArray):
                probs.append("the result is not a masked array")
            got_mask = np.ma.getmaskarray(om)
            if not np.array_equal(got_mask, is_fill):
                probs.append(f"mask differs from the fill cells of the reference in {int((got_mask != is_fill).sum())} cells")
            a, b = np.ma.filled(om.astype(float), np.nan)[~is_fill & ~got_mask], orf.astype(float)[~is_fill & ~got_mask]
            if a.size and not np.allclose(a, b, rtol=1e-5, atol=1e-5):
                j = int(np.argmax(np.abs(a - b)))
                probs.append(f"values differ from the result for the same data with the masked pixels marked as fill (e.g. {a[j]} vs {b[j]}, "
                             f"{int((~np.isclose(a, b, rtol=1e-5, atol=1e-5)).sum())} cells): masked pixels were averaged as data")
            if probs:
                ctx.fail("ewa.fornav", "MaskedArray input: " + "; ".join(probs), {**inp, "array": k}, size=srows * scols)
        ctx.case("fornav-masked", (rep, aname, gw, gh, srows, scols, rps, np.dtype(dtype).name, maxw, n_arr), nontrivial=True, sample={"input": inp})


def run(ctx):
    import traceback
    try:
        import ewa_build
        ctx.note(ewa_build.install_fornav())
    except Exception as e:  # noqa
        ctx.note(f"could not rebuild _fornav ({type(e).__name__}: {e}); using the in-tree module")
    for suite in (suite_ll2cr, suite_cells, suite_combine, suite_dask, suite_dask_mixed, suite_fornav_masked, suite_dask_scan_grouping):
        try:
            suite(ctx)
        except Exception as e:  # noqa
            from core import Infra
            if isinstance(e, Infra):
                raise
            ctx.disagree(suite.__name__, {"exception": f"{type(e).__name__}: {e}"}, "exception while driving the real code", "no exception",
                         note=traceback.format_exc()[-1200:])
