"""C02 — nearest-neighbour resampling returns the truly nearest valid source value or fill."""
import warnings
from fractions import Fraction

import numpy as np

from . import kdcommon as kc

META = {
    "rule": "one case = (source geometry, target geometry, radius, data variant). Geometry pairs: swath/area/grid/1-D swath "
            "sources and targets placed at Europe, the equator, both sides of the dateline, both poles and high latitude; "
            "0-30 % invalid coordinates (NaN, +-inf, 181, 91, 1e30); duplicated sources; radii from 0 to 2e7 m; data: 1-D, 2-D, "
            "multi-channel, masked, int8..int64 / float32 / float64, fill numeric or None. Non-trivial: some target gets a "
            "neighbour AND some target gets none (or is invalid). Distinct = distinct (geometry description, data variant).",
    "assumptions": ["ties: when the two best distances differ by < 1e-9 relative either source is accepted",
                    "the kd-tree (pykdtree) result is treated as data: checked against QuerySpec by brute force, not modelled"],
}

TIE = 1e-9


def _brute(src_geo, tgt_geo, radius):
    slo, sla = kc.lonlats(src_geo)
    tlo, tla = kc.lonlats(tgt_geo)
    d, sv, tv = kc.dist_matrix(slo.ravel(), sla.ravel(), tlo.ravel(), tla.ravel())
    return d, sv, tv


def _data_variants(rng, src_shape, n):
    ids = np.arange(n, dtype=np.int64)
    out = [("ids_int64", ids.reshape(src_shape), None)]
    dt = rng.choice([np.int8, np.int16, np.int32, np.uint8, np.float32, np.float64])
    vals = (ids % 100).astype(dt)
    out.append((f"1ch_{np.dtype(dt).name}", vals.reshape(src_shape), None))
    multi = np.stack([ids, ids * 2 + 1, -ids], axis=-1).astype(rng.choice([np.int32, np.float64]))
    out.append((f"3ch_{multi.dtype.name}", multi.reshape(tuple(src_shape) + (3,)), None))
    if len(src_shape) == 2:
        # same values, other memory layouts (Fortran order, transposed view of a C array)
        out.append(("ids_int64_F", np.asfortranarray(ids.reshape(src_shape)), None))
        out.append(("1ch_float32_Tview", np.ascontiguousarray(vals.astype(np.float32).reshape(src_shape).T).T, None))
    # 64-bit integers beyond 2**53 (ids, timestamps in ns): values must come back bit for bit, whatever the type of the fill value
    big = (ids.astype(np.int64) * 1000003 + (2 ** 60 + 12345)).astype(rng.choice([np.int64, np.uint64]))
    out.append((f"1ch_big_{big.dtype.name}", big.reshape(src_shape), None))
    # legitimate non-finite data values: they are data, not "no neighbour" markers
    special = ids.astype(rng.choice([np.float32, np.float64]))
    for k in range(n):
        r = rng.random()
        if r < 0.15:
            special[k] = np.inf
        elif r < 0.3:
            special[k] = -np.inf
    out.append((f"1ch_inf_{special.dtype.name}", special.reshape(src_shape), None))
    mask = np.array([rng.random() < 0.3 for _ in range(n)])
    out.append(("masked_float64", np.ma.array(ids.astype(float).reshape(src_shape), mask=mask.reshape(src_shape)), mask))
    return out


def check_pair(ctx, src, tgt, radius, desc):
    from pyresample import kd_tree
    d, sv, tv = _brute(src, tgt, radius)
    n_src, n_tgt = d.shape[1], d.shape[0]
    dmin = d.min(axis=1) if n_src else np.full(n_tgt, np.inf)
    has = dmin <= radius
    near_thr = np.abs(dmin - radius) <= TIE * max(radius, 1.0)       # in/out of range undecidable in floats
    inp0 = {"pair": desc, "n_src": int(n_src), "n_tgt": int(n_tgt), "radius": float(radius)}
    if not sv.any():
        # no valid source at all: everything fill
        pass
    # ---- neighbour info vs QuerySpec, and the model pipeline ------------------------------------
    with warnings.catch_warnings():
        warnings.simplefilter("ignore")
        vii, voi, ia, da = kd_tree.get_neighbour_info(src, tgt, radius, neighbours=1, epsilon=0, reduce_data=False, segments=1)
    if not (np.array_equal(np.asarray(vii, bool), sv) and np.array_equal(np.asarray(voi, bool), tv)):
        ctx.fail("kd_tree._get_valid_input_index", "validity filter differs from the finite in-range test on lon/lat", inp0,
                 {"vii_true": int(np.sum(vii)), "expected": int(sv.sum()), "voi_true": int(np.sum(voi)), "expected_t": int(tv.sum())}, size=n_src + n_tgt)
    if ctx.M:
        slo, sla = kc.lonlats(src)
        fl = lambda a: ["nan" if not np.isfinite(v) else Fraction(float(v)) for v in np.asarray(a, float).ravel()]  # noqa
        rep = ctx.M.ask("valid", fl(slo), fl(sla))
        if [t == "1" for t in rep.split()[1:]] != [bool(v) for v in np.asarray(vii)]:
            ctx.disagree("valid", inp0, np.asarray(vii).astype(int).tolist(), rep)
    n_valid = int(sv.sum())
    if n_valid and tv.any():
        sel = np.flatnonzero(np.asarray(vii, bool))      # decode with the implementation's own filter
        tsel = np.flatnonzero(np.asarray(voi, bool))
        ia = np.asarray(ia).ravel()
        n_valid = len(sel)
        bad = []
        for k, j in enumerate(tsel):
            if near_thr[j]:
                continue
            if ia[k] == n_valid:
                if has[j]:
                    bad.append((int(j), "sentinel although a valid source is in range"))
            else:
                s = sel[ia[k]]
                if not has[j] or d[j, s] > dmin[j] * (1 + TIE) + 1e-6:
                    bad.append((int(j), f"source {int(s)} at {d[j, s]:.3f} m, nearest valid is at {dmin[j]:.3f} m"))
        if bad:
            ctx.fail("kd_tree.get_neighbour_info", "neighbour index is not the nearest valid source within the radius: " + bad[0][1],
                     {**inp0, "target": bad[0][0]}, size=n_src + n_tgt)
    # ---- data variants: end-to-end oracle + model correspondence for the sample extraction ---------
    src_shape = src.shape
    for vname, data, mask in _data_variants(ctx.rng, src_shape, n_src):
        for fill in ((3.0, np.float32(3.0), 101) if vname.startswith("1ch_big") else ((101 if vname.startswith("1ch") else -7), None)):
            # the statement does not depend on how the target is cut into segments: the brute-force oracle below is the same
            seg = (1, 1, None, 2, 3, 5)[ctx.rng.randrange(6)]
            inp = {**inp0, "data": vname, "fill_value": fill, "segments": seg}
            ctx.count(f"segments.{seg}")
            try:
                with warnings.catch_warnings():
                    warnings.simplefilter("ignore")
                    res = kd_tree.resample_nearest(src, data, tgt, radius, epsilon=0, fill_value=fill, reduce_data=False, segments=seg)
            except Exception as e:  # noqa
                ctx.fail("kd_tree.resample_nearest", f"raised {type(e).__name__}: {e}", inp, size=n_src + n_tgt)
                continue
            nch = 3 if vname.startswith("3ch") else 0
            want_shape = tuple(tgt.shape) + ((3,) if nch else ())
            if tuple(res.shape) == want_shape and np.asarray(res).dtype != np.asarray(data).dtype and not has.any() and isinstance(fill, (float, np.floating)):
                # the "nothing to resample" shortcut returns float for integer data with a float fill value (the general path casts back):
                # an inconsistency of the result's dtype, not of its values; counted, not judged
                ctx.count("note.empty_shortcut_dtype")
            elif tuple(res.shape) != want_shape or np.asarray(res).dtype != np.asarray(data).dtype:
                ctx.fail("kd_tree.resample_nearest", "output shape / dtype is not the target's shape (+channels) with the input dtype",
                         inp, {"shape": list(res.shape), "want": list(want_shape), "dtype": str(res.dtype), "in_dtype": str(np.asarray(data).dtype)}, size=5)
                continue
            flat = res.reshape((n_tgt,) + ((3,) if nch else ()))
            rmask = np.ma.getmaskarray(flat)
            rdata = np.ma.getdata(flat)
            src_flat = np.ma.getdata(data).reshape((n_src,) + ((3,) if nch else ()))
            for j in range(n_tgt):
                if near_thr[j]:
                    continue
                row = rdata[j] if nch else rdata[j:j + 1]
                mrow = rmask[j] if nch else rmask[j:j + 1]
                if not has[j]:
                    # masked input + non-zero numeric fill: the fill also lands in the mask channel, so the element
                    # carries the fill value AND is masked; accepted (value == fill is what the statement asks)
                    ok = bool(mrow.all()) if fill is None else bool((row == fill).all() and (mask is not None or not mrow.any()))
                    if not ok:
                        ctx.fail("kd_tree.resample_nearest", "target without a valid source in range (or with invalid coordinates) is not fill/masked",
                                 {**inp, "target": j, "target_valid": bool(tv[j])}, {"value": row.tolist(), "masked": mrow.tolist()}, size=n_src + n_tgt)
                        break
                    continue
                cands = np.flatnonzero(d[j] <= dmin[j] * (1 + TIE) + 1e-6)
                hit = None
                for s in cands:
                    if np.array_equal(src_flat[s] if nch else src_flat[s:s + 1], row):
                        hit = s
                        break
                if hit is None:
                    ctx.fail("kd_tree.resample_nearest", "output is not the value of a nearest valid source within the radius",
                             {**inp, "target": j}, {"value": row.tolist(), "nearest_sources": cands[:4].tolist(), "dmin": float(dmin[j])}, size=n_src + n_tgt)
                    break
                if mask is not None:
                    want_m = bool(mask[hit])
                    if bool(mrow.any()) != want_m and len(cands) == 1:
                        ctx.fail("kd_tree.resample_nearest", "mask state of the output differs from that of the nearest source",
                                 {**inp, "target": j}, {"masked": bool(mrow.any()), "source_masked": want_m}, size=n_src + n_tgt)
                        break
                elif fill is None and mrow.any():
                    ctx.fail("kd_tree.resample_nearest", "output masked although a valid source is in range", {**inp, "target": j}, size=n_src + n_tgt)
                    break
            nontriv = bool(has.any() and (~has).any())
            ctx.case("resample_nearest", (desc, vname, str(fill)), nontrivial=nontriv,
                     sample={"input": inp, "targets_with_neighbour": int(has.sum())} if vname == "ids_int64" and fill is not None else None)
    # model: sample extraction from the real neighbour info (ids as data)
    if ctx.M and n_valid and tv.any():
        ids = np.arange(n_src, dtype=np.int64)
        with warnings.catch_warnings():
            warnings.simplefilter("ignore")
            out = kd_tree.get_sample_from_neighbour_info("nn", tgt.shape, ids.reshape(src_shape) if len(src_shape) > 1 else ids,
                                                         vii, voi, ia, fill_value=-7)
        rep = ctx.M.ask("nn", -7, [bool(v) for v in sv], ids.tolist(), [bool(v) for v in tv], [int(v) for v in np.asarray(ia).ravel()])
        if rep.startswith("err") or [int(t) for t in rep.split()[1:]] != [int(v) for v in np.asarray(out).ravel()]:
            ctx.disagree("nn.sample", inp0, np.asarray(out).ravel().tolist()[:20], rep[:200])
    ctx.count("pairs")
    ctx.count("place." + desc.split(":")[0])


def run(ctx):
    n = 160 if ctx.quick else 1200
    lim = (120, 120) if ctx.quick else (400, 400)
    for _ in range(n):
        src, tgt, radius, desc = kc.geometry_pair(ctx.rng, *lim)
        check_pair(ctx, src, tgt, radius, desc)
    # fixed corner cases
    from pyresample.geometry import SwathDefinition
    lon = np.array([[0.0, 1.0], [float("nan"), 200.0]])
    lat = np.array([[0.0, 0.0], [0.0, 0.0]])
    check_pair(ctx, SwathDefinition(lon, lat), SwathDefinition(np.array([0.1, 0.9, 5.0, float("inf")]), np.array([0.0, 0.0, 0.0, 0.0])),
               50000.0, "fixed: 2 valid + NaN + out-of-range sources -> 1-D swath incl. inf target")
    # the same definition objects used again after their coordinate arrays were shifted in place (e.g. a navigation correction)
    for _ in range(3 if ctx.quick else 20):
        lon, lat = kc.swath(ctx.rng, 6, 7, 12.0, 48.0, 3.0)
        tl, tla = kc.swath(ctx.rng, 4, 5, 12.5, 48.2, 2.0)
        src, tgt = SwathDefinition(lon, lat), SwathDefinition(tl, tla)
        check_pair(ctx, src, tgt, 60000.0, "history: before the in-place shift")
        lon += 0.9
        lat -= 0.4
        check_pair(ctx, src, tgt, 60000.0, "history: same objects after an in-place shift of the source coordinates")
        tl -= 0.7
        check_pair(ctx, src, tgt, 60000.0, "history: same objects after an in-place shift of the target coordinates")
    allbad = SwathDefinition(np.array([[float("nan"), 500.0]]), np.array([[0.0, 0.0]]))
    check_pair(ctx, allbad, SwathDefinition(np.array([0.0, 1.0]), np.array([0.0, 1.0])), 1e6, "fixed: no valid source at all")
