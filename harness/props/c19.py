"""C19 — partition helpers and overlap merging: correspondence + property oracle."""
import itertools

import numpy as np

META = {
    "rule": "small-scope exhaustive streams (sizes x segments, chunk tuples, capacities x row sequences, "
            "slices x max_size x factor, set families x orders) plus seeded random large cases; a case is "
            "non-trivial when the helper has real work to do (>=2 slices / overflow of the reserved capacity / "
            "remainder != 0 / at least one overlapping pair); distinct = distinct canonical input",
    "assumptions": ["int(np.ceil(float(size)/segments)) is the exact ceiling for size < 2**25"],
}


def _partition_ok(pairs, n):
    pos = 0
    for a, b in pairs:
        if a != pos or b <= a:
            return False
        pos = b
    return pos == n


def suite_getslice(ctx):
    from pyresample.geometry import _get_slice
    smax, gmax = (40, 44) if ctx.quick else (90, 100)
    cases = [(seg, size) for size in range(0, smax + 1) for seg in range(1, gmax + 1)]
    for _ in range(200 if ctx.quick else 2000):
        size = ctx.rng.choice([ctx.rng.randrange(0, 5000), ctx.rng.randrange(0, 2 ** 22)])
        seg = ctx.rng.choice([1, 2, 3, ctx.rng.randrange(1, 70), max(1, size - 1), size + 3,
                              ctx.rng.randrange(1, max(2, size))])
        if min(seg, size) > 400:   # the number of slices is about min(segments, size)
            if ctx.rng.random() < 0.5:
                seg = ctx.rng.randrange(1, 400)
            else:
                size, seg = size % 1500, max(1, seg % 1500)
        cases.append((seg, size))
    ctx.exhaustive["getslice"] = f"all size<={smax} x segments<={gmax}"
    for seg, size in cases:
        twod = (seg + size) % 3 == 0
        shape = (size, 4) if twod else (size,)
        try:
            out = list(_get_slice(seg, shape))
        except Exception as e:  # noqa: the helper must produce a cover for every size and segment count
            ctx.fail("geometry._get_slice", f"raised {type(e).__name__}: {e} for {size} rows in {seg} segments", {"segments": seg, "shape": list(shape)}, None,
                     tags={"cause": "raises"}, size=1)
            continue
        if twod:
            if any(not (isinstance(o, tuple) and o[1] == slice(None)) for o in out):
                ctx.fail("geometry._get_slice", "2-D segment does not keep all columns", [seg, shape], repr(out))
            out = [o[0] for o in out]
        impl = [(s.start, s.stop) for s in out]
        inp = {"segments": seg, "shape": list(shape)}
        # property oracle on the real output
        if not _partition_ok(impl, size):
            ctx.fail("geometry._get_slice", "row segments do not partition [0,size)", inp, impl)
        elif len(impl) > seg:
            ctx.fail("geometry._get_slice", "more slices than segments", inp, impl)
        rep = ctx.M.ask("getslice", seg, size) if ctx.M else None
        if rep is not None:
            toks = rep.split()
            model = [tuple(int(v) for v in t.split(":")) for t in toks[1:]]
            if model != impl:
                ctx.disagree("getslice", inp, impl, model)
        ctx.case("getslice", (seg, size, twod), nontrivial=len(impl) >= 2, sample={"input": inp, "impl": impl})
        ctx.count("getslice.nslices." + ("0" if not impl else "1" if len(impl) == 1 else "many"))


def _chunk_tuples(ctx):
    vals = [0, 1, 2, 3]
    axes = [()]  # no chunks on an axis
    for k in (1, 2, 3):
        axes += list(itertools.product(vals, repeat=k))
    out = []
    for a in axes:
        out.append((a,))
    small = [a for a in axes if len(a) <= 2 and all(v in (1, 2, 3) for v in a)] + [(0, 2), (2, 0, 1)]
    for a in small:
        for b in small:
            out.append((a, b))
    for a in small[:6]:
        for b in small[:6]:
            for c in small[:5]:
                out.append((a, b, c))
    for _ in range(60 if ctx.quick else 600):
        rank = ctx.rng.choice([1, 2, 2, 3, 4])
        out.append(tuple(tuple(ctx.rng.randrange(0, 9) for _ in range(ctx.rng.randrange(1, 6)))
                         for _ in range(rank)))
    return out


def suite_enumchunks(ctx):
    from pyresample.slicer import _enumerate_chunk_slices
    for chunks in _chunk_tuples(ctx):
        res = list(_enumerate_chunk_slices(chunks))
        impl = [(tuple(int(p) for p in pos), tuple((s.start, s.stop) for s in sl)) for pos, sl in res]
        inp = {"chunks": [list(c) for c in chunks]}
        # oracle: row-major positions, each once; per axis the slices are the chunk partition
        expect_pos = list(np.ndindex(*[len(c) for c in chunks]))
        ok = [p for p, _ in impl] == [tuple(p) for p in expect_pos]
        cover = np.zeros([sum(c) for c in chunks], dtype=int)
        for _, sl in impl:
            cover[tuple(slice(a, b) for a, b in sl)] += 1
        if not ok or (cover.size and not (cover == 1).all()):
            ctx.fail("slicer._enumerate_chunk_slices", "chunk slices do not cover every element exactly once "
                     "in row-major order", inp, impl)
        if ctx.M:
            rep = ctx.M.ask("enumchunks", len(chunks), *[list(c) for c in chunks])
            toks = rep.split()
            model = []
            for t in toks[1:]:
                ps, ss = t.split("|")
                model.append((tuple(int(v) for v in ps.split(",")) if ps else (),
                              tuple(tuple(int(v) for v in s.split(":")) for s in ss.split(",")) if ss else ()))
            if model != impl:
                ctx.disagree("enumchunks", inp, impl, model)
        ctx.case("enumchunks", chunks, nontrivial=len(impl) >= 2, sample={"input": inp, "n": len(impl)})


def suite_rowapp(ctx):
    from pyresample.utils.row_appendable_array import RowAppendableArray
    caps = range(0, 9) if ctx.quick else range(0, 13)
    seqs = []
    lens = [0, 1, 2, 3]
    for k in (1, 2, 3):
        seqs += list(itertools.product(lens, repeat=k))
    if not ctx.quick:
        seqs += list(itertools.product([0, 1, 2, 4], repeat=4))
    for _ in range(100 if ctx.quick else 1000):
        seqs.append(tuple(ctx.rng.randrange(0, 12) for _ in range(ctx.rng.randrange(1, 8))))
    ctx.exhaustive["rowapp"] = "capacities 0..8(12) x all sequences of <=3 rows with 0..3 lines, 1-D and 2-D"
    for cap in caps:
        for seq in seqs:
            for ncol in (0, 2):
                counter = itertools.count(1)
                rows = []
                for n in seq:
                    vals = [next(counter) for _ in range(n * max(1, ncol))]
                    arr = np.array(vals, dtype=np.int64)
                    rows.append(arr.reshape(n, ncol) if ncol else arr)
                ra = RowAppendableArray(cap)
                for r in rows:
                    ra.append_row(r)
                got = ra.to_array()
                want = np.concatenate(rows)
                inp = {"capacity": cap, "row_lengths": list(seq), "ncol": ncol}
                overflow = sum(seq) > cap
                if got.shape != want.shape or not np.array_equal(got, want):
                    ctx.fail("RowAppendableArray", "to_array() differs from the concatenation of appended rows",
                             inp, got.tolist(), tags={"overflow": overflow})
                if ctx.M:
                    # model elements = whole lines (ints for 1-D, first cell identifies the line for 2-D)
                    lines = [[int(x) for x in (r if ncol == 0 else r[:, 0])] for r in rows]
                    rep = ctx.M.ask("rowapp", cap, len(lines), *lines)
                    model = rep.split()[1:]
                    impl = [str(int(x)) for x in (got if ncol == 0 else got[:, 0])]
                    if model != impl:
                        ctx.disagree("rowapp", inp, impl, model)
                ctx.case("rowapp", (cap, seq, ncol), nontrivial=overflow and len(seq) > 1, sample={"input": inp})
                ctx.count("rowapp.overflow" if overflow else "rowapp.fits")


def _read_histories(ctx, r):
    """histories of a RowAppendableArray: a list of ops, ('a', n) = append a row block of n lines, ('r',) = read with to_array().
    Every history starts with an append (before the first one the array has no row shape yet) and ends with a read."""
    out = []
    # small scope: every sequence of <= 3 appends, 0, 1 or 2 reads after each append (at least one after the last)
    for k in (1, 2, 3):
        lens = [0, 1, 2, 3] if (k < 3 or not ctx.quick) else [0, 1, 3]
        for seq in itertools.product(lens, repeat=k):
            for reads in itertools.product((0, 1, 2), repeat=k):
                if reads[-1] == 0:
                    continue
                h = []
                for n, nr in zip(seq, reads):
                    h.append(("a", n))
                    h += [("r",)] * nr
                out.append(h)
    n_small = len(out)
    # longer random histories
    for _ in range(150 if ctx.quick else 1500):
        h = []
        for _ in range(r.randrange(2, 11)):
            h.append(("a", r.choice([0, 1, 1, 2, 3, r.randrange(0, 13)])))
            h += [("r",)] * r.choice([0, 0, 1, 1, 2])
        if h[-1] != ("r",):
            h.append(("r",))
        out.append(h)
    return out, n_small


def suite_rowapp_reads(ctx):
    """RowAppendableArray read in the middle of a history: after ANY sequence of appends (so also after each prefix of a longer one, and when
    it has been read before) to_array() is the concatenation of the rows appended so far.  Reserved sizes 0, smaller than, equal to and larger
    than the total; 1-D and 2-D rows; integer and float rows.  Oracle: np.concatenate of the blocks appended until the read."""
    import random

    from pyresample.utils.row_appendable_array import RowAppendableArray
    r = random.Random(f"rowapp-reads-{ctx.seed}")
    hists, n_small = _read_histories(ctx, r)
    ctx.exhaustive["rowapp-reads"] = ("all sequences of <=3 appends of 0..3 lines (3 appends, quick tier: 0, 1, 3 lines) x 0..2 reads after each append "
                                      "x reserved size {0, < total, = total, > total} x 1-D / 2-D rows")
    for hi, h in enumerate(hists):
        total = sum(op[1] for op in h if op[0] == "a")
        if hi < n_small:
            caps = sorted({0, max(0, total - 1), total // 2, total, total + 3})
            shapes = [((), "int64"), ((2,), "int64")]
        else:
            caps = sorted({0, r.randrange(0, total + 1), total, total + r.randrange(1, 6), r.choice([64, 1000])})
            caps = r.sample(caps, min(len(caps), 3))
            shapes = [(r.choice([(), (), (1,), (2,), (3,), (2, 2)]), r.choice(["int64", "float64", "float32", "int16"]))]
        for cap in caps:
            for trailing, dtype in shapes:
                first = r.randrange(1, 30) * 1000      # a different value range in every history
                width = int(np.prod(trailing, dtype=int)) if trailing else 1
                inp = {"capacity": cap, "row_shape": list(trailing), "dtype": dtype, "first_value": first,
                       "history": ["append %d lines" % op[1] if op[0] == "a" else "to_array" for op in h],
                       "values": "consecutive integers from first_value, block after block in C order"}
                where = "zero" if cap == 0 else "smaller" if cap < total else "equal" if cap == total else "larger"
                nxt = first
                appended, keep = [], []
                n_reads = 0
                mid_read = False     # a read that is followed by a further append and a further read
                ra = RowAppendableArray(cap)
                for step, op in enumerate(h):
                    if op[0] == "a":
                        block = np.arange(nxt, nxt + op[1] * width).reshape((op[1],) + tuple(trailing)).astype(dtype)
                        nxt += op[1] * width
                        try:
                            ra.append_row(block)
                        except Exception as e:  # noqa
                            ctx.fail("RowAppendableArray.append_row", f"raised {type(e).__name__}: {str(e)[:150]} at step {step} of the history (after {n_reads} reads)",
                                     inp, {"step": step}, tags={"cause": "raises", "capacity": where, "reads_before": min(n_reads, 2)}, size=len(h))
                            break
                        appended.append(block)
                        mid_read = mid_read or n_reads > 0
                        continue
                    want = np.concatenate(appended)
                    try:
                        got = ra.to_array()
                    except Exception as e:  # noqa
                        ctx.fail("RowAppendableArray.to_array", f"raised {type(e).__name__}: {str(e)[:150]} at step {step} of the history (read number {n_reads + 1})",
                                 inp, {"step": step, "want": want.tolist()}, tags={"cause": "raises", "capacity": where, "reads_before": min(n_reads, 2)}, size=len(h))
                        break
                    n_reads += 1
                    got = np.asarray(got)
                    if got.shape != want.shape or not np.array_equal(got, want):
                        ctx.fail("RowAppendableArray", f"to_array() number {n_reads} (step {step} of the history) differs from the concatenation of the rows appended so far",
                                 inp, {"step": step, "got_shape": list(got.shape), "want_shape": list(want.shape), "got": got.tolist()[:40], "want": want.tolist()[:40]},
                                 tags={"capacity": where, "reads_before": min(n_reads - 1, 2)}, size=len(h))
                        break
                    if ctx.M and not trailing and step == len(h) - 1 and (not ctx.quick or hi % 2 == 0):
                        rep = ctx.M.ask("rowapp", cap, len(appended), *[[int(x) for x in b] for b in appended])
                        if rep.split()[1:] != [str(int(x)) for x in got]:
                            ctx.disagree("rowapp", {**inp, "read_at_step": step}, got.tolist(), rep.split()[1:])
                    # the caller keeps what it was handed and goes on allocating, so that the outcome of the comparison does not hang on
                    # which block the allocator happens to hand out next
                    keep.append(got)
                    if cap <= 2000:
                        keep += [np.full((cap,) + tuple(trailing), -1, dtype=dtype) for _ in range(3)]
                ctx.case("rowapp-reads", (cap, tuple(trailing), dtype, tuple(h)), nontrivial=mid_read and n_reads >= 2,
                         sample={"input": inp} if hi % 97 == 0 else None)
                ctx.count("rowapp_reads.capacity." + where)
                ctx.count("rowapp_reads.reads.%s" % ("1" if n_reads <= 1 else "2-3" if n_reads <= 3 else "many"))
                ctx.count("rowapp_reads.rows." + ("1d" if not trailing else "2d" if len(trailing) == 1 else "3d"))


def _div_contract(start, stop, max_size, factor, res):
    """property oracle, straight from the statement"""
    s, e = res
    problems = []
    length = stop - start
    rem = length % factor
    nextmult = length if rem == 0 else length + factor - rem
    if not (0 <= s <= e <= max_size):
        problems.append("out-of-bounds")
    if max_size >= factor:
        if not s < e:
            problems.append("empty")
        if (e - s) % factor != 0:
            problems.append("not-divisible")
    if nextmult <= max_size and not (s <= start and stop <= e):
        problems.append("does-not-cover-original")
    return problems


def suite_divisible(ctx):
    from pyresample.future.geometry._subset import _make_slice_divisible
    mmax, fmax = (12, 6) if ctx.quick else (18, 8)
    cases = [(a, b, m, f) for m in range(1, mmax + 1) for a in range(0, m) for b in range(a + 1, m + 1)
             for f in range(1, fmax + 1)]
    for _ in range(300 if ctx.quick else 3000):
        m = ctx.rng.randrange(1, 5000)
        a = ctx.rng.randrange(0, m)
        b = ctx.rng.randrange(a + 1, m + 1)
        f = ctx.rng.choice([2, 3, 4, 5, 8, 10, 16, ctx.rng.randrange(1, 200)])
        cases.append((a, b, m, f))
    ctx.exhaustive["divisible"] = f"all max_size<={mmax} x non-empty in-bounds slices x factor<={fmax}"
    for a, b, m, f in cases:
        r = _make_slice_divisible(slice(a, b), m, factor=f)
        impl = (r.start, r.stop)
        inp = {"slice": [a, b], "max_size": m, "factor": f}
        probs = _div_contract(a, b, m, f, impl)
        if probs:
            ctx.fail("_subset._make_slice_divisible", "divisibility contract broken: " + ",".join(probs), inp, impl,
                     tags={"problems": ",".join(probs)}, size=m + f)
        if ctx.M:
            model = tuple(int(v) for v in ctx.M.ask("divisible", a, b, m, f).split())
            if model != impl:
                ctx.disagree("divisible", inp, impl, model)
        ctx.case("divisible", (a, b, m, f), nontrivial=(b - a) % f != 0, sample={"input": inp, "impl": impl})
        ctx.count("divisible." + ("rem0" if (b - a) % f == 0 else "rem"))


def _components(sets):
    n = len(sets)
    parent = list(range(n))

    def find(i):
        while parent[i] != i:
            parent[i] = parent[parent[i]]
            i = parent[i]
        return i
    for i in range(n):
        for j in range(i + 1, n):
            if sets[i] & sets[j]:
                parent[find(i)] = find(j)
    comps = {}
    for i in range(n):
        comps.setdefault(find(i), []).append(i)
    return sorted(tuple(c) for c in comps.values())


def suite_merge(ctx):
    from pyresample.spherical_utils import GetNonOverlapUnionsBaseClass
    universe = range(5)
    subsets = [frozenset(c) for k in (1, 2, 3) for c in itertools.combinations(universe, k)]
    fams = []
    for m in (1, 2, 3):
        fams += list(itertools.combinations(subsets, m))
    fams = [f for i, f in enumerate(fams) if m < 3 or i % (7 if ctx.quick else 2) == 0]
    for _ in range(150 if ctx.quick else 1500):
        m = ctx.rng.randrange(2, 8)
        fams.append(tuple(frozenset(ctx.rng.sample(range(10), ctx.rng.randrange(1, 4))) for _ in range(m)))
    fams.append(tuple())
    # families with members that have no element at all: the empty set is a set like any other, it overlaps nothing and so is a
    # component of its own (one union, value = the empty set) wherever it stands among the inputs, however many of them there are
    nothing = frozenset()
    small = [frozenset(c) for k in (1, 2) for c in itertools.combinations(range(4), k)]
    with_empty = [(nothing,), (nothing, nothing), (nothing, nothing, nothing)]
    for n_empty in (1, 2):
        for m in (1, 2, 3):
            combos = list(itertools.combinations(small, m))
            if m == 3 or (m == 2 and n_empty == 2):
                combos = ctx.rng.sample(combos, min(len(combos), 12 if ctx.quick else 60))
            with_empty += [c + (nothing,) * n_empty for c in combos]
    for _ in range(60 if ctx.quick else 600):
        m = ctx.rng.randrange(1, 7)
        fam = [frozenset(ctx.rng.sample(range(10), ctx.rng.randrange(1, 4))) for _ in range(m)]
        for _ in range(ctx.rng.choice([1, 1, 2, 3])):
            fam.insert(ctx.rng.randrange(0, len(fam) + 1), nothing)
        with_empty.append(tuple(fam))
    fams += with_empty
    for fam in fams:
        fam = list(fam)
        has_empty = any(len(s) == 0 for s in fam)
        if len(fam) <= 4:
            orders = list(itertools.permutations(range(len(fam))))
        else:
            orders = [tuple(ctx.rng.sample(range(len(fam)), len(fam))) for _ in range(4)]
        if has_empty and len(fam) <= 4:
            orders = sorted(set(orders), key=lambda o: [len(fam[i]) == 0 for i in o] + list(o))
            # every position pattern of the empty members at least once; all orders of the small families
            if ctx.quick and len(orders) > 12:
                seen_pat, keep = set(), []
                for o in orders:
                    pat = tuple(len(fam[i]) == 0 for i in o)
                    if pat not in seen_pat:
                        seen_pat.add(pat)
                        keep.append(o)
                orders = keep + ctx.rng.sample([o for o in orders if o not in keep], 4)
        elif ctx.quick and len(orders) > 6:
            orders = orders[:2] + ctx.rng.sample(orders[2:], 4)
        want = _components(fam)
        any_overlap = any(len(c) > 1 for c in want)
        for order in orders:
            sets = [set(fam[i]) for i in order]
            inp = {"sets": [sorted(s) for s in sets]}
            g = GetNonOverlapUnionsBaseClass([set(s) for s in sets])
            g.merge()
            ids = [k if isinstance(k, tuple) else (k,) for k in g.get_ids()]
            vals = [sorted(v) for v in g.get_polygons()]
            impl = [(tuple(int(i) for i in k), v) for k, v in zip(ids, vals)]
            # oracle: ids (mapped back to the canonical numbering) = connected components; each input once;
            # value = union of members; order-free
            back = sorted(tuple(sorted(order[i] for i in k)) for k in ids)
            flat = sorted(i for k in ids for i in k)
            if flat != list(range(len(sets))):
                ctx.fail("spherical_utils.merge", "an input is in no union or in several", inp, impl)
            elif back != want:
                ctx.fail("spherical_utils.merge", "unions are not the connected components of the overlap relation "
                         "(or depend on input order)", inp, {"got": back, "components": want})
            elif any(sorted(set().union(*[sets[i] for i in k])) != v for k, v in zip(ids, vals)):
                ctx.fail("spherical_utils.merge", "a union is not the union of its members", inp, impl)
            if ctx.M:
                rep = ctx.M.ask("merge", len(sets), *[sorted(s) for s in sets])
                model = []
                for t in rep.split()[1:]:
                    ks, vs = t.split("|")
                    model.append((tuple(int(v) for v in ks.split(",")), [int(v) for v in vs.split(",")] if vs else []))
                if model != impl:
                    ctx.disagree("merge", inp, impl, model)
            if has_empty:
                # counted on its own: non-trivial when the empty member stands among other sets
                ctx.case("merge-with-empty-sets", tuple(tuple(sorted(s)) for s in sets), nontrivial=len(sets) >= 2, sample={"input": inp, "impl": impl})
                ctx.count("merge.empty_members.%d" % min(3, sum(1 for s in sets if not s)))
            else:
                ctx.case("merge", tuple(tuple(sorted(s)) for s in sets), nontrivial=any_overlap,
                         sample={"input": inp, "impl": impl})
        ctx.count("merge.components.%d" % min(len(want), 4))


def suite_merge_polygons(ctx):
    """the polygon flavour (GetNonOverlapUnions on SphPolygon objects): the unions are the connected components of the true overlap
    relation (decided independently by hemisphere clipping), for every input order; families at mid latitudes and across the antimeridian"""
    import math

    from pyresample.spherical import SphPolygon
    from pyresample.spherical_utils import GetNonOverlapUnions
    from . import c17
    r = ctx.rng
    centres = [("mid-lat", (0.4, 0.6)), ("antimeridian", (math.pi - 0.02, 0.3)), ("antimeridian-south", (-math.pi + 0.05, -0.5)), ("equator", (1.5, 0.02))]
    done = 0
    attempts = 0
    want_n = 8 if ctx.quick else 48
    while done < want_n and attempts < want_n * 30:
        attempts += 1
        place, (lon0, lat0) = centres[done % len(centres)]
        size = r.choice([0.08, 0.15])
        step = size * r.uniform(1.0, 1.5)
        # a chain of three overlapping polygons along a parallel, plus one polygon well away from them
        V = []
        for k, off in enumerate((-step, 0.0, step, 5 * size + step)):
            V.append(c17.make_polygon(r, "convex", r.randint(4, 6), size * (0.45 if k == 1 else 1.0), (lon0 + off / max(0.2, math.cos(lat0)), lat0 + (0.3 * size if k % 2 else 0.0))))
        if done % 2 == 1:
            # a large polygon with small ones inside / across its edge (around the antimeridian the small ones lie wholly on one side of 180)
            big = r.uniform(0.16, 0.22)
            V = [c17.make_polygon(r, "convex", r.randint(5, 7), big, (lon0, lat0)),
                 c17.make_polygon(r, "convex", r.randint(4, 5), 0.035, (lon0 - big * r.uniform(0.35, 0.6) / max(0.2, math.cos(lat0)), lat0 + 0.02)),
                 c17.make_polygon(r, "convex", r.randint(4, 5), 0.035, (lon0 + big * r.uniform(0.35, 0.6) / max(0.2, math.cos(lat0)), lat0 - 0.03)),
                 c17.make_polygon(r, "convex", r.randint(4, 5), 0.05, (lon0 + 3.0 * big / max(0.2, math.cos(lat0)), lat0))]
        if not all(c17.is_convex_cw(v) for v in V):
            continue
        n = len(V)
        ov = [[i != j and c17.clip_area(V[i], V[j]) > 1e-7 for j in range(n)] for i in range(n)]
        margin = min(c17.min_boundary_distance(V[i], V[j]) for i in range(n) for j in range(n) if i != j)
        if margin < 1e-3 or any(ov[i][j] != ov[j][i] for i in range(n) for j in range(n)):
            continue
        want = _components([frozenset([i] + [j + 100 * 0 for j in range(n) if ov[i][j]]) for i in range(n)])
        done += 1
        orders = [tuple(range(n))] + [tuple(r.sample(range(n), n)) for _ in range(3)]
        for order in orders:
            polys = [SphPolygon(c17.v2ll(V[i]).copy()) for i in order]
            inp = {"place": place, "order": list(order), "polygons_lonlat_rad": [c17.v2ll(V[i]).tolist() for i in order],
                   "true_overlaps": [[int(order.index(i)), int(order.index(j))] for i in range(n) for j in range(i + 1, n) if ov[i][j]]}
            try:
                g = GetNonOverlapUnions(polys)
                g.merge()
                ids = [k if isinstance(k, tuple) else (k,) for k in g.get_ids()]
            except Exception as e:  # noqa
                ctx.fail("spherical_utils.GetNonOverlapUnions.merge", f"raised {type(e).__name__}: {str(e)[:150]}", inp, tags={"place": place}, size=n)
                continue
            back = sorted(tuple(sorted(order[i] for i in k)) for k in ids)
            if back != want:
                ctx.fail("spherical_utils.GetNonOverlapUnions.merge", f"polygons at {place}: the unions {back} are not the connected components {want} of the overlap relation",
                         inp, {"got": back, "components": want}, tags={"place": place}, size=n)
            ctx.case("merge-polygons", (place, order, float(V[0][0][0])), nontrivial=True, sample={"input": {"place": place, "order": list(order)}, "components": want})
        ctx.count("merge.polygons." + place)


def suite_area_slices_divisible(ctx):
    """the divisibility adjustment as the public entry point applies it: AreaDefinition.get_area_slices(area_to_cover, shape_divisible_by=k)
    against the same call without the factor, for sources of every aspect ratio (wide, tall, square) and targets in another projection
    placed all over the source, concentrated near its edges (where a slice runs out of room on one side).  Per axis, with the length of
    THAT axis of the source: the contract of the statement (_div_contract), the unadjusted slice being the 'original'."""
    import warnings

    from pyresample.geometry import AreaDefinition
    r = ctx.rng
    sources = [("longlat", "EPSG:4326", (-60.0, 35.0, 60.0, 65.0)), ("longlat", {"proj": "longlat", "datum": "WGS84"}, (-20.0, 30.0, 40.0, 70.0)),
               ("laea", {"proj": "laea", "lat_0": 52.0, "lon_0": 10.0, "ellps": "WGS84"}, (-2.4e6, -1.2e6, 2.4e6, 1.2e6)),
               ("stere", {"proj": "stere", "lat_0": 90.0, "lat_ts": 60.0, "lon_0": 0.0, "ellps": "WGS84"}, (-1.5e6, -4.5e6, 1.5e6, -1.5e6))]
    shapes = [(240, 60), (60, 200), (90, 36), (37, 150), (64, 64), (200, 25), (18, 75), (120, 45)]       # (width, height)
    factors = [2, 3, 4, 5, 7, 8, 16]
    done = 0
    attempts = 0
    want = 18 if ctx.quick else 150
    while done < want and attempts < want * 4:
        attempts += 1
        sname, sproj, sext = r.choice(sources)
        w, h = r.choice(shapes)
        with warnings.catch_warnings():
            warnings.simplefilter("ignore")
            src = AreaDefinition("src", "src", "src", sproj, w, h, sext)
        # centre of the target as a fraction of the source's width / height: anywhere, or close to one of the four edges
        near = [r.uniform(0.02, 0.12), r.uniform(0.88, 0.98)]
        fu = r.choice(near) if r.random() < 0.5 else r.uniform(0.1, 0.9)
        fv = r.choice(near) if r.random() < 0.5 else r.uniform(0.1, 0.9)
        cx, cy = sext[0] + fu * (sext[2] - sext[0]), sext[3] - fv * (sext[3] - sext[1])
        lon0, lat0 = (float(v) for v in src.get_lonlat_from_projection_coordinates(cx, cy))
        if not (np.isfinite(lon0) and np.isfinite(lat0)):
            continue
        # size of the target: a fraction of the source's shorter side, in metres on the ground
        px_m = (sext[2] - sext[0]) / w * (111000.0 if sname == "longlat" else 1.0)
        py_m = (sext[3] - sext[1]) / h * (111000.0 if sname == "longlat" else 1.0)
        half = r.uniform(0.04, 0.3) * min(w * px_m * (np.cos(np.radians(lat0)) if sname == "longlat" else 1.0), h * py_m)
        tproj = {"proj": r.choice(["laea", "laea", "stere", "tmerc"]), "lon_0": round(lon0, 3), "lat_0": round(lat0, 3), "ellps": "WGS84"}
        n = r.choice([20, 50])
        with warnings.catch_warnings():
            warnings.simplefilter("ignore")
            dst = AreaDefinition("dst", "dst", "dst", tproj, n, n, (-half, -half, half, half))
            try:
                bx, by = src.get_area_slices(dst)
            except NotImplementedError:
                ctx.count("area_slices_divisible.no_overlap")
                continue
        if bx.step not in (None, 1) or by.step not in (None, 1) or not (0 <= bx.start < bx.stop <= w and 0 <= by.start < by.stop <= h):
            ctx.count("area_slices_divisible.base_not_a_plain_inbounds_slice")
            continue
        done += 1
        for f in r.sample(factors, 3 if ctx.quick else 5):
            with warnings.catch_warnings():
                warnings.simplefilter("ignore")
                ax, ay = src.get_area_slices(dst, shape_divisible_by=f)
            inp = {"source": {"crs": str(sproj)[:80], "shape": [h, w], "extent": list(sext)}, "target": {"crs": tproj, "shape": [n, n], "extent": [-half, -half, half, half]},
                   "target_centre_as_fraction_of_source": [round(fu, 3), round(fv, 3)], "shape_divisible_by": f,
                   "slices_without_factor": {"x": [bx.start, bx.stop], "y": [by.start, by.stop]}}
            probs = []
            for axis, base, adj, length in (("x", bx, ax, w), ("y", by, ay, h)):
                if adj.step not in (None, 1):
                    probs.append(f"{axis}: step {adj.step}")
                    continue
                pp = _div_contract(base.start, base.stop, length, f, (adj.start, adj.stop))
                if pp:
                    probs.append(f"{axis} axis (length {length}): slice({base.start}, {base.stop}) -> slice({adj.start}, {adj.stop}): " + ",".join(pp))
            if probs:
                ctx.fail("AreaDefinition.get_area_slices", "divisibility contract broken for the slices of the source area: " + "; ".join(probs), inp,
                         {"x": [ax.start, ax.stop], "y": [ay.start, ay.stop]}, tags={"non_square_source": w != h}, size=f + 5)
            rem = (bx.stop - bx.start) % f != 0 or (by.stop - by.start) % f != 0
            ctx.case("area_slices_divisible", (sname, w, h, round(fu, 6), round(fv, 6), round(half, 3), f), nontrivial=rem and w != h,
                     sample={"input": inp, "impl": {"x": [ax.start, ax.stop], "y": [ay.start, ay.stop]}})
            ctx.count("area_slices_divisible." + ("square" if w == h else "wide" if w > h else "tall"))


def run(ctx):
    suite_merge_polygons(ctx)
    suite_getslice(ctx)
    suite_enumchunks(ctx)
    suite_rowapp(ctx)
    suite_divisible(ctx)
    suite_merge(ctx)
    suite_area_slices_divisible(ctx)
    suite_rowapp_reads(ctx)
