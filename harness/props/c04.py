"""C04 — weighted resampling is the normalised weighted mean of the neighbours in range."""
import math
import warnings
from fractions import Fraction

import numpy as np

from . import kdcommon as kc

META = {
    "rule": "one case = (geometry pair, radius, k, weight functions / sigmas, data variant, with_uncert, fill). k in "
            "{2,3,4,8,32, > n}; weight functions: piecewise-constant dyadic (exact), 1/(1+d), inverse-distance 1/d**2 "
            "(singular at 0), Gaussian with scalar or per-channel sigmas; data: single / multi channel, masked, constant "
            "fields, and one variant per pair in a memory layout that is not C-contiguous (Fortran order, transposed / strided / reversed view). "
            "Integer data (uint8, int8, int16, uint16, int32) at / near the top of the dtype's range, spread over it, near its bottom, through gauss / custom with "
            "fill_value=None against the brute-force oracle (a location with neighbours in range is not masked; means equal to the dtype maximum left out). "
            "Each real output element is compared (1e-9 rel.) with the model's weighted mean over the real "
            "neighbour info and with a brute-force k-nearest oracle. Non-trivial: some target has between 1 and k-1 "
            "neighbours in range, or >= 2 channels with different weight functions. Distinct = distinct canonical input.",
    "assumptions": ["weights w(d) are computed by calling the caller's function on the real distance array (data for the model)",
                    "float accumulation of <= 32 products compared with the exact rational value to 1e-9 relative",
                    "targets whose k-th and (k+1)-th nearest distances tie within 1e-9 are skipped in the brute-force oracle"],
}

REL = 1e-9


def _wfuncs(rng):
    def step(d):
        return np.where(d < 5000, 1.0, np.where(d < 50000, 0.5, 0.125))

    def soft(d):
        return 1.0 / (1.0 + d / 10000.0)

    def idw(d):
        with np.errstate(divide="ignore"):
            return 1.0 / d ** 2

    def lin(d):
        return np.maximum(0.0, 1.0 - d / 3.0e5)
    def sharp(d):
        # falls off fast against the radius: far neighbours get a tiny but positive relative weight
        return np.exp(-(d / 4000.0) ** 2)
    return {"step": step, "soft": soft, "idw": idw, "lin": lin, "sharp": sharp}


def _close(a, b):
    return abs(a - b) <= REL * max(1.0, abs(a), abs(b))


LAYOUTS = ("fortran", "transposed_view", "strided_view", "reversed_view")


def _relayout(a, layout):
    """the same array as far as numpy semantics go (np.array_equal, same shape and dtype) in another memory layout: the value that belongs to
    source location (row, col) is a[row, col], however the elements are laid out in memory"""
    if isinstance(a, np.ma.MaskedArray):
        return np.ma.array(_relayout(np.ma.getdata(a), layout), mask=_relayout(np.ma.getmaskarray(a), layout))
    if layout == "fortran":                      # column-major copy (np.asfortranarray, arrays read from Fortran-written files)
        out = np.asfortranarray(a)
    elif layout == "transposed_view":            # .T of a C-contiguous array
        out = np.ascontiguousarray(a.T).T
    elif layout == "strided_view":               # every second element of the last axis of a wider array
        big = np.zeros(a.shape[:-1] + (2 * a.shape[-1],), dtype=a.dtype)
        big[..., ::2] = a
        out = big[..., ::2]
    else:                                        # negative stride on the first axis
        out = np.ascontiguousarray(a[::-1])[::-1]
    assert out.shape == a.shape and out.dtype == a.dtype and np.array_equal(out, a)
    return out


def check(ctx, src, tgt, radius, desc):
    from pyresample import kd_tree
    slo, sla = kc.lonlats(src)
    tlo, tla = kc.lonlats(tgt)
    d, sv, tv = kc.dist_matrix(slo.ravel(), sla.ravel(), tlo.ravel(), tla.ravel())
    n_src, n_tgt = d.shape[1], d.shape[0]
    n_valid = int(sv.sum())
    if n_valid == 0 or not tv.any():
        return
    r = ctx.rng
    k = r.choice([2, 3, 4, 8, 32, n_src + 3])
    wf = _wfuncs(r)
    ids = np.arange(n_src, dtype=float)
    variants = []
    v1 = (ids * 7 % 23) - 5.0
    plain = [n_ for n_ in wf if n_ != "sharp"]
    variants.append(("1ch", v1.reshape(src.shape), [r.choice(plain)], None))
    v3 = np.stack([v1, ids * 0 + 4.25, (ids % 5) * 1.5], axis=-1)
    variants.append(("3ch", v3.reshape(tuple(src.shape) + (3,)), [r.choice(plain) for _ in range(3)], None))
    m = np.array([r.random() < 0.25 for _ in range(n_src)])
    variants.append(("masked1ch", np.ma.array(v1.reshape(src.shape), mask=m.reshape(src.shape)), [r.choice(["step", "soft", "lin", "sharp", "sharp"])], m))
    m2 = np.stack([m, ~m], axis=-1)
    variants.append(("masked2ch", np.ma.array(v3[:, :2].reshape(tuple(src.shape) + (2,)), mask=m2.reshape(tuple(src.shape) + (2,))),
                     [r.choice(["step", "soft", "sharp"]), "lin"], m2))
    # data with a large offset against its spread (e.g. epoch seconds): the estimator must not cancel
    variants.append(("1ch_offset", (v1 + 1.7e9).reshape(src.shape), [r.choice(["step", "soft", "lin"])], None))
    # one of the variants above once more in a memory layout that is not C-contiguous (same values, same shape, same dtype)
    base_v = r.choice(variants[:3])
    layout = r.choice(LAYOUTS)
    lay_data = _relayout(base_v[1], layout)
    variants.append((f"{base_v[0]}[{layout}]", lay_data, base_v[2], base_v[3]))
    ctx.count("layout." + layout + (".not_c_contiguous" if not np.ma.getdata(lay_data).flags["C_CONTIGUOUS"] else ".c_contiguous(degenerate shape)"))
    # masked two-channel data in which few elements are masked and only in channel 0, with a different weight function per channel:
    # most results stay unmasked, so the *values* of both channels are compared (in "masked2ch" nearly everything is masked)
    ms = np.array([r.random() < 0.1 for _ in range(n_src)])
    m2s = np.stack([ms, np.zeros_like(ms)], axis=-1)
    variants.append(("masked2ch_sparse", np.ma.array(v3[:, [0, 2]].reshape(tuple(src.shape) + (2,)), mask=m2s.reshape(tuple(src.shape) + (2,))),
                     [r.choice(["step", "soft"]), "lin"], m2s))
    with warnings.catch_warnings():
        warnings.simplefilter("ignore")
        vii, voi, ia, da = kd_tree.get_neighbour_info(src, tgt, radius, neighbours=k, epsilon=0, reduce_data=False, segments=1)
    ia, da = np.asarray(ia).reshape(-1, k), np.asarray(da).reshape(-1, k)
    tsel = np.flatnonzero(tv)
    sel = np.flatnonzero(sv)
    inp0 = {"pair": desc, "n_src": int(n_src), "n_tgt": int(n_tgt), "radius": float(radius), "k": int(k)}
    # brute force: the k nearest valid sources within the radius
    order = np.argsort(d, axis=1, kind="stable")
    for vname, data, fnames, mask in variants:
        nch = 0 if data.ndim == len(src.shape) else data.shape[-1]
        funcs = [wf[f] for f in fnames]
        for with_uncert in (False, True):
            fill = r.choice([-999.0, None])
            inp = {**inp0, "data": vname, "weight_funcs": fnames, "with_uncert": with_uncert, "fill_value": fill}
            try:
                with warnings.catch_warnings():
                    warnings.simplefilter("ignore")
                    out = kd_tree.resample_custom(src, data, tgt, radius, funcs if nch else funcs[0], neighbours=k, epsilon=0, fill_value=fill,
                                                  reduce_data=False, segments=1, with_uncert=with_uncert)
            except Exception as e:  # noqa
                ctx.fail("kd_tree.resample_custom", f"raised {type(e).__name__}: {e}", inp, size=n_src + n_tgt)
                continue
            res, std, cnt = out if with_uncert else (out, None, None)
            shape = tuple(tgt.shape) + ((nch,) if nch else ())
            if tuple(res.shape) != shape:
                ctx.fail("kd_tree.resample_custom", "output shape is not the target's shape (+channels)", inp, list(res.shape), size=5)
                continue
            R = np.ma.getdata(res).reshape(n_tgt, max(nch, 1))
            RM = np.ma.getmaskarray(res).reshape(n_tgt, max(nch, 1))
            S = np.ma.filled(std, np.nan).reshape(n_tgt, max(nch, 1)) if with_uncert else None
            C = np.ma.getdata(cnt).reshape(n_tgt, max(nch, 1)) if with_uncert else None
            D = np.ma.getdata(data).reshape(n_src, max(nch, 1))
            for kk, j in enumerate(tsel):
                live = ia[kk] != n_valid
                srcs = sel[np.where(live, ia[kk], 0)]
                for c in range(max(nch, 1)):
                    with np.errstate(all="ignore"):
                        w = np.asarray(funcs[c](np.where(live, da[kk], 1.0)), float) * np.ones(k)
                    xs = D[srcs, c]
                    bad_w = not np.all(np.isfinite(w[live]))
                    # ---- model on the real neighbour info
                    if ctx.M and not bad_w:
                        wq = [Fraction(float(v)) if np.isfinite(v) else Fraction(0) for v in w]
                        rep = ctx.M.ask("wmean", [bool(v) for v in live], wq, [Fraction(float(v)) for v in xs]).split()
                        mval = None if rep[0] == "nan" else float(Fraction(rep[0]))
                        got_fill = bool(RM[j, c]) if (fill is None or mask is not None) else (R[j, c] == fill)
                        if mval is None:
                            if not got_fill and not (mask is not None and fill is not None and R[j, c] == fill):
                                ctx.disagree("wmean", {**inp, "target": int(j), "channel": c}, float(R[j, c]), "fill")
                        elif not _close(float(R[j, c]), mval) and not (mask is not None and RM[j, c]):
                            ctx.disagree("wmean", {**inp, "target": int(j), "channel": c}, float(R[j, c]), mval)
                        if with_uncert:
                            if int(C[j, c]) != int(rep[1]):
                                ctx.disagree("count", {**inp, "target": int(j), "channel": c}, int(C[j, c]), rep[1])
                            mvar = None if rep[2] == "nan" else float(Fraction(rep[2]))
                            wl = w[live & (w > 0)] if np.any(live) else np.array([])
                            sv_ = S[j, c]
                            if RM[j, c]:
                                pass   # a masked result masks its standard deviation too
                            elif mvar is None:
                                # undefined: count <= 1 gives NaN; a vanishing denominator V1^2 - V2 (all but one contributing weight are 0) is a
                                # division by zero in the code, inf or NaN - never a finite number
                                if not (math.isnan(sv_) or (int(rep[1]) > 1 and math.isinf(sv_))):
                                    ctx.disagree("stddev", {**inp, "target": int(j), "channel": c}, float(sv_), "nan")
                                if int(rep[1]) > 1:
                                    ctx.count("stddev.undefined.zero_denominator")
                            elif wl.size and (wl.min() < 1e-6 * wl.max() or wl.max() < 1e-120):   # (or the squares of the weights underflow)
                                ctx.count("stddev.skipped.ill_conditioned_weights")   # V1 - V2/V1 cancels when one weight dominates: float conditioning, not compared
                            elif mvar >= 0 and not (math.isnan(sv_) and mvar < 1e-18) and not abs(sv_ ** 2 - mvar) <= 1e-7 * max(1.0, mvar) + 1e-14 * float(np.abs(xs).max()) * math.sqrt(mvar + 1.0):
                                ctx.disagree("stddev", {**inp, "target": int(j), "channel": c}, float(sv_ ** 2), mvar)
                                # the property itself, with a generous bound: the reported value is not the unbiased weighted estimator
                                if math.isnan(sv_) or abs(sv_ ** 2 - mvar) > 1e-3 * max(1.0, mvar) + 1e-12 * float(np.abs(xs).max()) * math.sqrt(mvar + 1.0):
                                    ctx.fail("kd_tree.resample_custom", f"standard deviation^2 {float(sv_ ** 2)!r} at a location with {rep[1]} neighbours, the unbiased weighted "
                                             f"estimator of the same neighbours gives {mvar!r}", {**inp, "target": int(j), "channel": c},
                                             {"weights": [float(v) for v in w[live]], "values": [float(v) for v in xs[live]]}, tags={"cause": "stddev"}, size=n_src + n_tgt)
                    # ---- brute-force oracle (model-free): k nearest valid sources within the radius
                    within = [s for s in order[j][:k + 1] if d[j, s] <= radius]
                    tie = len(within) > k and abs(d[j, within[k]] - d[j, within[k - 1]]) <= 1e-9 * max(1.0, d[j, within[k - 1]])
                    nearthr = any(abs(d[j, s] - radius) <= 1e-9 * max(1.0, radius) for s in order[j][:k + 1] if np.isfinite(d[j, s]))
                    if tie or nearthr or bad_w:
                        continue
                    contrib = within[:k]
                    with np.errstate(all="ignore"):
                        wb = np.asarray(funcs[c](d[j, contrib]), float) * np.ones(len(contrib)) if contrib else np.array([])
                    if contrib and not np.all(np.isfinite(wb)):
                        continue
                    norm = float(np.sum(wb)) if contrib else 0.0
                    is_fill = bool(RM[j, c]) or (fill is not None and R[j, c] == fill)
                    site = "kd_tree.resample_custom"
                    if norm > 0:
                        want = float(np.sum(wb * D[contrib, c]) / norm)
                        masked_src = mask is not None and any((mask.reshape(n_src, -1)[s, c] and wb[i] > 0) for i, s in enumerate(contrib))
                        if masked_src:
                            if not RM[j, c]:
                                ctx.fail(site, "a masked neighbour with positive weight does not mask the result", {**inp, "target": int(j), "channel": c}, size=n_src + n_tgt)
                                break
                        elif is_fill and not (fill is not None and _close(want, fill)):
                            ctx.fail(site, "location with neighbours in range was filled / masked", {**inp, "target": int(j), "channel": c},
                                     {"neighbours": len(contrib), "expected": want}, tags={"kind": "filled"}, size=n_src + n_tgt)
                            break
                        elif not masked_src and abs(float(R[j, c]) - want) > 1e-6 * max(1.0, abs(want)):
                            ctx.fail(site, "value is not sum(w*x)/sum(w) over the nearest neighbours in range", {**inp, "target": int(j), "channel": c},
                                     {"got": float(R[j, c]), "expected": want, "neighbours": len(contrib)}, tags={"kind": "value"}, size=n_src + n_tgt)
                            break
                        lo_, hi_ = float(np.min(D[contrib, c])), float(np.max(D[contrib, c]))
                        if not masked_src and not (lo_ - 1e-9 * max(1, abs(lo_)) <= float(R[j, c]) <= hi_ + 1e-9 * max(1, abs(hi_))):
                            ctx.fail(site, "value outside the range of the contributing neighbours", {**inp, "target": int(j), "channel": c}, size=n_src + n_tgt)
                            break
                    elif not is_fill:
                        ctx.fail(site, "location without any neighbour of positive weight in range is not filled / masked",
                                 {**inp, "target": int(j), "channel": c}, {"got": float(R[j, c])}, size=n_src + n_tgt)
                        break
                    if with_uncert and int(C[j, c]) != len(contrib):
                        ctx.fail(site, "count differs from the number of contributing neighbours", {**inp, "target": int(j), "channel": c},
                                 {"count": int(C[j, c]), "neighbours": len(contrib)}, size=n_src + n_tgt)
                        break
                    if with_uncert and len(contrib) <= 1 and not math.isnan(S[j, c]):
                        ctx.fail(site, "standard deviation defined although count <= 1", {**inp, "target": int(j), "channel": c}, size=n_src + n_tgt)
                        break
                else:
                    continue
                break
            partial = bool(((ia != n_valid).sum(axis=1) % k != 0).any())
            ctx.case("custom", (desc, vname, str(fnames), with_uncert, str(fill), k), nontrivial=partial or len(set(fnames)) > 1,
                     sample={"input": inp} if vname == "3ch" and with_uncert else None)
    # ---- gauss --------------------------------------------------------------------------------
    sig = [r.choice([5000.0, 25000.0, 2.0e5]) for _ in range(3)]
    for vname, data, sigmas in (("1ch", variants[0][1], sig[0]), ("3ch", variants[1][1], sig), ("masked2ch", variants[3][1], sig[:2]),
                                (variants[5][0], variants[5][1], sig if variants[5][1].ndim > len(src.shape) else sig[0])):
        nch = 0 if data.ndim == len(src.shape) else data.shape[-1]
        inp = {**inp0, "data": vname, "sigmas": sigmas}
        with warnings.catch_warnings():
            warnings.simplefilter("ignore")
            try:
                g, gs, gc = kd_tree.resample_gauss(src, data, tgt, radius, sigmas, neighbours=k, epsilon=0, fill_value=None,
                                                   reduce_data=False, segments=1, with_uncert=True)
                fs = [(lambda dd, s=s: np.exp(-dd ** 2 / float(s) ** 2)) for s in (sigmas if nch else [sigmas])]
                cu, cs, cc = kd_tree.resample_custom(src, data, tgt, radius, fs if nch else fs[0], neighbours=k, epsilon=0, fill_value=None,
                                                     reduce_data=False, segments=1, with_uncert=True)
            except Exception as e:  # noqa
                ctx.fail("kd_tree.resample_gauss", f"raised {type(e).__name__}: {e}", inp, size=n_src + n_tgt)
                continue
        same = np.ma.allequal(g, cu) and np.array_equal(np.ma.getmaskarray(g), np.ma.getmaskarray(cu)) and \
            np.array_equal(np.ma.filled(gc, -1), np.ma.filled(cc, -1)) and np.allclose(np.ma.filled(gs, -1), np.ma.filled(cs, -1), equal_nan=True)
        if not same:
            ctx.fail("kd_tree.resample_gauss", "differs from resample_custom with w(d) = exp(-d^2/sigma^2) for the channel's sigma", inp,
                     tags={"kind": "gauss"}, size=n_src + n_tgt)
        if vname.endswith("]"):
            # memory-layout variant: x_i is the value AT source location i, so the C-contiguous copy of the same array must give the same answer
            # (the C-contiguous data are decided against the brute-force oracle above)
            cdata = np.ma.array(np.ascontiguousarray(np.ma.getdata(data)), mask=np.ascontiguousarray(np.ma.getmaskarray(data))) \
                if isinstance(data, np.ma.MaskedArray) else np.ascontiguousarray(data)
            with warnings.catch_warnings():
                warnings.simplefilter("ignore")
                g2, gs2, gc2 = kd_tree.resample_gauss(src, cdata, tgt, radius, sigmas, neighbours=k, epsilon=0, fill_value=None,
                                                      reduce_data=False, segments=1, with_uncert=True)
            if not (np.array_equal(np.ma.getmaskarray(g), np.ma.getmaskarray(g2)) and np.array_equal(np.ma.filled(g, -1), np.ma.filled(g2, -1), equal_nan=True)
                    and np.array_equal(np.ma.filled(gc, -1), np.ma.filled(gc2, -1)) and np.array_equal(np.ma.filled(gs, -1), np.ma.filled(gs2, -1), equal_nan=True)):
                ctx.fail("kd_tree.resample_gauss", "the result depends on the memory layout of the data array: the same values (np.array_equal) as a "
                         "C-contiguous copy give another weighted mean / count / standard deviation", inp, tags={"kind": "layout"}, size=n_src + n_tgt)
        ctx.case("gauss", (desc, vname, str(sigmas), k), nontrivial=nch > 1 and len(set(sigmas)) > 1, sample={"input": inp} if nch == 3 else None)


def suite_no_neighbour_locations(ctx):
    """locations that cannot get a value - target pixels without valid coordinates (space pixels of a geostationary disk), targets out of reach,
    a source the target does not overlap at all - carry the fill value / are masked, count 0 and NO standard deviation, for every dtype and fill"""
    from pyresample import kd_tree
    from pyresample.geometry import SwathDefinition
    r = ctx.rng
    geos = {"proj": "geos", "h": 35785831.0, "lon_0": 0.0, "a": 6378169.0, "b": 6356583.8}
    disk = kc.mk_area(geos, 9, 9, (-5570000.0, -5570000.0, 5570000.0, 5570000.0))
    laea_far = kc.mk_area({"proj": "laea", "lat_0": -60, "lon_0": 150, "ellps": "WGS84"}, 5, 4, (-2.0e5, -2.0e5, 2.0e5, 2.0e5))
    lon, lat = kc.swath(r, 9, 8, 5.0, 10.0, 30.0)
    src = SwathDefinition(lon, lat)
    n_src = lon.size
    ids = np.arange(n_src, dtype=float).reshape(lon.shape)

    def wfun(dd):
        return np.where(dd < 2.0e5, 1.0, 0.25)
    for tname, tgt, radius in (("geos-disk", disk, 9.0e5), ("no-overlap", laea_far, 2.0e5)):
        tlo, tla = kc.lonlats(tgt)
        d, sv, tv = kc.dist_matrix(lon.ravel(), lat.ravel(), tlo.ravel(), tla.ravel())
        has = ((d <= radius) & sv[None, :] & tv[:, None]).any(axis=1).reshape(tgt.shape)
        cnt_true = ((d <= radius) & sv[None, :] & tv[:, None]).sum(axis=1).reshape(tgt.shape)
        for dtype, fill in ((np.float64, -999.0), (np.float64, None), (np.int16, -0.5), (np.int16, float("nan")), (np.int16, -9999.25), (np.int32, 7)):
            for reduce_data in (False, True):
                for which in ("custom", "gauss"):
                    data = (ids * 3 % 50).astype(dtype)
                    inp = {"target": tname, "dtype": np.dtype(dtype).name, "fill_value": None if fill is None else (str(fill) if fill != fill else fill),
                           "reduce_data": reduce_data, "type": which, "radius": radius}
                    try:
                        with warnings.catch_warnings(), np.errstate(all="ignore"):
                            warnings.simplefilter("ignore")
                            if which == "custom":
                                out = kd_tree.resample_custom(src, data, tgt, radius, wfun, neighbours=8, epsilon=0, fill_value=fill, reduce_data=reduce_data, with_uncert=True)
                            else:
                                out = kd_tree.resample_gauss(src, data, tgt, radius, radius / 2, neighbours=8, epsilon=0, fill_value=fill, reduce_data=reduce_data, with_uncert=True)
                    except Exception as e:  # noqa
                        ctx.fail("kd_tree.resample_" + which, f"raised {type(e).__name__}: {str(e)[:150]}", inp, tags={"cause": "raises"}, size=n_src)
                        continue
                    res, std, cnt = out
                    ctx.case("no-neighbour", (tname, str(dtype), str(fill), reduce_data, which), nontrivial=bool((~has).any()))
                    ctx.count("no_neighbour." + tname)
                    RM, SM = np.ma.getmaskarray(res), np.ma.getmaskarray(std)
                    Rv, Sv, Cv = np.ma.getdata(res).astype(float), np.ma.getdata(std).astype(float), np.ma.getdata(cnt)
                    probs = []
                    empty = ~has
                    if fill is None:
                        if not RM[empty].all():
                            probs.append("a location without any neighbour is not masked")
                    elif fill != fill:
                        if not (np.isnan(Rv[empty]) | RM[empty]).all():
                            probs.append(f"a location without any neighbour holds {Rv[empty][~(np.isnan(Rv[empty]) | RM[empty])][0]} instead of the NaN fill value")
                    elif not (Rv[empty] == fill).all():
                        probs.append(f"a location without any neighbour holds {Rv[empty][Rv[empty] != fill][0]} instead of the fill value {fill}")
                    le1 = cnt_true <= 1
                    sd_defined = ~(np.isnan(Sv) | SM)
                    if (sd_defined & le1).any():
                        k_ = tuple(map(int, np.argwhere(sd_defined & le1)[0]))
                        probs.append(f"standard deviation {Sv[k_]} is defined at {k_} where {int(cnt_true[k_])} neighbour(s) contribute")
                    if (np.asarray(Cv)[empty] != 0).any():
                        probs.append("count is not 0 at a location without any neighbour")
                    if probs:
                        ctx.fail("kd_tree.resample_" + which, f"{tname} target, {np.dtype(dtype).name} data, fill {fill}: " + "; ".join(probs[:3]), inp, None,
                                 tags={"cause": "no-neighbour-location"}, size=n_src)


INT_DTYPES = (np.uint8, np.int16, np.int32, np.uint16, np.int8)


def suite_integer_data_near_dtype_max(ctx):
    """integer data whose values sit at / near the top of their dtype's range (a saturated detector, counts close to the largest code, large int32
    values) through resample_gauss / resample_custom with fill_value=None and k > 1.  The statement does not depend on the dtype: a location with
    neighbours in range carries sum(w*x)/sum(w) over them - it is not masked - and only locations without a neighbour are masked.  Oracle: brute force
    over all source x target chord distances (k nearest valid sources within the radius, weights by calling the weight function on those distances).
    Locations whose weighted mean is within 1e-9 (relative) of the dtype's maximum are left out: with fill_value=None the library marks empty locations with
    that number, so a mean equal to it cannot be told from "no neighbour" (counted, not compared).  Control patterns: values spread over the whole
    range, values near the bottom of the range."""
    from pyresample import kd_tree
    r = ctx.rng
    wf = _wfuncs(r)
    n_pairs = 8 if ctx.quick else 60
    lim = (80, 60) if ctx.quick else (250, 200)
    done = tries = 0
    while done < n_pairs and tries < 40 * n_pairs:
        tries += 1
        src, tgt, radius, desc = kc.geometry_pair(r, *lim)
        if radius == 0.0:
            radius = 1000.0
        slo, sla = kc.lonlats(src)
        tlo, tla = kc.lonlats(tgt)
        d, sv, tv = kc.dist_matrix(slo.ravel(), sla.ravel(), tlo.ravel(), tla.ravel())
        n_src, n_tgt = d.shape[1], d.shape[0]
        in_range = (d <= radius).sum(axis=1)
        if not (in_range >= 2).any():
            continue            # no location with more than one neighbour: nothing is averaged
        done += 1
        k = r.choice([2, 3, 4, 8, 32])
        order = np.argsort(d, axis=1, kind="stable")
        g = np.random.default_rng(r.getrandbits(32))
        geo = {"source": kc.describe(src), "target": kc.describe(tgt)}
        for dtype in r.sample(INT_DTYPES, 2 if ctx.quick else 4):
            info = np.iinfo(dtype)
            top = int(info.max)
            for pattern in ("saturated", "near_top", r.choice(["spread", "near_bottom"])):
                if pattern == "saturated":          # everything at the largest code, a quarter of the pixels 1..3 counts darker
                    vals = np.full(n_src, top, dtype=np.int64)
                    dark = g.random(n_src) < 0.25
                    vals[dark] -= g.integers(1, 4, size=int(dark.sum()))
                elif pattern == "near_top":         # within a small fraction of the range below the largest code
                    span = max(4, int((top - int(info.min)) * r.choice([1e-5, 1e-4, 1e-2])))
                    vals = top - g.integers(0, span + 1, size=n_src)
                elif pattern == "spread":
                    vals = g.integers(int(info.min), top + 1, size=n_src)
                else:
                    vals = int(info.min) + g.integers(0, 5, size=n_src)
                nch = r.choice([0, 0, 2])
                if nch:
                    vals = np.stack([vals, np.where(g.random(n_src) < 0.5, vals, top)], axis=-1)
                data = vals.astype(dtype).reshape(tuple(src.shape) + ((nch,) if nch else ()))
                assert np.array_equal(data.reshape(vals.shape).astype(np.int64), vals)
                which = r.choice(["gauss", "custom"])
                with_uncert = r.random() < 0.3
                if which == "gauss":
                    sig = [float(radius) * r.choice([0.3, 1.0, 3.0]) for _ in range(max(nch, 1))]
                    fnames = [f"gauss(sigma={s_:.6g})" for s_ in sig]
                    funcs = [(lambda dd, s_=s_: np.exp(-dd ** 2 / s_ ** 2)) for s_ in sig]
                else:
                    fnames = [r.choice(["soft", "lin"]) for _ in range(max(nch, 1))]
                    funcs = [wf[f] for f in fnames]
                inp = {"pair": desc, "n_src": int(n_src), "n_tgt": int(n_tgt), "radius": float(radius), "k": int(k), "dtype": np.dtype(dtype).name,
                       "pattern": pattern, "channels": nch, "type": which, "weight_funcs": fnames, "with_uncert": with_uncert, "fill_value": None}
                site = "kd_tree.resample_" + which
                try:
                    with warnings.catch_warnings(), np.errstate(all="ignore"):
                        warnings.simplefilter("ignore")
                        if which == "gauss":
                            out = kd_tree.resample_gauss(src, data, tgt, radius, sig if nch else sig[0], neighbours=k, epsilon=0, fill_value=None,
                                                         reduce_data=False, segments=1, with_uncert=with_uncert)
                        else:
                            out = kd_tree.resample_custom(src, data, tgt, radius, funcs if nch else funcs[0], neighbours=k, epsilon=0, fill_value=None,
                                                          reduce_data=False, segments=1, with_uncert=with_uncert)
                except Exception as e:  # noqa
                    ctx.fail(site, f"raised {type(e).__name__}: {str(e)[:150]}", inp, tags={"cause": "raises"}, size=n_src + n_tgt)
                    continue
                res = out[0] if with_uncert else out
                shape = tuple(tgt.shape) + ((nch,) if nch else ())
                if tuple(res.shape) != shape:
                    ctx.fail(site, "output shape is not the target's shape (+channels)", inp, list(res.shape), size=5)
                    continue
                Rv = np.ma.getdata(res).astype(float).reshape(n_tgt, max(nch, 1))
                RM = np.ma.getmaskarray(res).reshape(n_tgt, max(nch, 1))
                D = vals.reshape(n_src, max(nch, 1)).astype(float)
                averaged = 0
                failed = False
                for j in range(n_tgt):
                    near = order[j][:k + 1]
                    within = [s_ for s_ in near if d[j, s_] <= radius]
                    tie = len(within) > k and abs(d[j, within[k]] - d[j, within[k - 1]]) <= 1e-9 * max(1.0, d[j, within[k - 1]])
                    nearthr = any(abs(d[j, s_] - radius) <= 1e-9 * max(1.0, radius) for s_ in near if np.isfinite(d[j, s_]))
                    if tie or nearthr:
                        ctx.count("int_near_max.skipped.tie_or_threshold")
                        continue
                    contrib = within[:k]
                    for c in range(max(nch, 1)):
                        wb = np.asarray(funcs[c](d[j, contrib]), float) * np.ones(len(contrib)) if contrib else np.array([])
                        norm = float(wb.sum()) if contrib else 0.0
                        loc = {**inp, "target_index": int(j), "channel": c}
                        if not norm > 0:
                            if not RM[j, c]:
                                ctx.fail(site, "location without any neighbour of positive weight in range is not masked (fill_value=None)", {**loc, **geo},
                                         {"got": float(Rv[j, c])}, tags={"kind": "not-masked", "dtype": np.dtype(dtype).name}, size=n_src + n_tgt)
                                failed = True
                                break
                            continue
                        want = float((wb * D[contrib, c]).sum() / norm)
                        if top - want <= REL * max(1.0, float(top)):
                            ctx.count("int_near_max.left_out.mean_equals_dtype_max")
                            continue
                        if len(contrib) >= 2:
                            averaged += 1
                        observed = {"neighbours": len(contrib), "expected": want, "dtype_max": top, "values": [int(v) for v in D[contrib, c]],
                                    "weights": [float(v) for v in wb], "distances": [float(v) for v in d[j, contrib]]}
                        if RM[j, c]:
                            ctx.fail(site, f"{np.dtype(dtype).name} data, fill_value=None: a location with {len(contrib)} neighbour(s) in range is masked instead of "
                                     f"carrying their weighted mean {want!r} (which is not the dtype's maximum {top})", {**loc, **geo}, observed,
                                     tags={"kind": "filled", "dtype": np.dtype(dtype).name}, size=n_src + n_tgt)
                            failed = True
                            break
                        if not _close(float(Rv[j, c]), want):
                            ctx.fail(site, f"{np.dtype(dtype).name} data: value is not sum(w*x)/sum(w) over the nearest neighbours in range", {**loc, **geo},
                                     {**observed, "got": float(Rv[j, c])}, tags={"kind": "value", "dtype": np.dtype(dtype).name}, size=n_src + n_tgt)
                            failed = True
                            break
                    if failed:
                        break
                ctx.count(f"int_near_max.{np.dtype(dtype).name}.{pattern}")
                ctx.case("int_near_max", (desc, np.dtype(dtype).name, pattern, which, str(fnames), k, nch, with_uncert), nontrivial=averaged > 0,
                         sample={"input": inp, "locations_averaging_2_or_more": averaged} if pattern == "near_top" else None)


def _same_ma(a, b):
    return a.shape == b.shape and np.array_equal(np.ma.getmaskarray(a), np.ma.getmaskarray(b)) and \
        np.array_equal(np.ma.filled(np.ma.asarray(a).astype(float), np.nan), np.ma.filled(np.ma.asarray(b).astype(float), np.nan), equal_nan=True)


def suite_masked_source_coordinates(ctx):
    """Source geometries whose longitude / latitude arrays are numpy MASKED arrays (a geolocation quality flag: scattered pixels, whole scan lines, columns,
    a block), with ordinary in-range numbers under the mask.  A location whose coordinate is masked is not a valid source location, so it is not among
    "the neighbours in range": the weighted mean / count / standard deviation are those of (a) the same swath with these locations made invalid the plain way
    (NaN / 1e30 / 181 degrees in an ordinary array), (b) for 1-D swaths the swath with these locations (and their data) removed - both compared exactly -
    and (c), with reduce_data=False, the brute-force weighted mean over the k nearest unmasked valid sources within the radius (1e-6 relative), count = their number."""
    import random
    from pyresample import kd_tree
    from pyresample.geometry import SwathDefinition
    r = random.Random(f"c04-masked-source-coordinates-{ctx.seed}")
    wf = _wfuncs(r)
    n_pairs = 12 if ctx.quick else 80
    for pi in range(n_pairs):
        name, lon0, lat0 = r.choice(kc.PLACES)
        span = r.choice([0.2, 1.0, 5.0])
        res = span * 111000.0 / 12
        n_r, n_c = r.randrange(2, 9), r.randrange(2, 10)
        lon, lat = kc.swath(r, n_r, n_c, lon0, lat0, span, r.choice([0.0, 0.0, 0.1]))
        pattern = r.choice(["scattered", "scattered", "scan-lines", "columns", "block"])

        def draw_mask():
            m = np.zeros((n_r, n_c), bool)
            if pattern == "scattered":
                f = r.choice([0.1, 0.25, 0.5])
                m = np.array([[r.random() < f for _ in range(n_c)] for _ in range(n_r)])
            elif pattern == "scan-lines":
                m[r.sample(range(n_r), r.randrange(1, max(2, n_r // 2 + 1)))] = True
            elif pattern == "columns":
                m[:, r.sample(range(n_c), r.randrange(1, max(2, n_c // 2 + 1)))] = True
            else:
                a, b = r.randrange(n_r), r.randrange(n_c)
                m[a: a + r.randrange(1, n_r + 1), b: b + r.randrange(1, n_c + 1)] = True
            return m
        which = r.choice(["both", "both", "lons-only", "lats-only", "different"])
        m_lon = draw_mask()
        m_lat = m_lon if which == "both" else draw_mask()
        if which == "lons-only":
            m_lat = np.zeros_like(m_lon)
        elif which == "lats-only":
            m_lon, m_lat = np.zeros_like(m_lon), m_lon
        excluded = m_lon | m_lat
        ok = kc.valid(lon, lat)
        if not excluded.any() or int((ok & ~excluded).sum()) < 2:
            ctx.count("masked_src_coords.redrawn")
            continue
        under = r.choice(["own-coordinates", "own-coordinates", "other-in-range-numbers"])
        raw_lon, raw_lat = lon.copy(), lat.copy()
        if under == "other-in-range-numbers":
            for i, j in zip(*np.nonzero(excluded)):
                raw_lon[i, j] = max(-180.0, min(180.0, lon0 + r.uniform(-span, span) / 2))
                raw_lat[i, j] = max(-90.0, min(90.0, lat0 + r.uniform(-span, span) / 2))
        one_d = r.random() < 0.35
        shape = (n_r * n_c,) if one_d else (n_r, n_c)
        raw_lon, raw_lat, m_lon, m_lat, excluded = (v.reshape(shape) for v in (raw_lon, raw_lat, m_lon, m_lat, excluded))
        hard = r.random() < 0.3
        src = SwathDefinition(np.ma.array(raw_lon.copy(), mask=m_lon.copy(), hard_mask=hard), np.ma.array(raw_lat.copy(), mask=m_lat.copy(), hard_mask=hard))
        # (a) the same locations made invalid the plain way, in ordinary arrays
        inv_value = r.choice([float("nan"), 1e30, 181.0])
        eq_lon = np.where(excluded, inv_value, raw_lon)
        eq_lat = np.where(excluded, 95.0 if inv_value == 181.0 else inv_value, raw_lat)
        src_invalid = SwathDefinition(eq_lon, eq_lat)
        if r.random() < 0.5:
            tgt, tkind = kc.area_at(r, lon0 + r.uniform(-span, span) / 4, lat0 + r.uniform(-span, span) / 4, r.randrange(2, 8), r.randrange(2, 8), res * r.choice([0.5, 1, 2]))
            tdesc = f"area[{tkind} {tgt.height}x{tgt.width}]"
        else:
            t_r, t_c = r.randrange(1, 7), r.randrange(2, 8)
            tlon, tlat = kc.swath(r, t_r, t_c, lon0 + r.uniform(-span, span) / 4, lat0 + r.uniform(-span, span) / 4, span * r.choice([0.5, 1.0]))
            tgt, tdesc = SwathDefinition(tlon, tlat), f"swath[{t_r}x{t_c}]"
        radius = r.choice([res, res * 3, res * 20])
        k = r.choice([2, 3, 4, 8])
        n_src = raw_lon.size
        nch = r.choice([0, 0, 2])
        ids = np.arange(n_src, dtype=float)
        vals = (ids * 7 % 23) - 5.0 if not nch else np.stack([(ids * 7 % 23) - 5.0, (ids % 5) * 1.5 + 100.0], axis=-1)
        data = vals.reshape(shape + ((nch,) if nch else ()))
        tlo, tla = kc.lonlats(tgt)
        d_all, sv, tv = kc.dist_matrix(raw_lon.ravel(), raw_lat.ravel(), tlo.ravel(), tla.ravel())
        n_tgt = d_all.shape[0]
        d = d_all.copy()
        d[:, excluded.ravel()] = np.inf
        order = np.argsort(d, axis=1, kind="stable")
        # would a masked location be among the k nearest in range of some target if its coordinates counted?
        order_all = np.argsort(d_all, axis=1, kind="stable")[:, :k]
        sensitive = bool((excluded.ravel()[order_all] & (np.take_along_axis(d_all, order_all, axis=1) <= radius)).any())
        ctx.count("masked_src_coords.pattern." + pattern)
        ctx.count("masked_src_coords.arrays." + which)
        ctx.count("masked_src_coords.sensitive" if sensitive else "masked_src_coords.insensitive")
        geo = {"source_shape": list(shape), "masked_lons": [bool(v) for v in m_lon.ravel()], "masked_lats": [bool(v) for v in m_lat.ravel()],
               "lons_data_under_and_outside_the_mask": [None if not np.isfinite(v) else float(v) for v in raw_lon.ravel()],
               "lats_data_under_and_outside_the_mask": [None if not np.isfinite(v) else float(v) for v in raw_lat.ravel()], "target": kc.describe(tgt)}
        for typ in ("gauss", "custom"):
            if typ == "gauss":
                sig = [float(radius) * r.choice([0.3, 1.0, 3.0]) for _ in range(max(nch, 1))]
                fnames = [f"gauss(sigma={s_:.6g})" for s_ in sig]
                funcs = [(lambda dd, s_=s_: np.exp(-dd ** 2 / s_ ** 2)) for s_ in sig]
            else:
                fnames = [r.choice(["soft", "lin", "step"]) for _ in range(max(nch, 1))]
                funcs = [wf[f] for f in fnames]
            for reduce_data in (False, True):
                inp = {"pair": f"{name}: masked-coordinate swath{list(shape)} -> {tdesc}", "n_src": int(n_src), "n_masked_locations": int(excluded.sum()), "mask_pattern": pattern,
                       "masked_arrays": which, "hard_mask": hard, "under_the_mask": under, "radius": float(radius), "k": int(k), "channels": nch, "type": typ, "weight_funcs": fnames,
                       "reduce_data": reduce_data, "fill_value": None, "with_uncert": True}
                site = "kd_tree.resample_" + typ

                def call(source, dat):
                    with warnings.catch_warnings(), np.errstate(all="ignore"):
                        warnings.simplefilter("ignore")
                        if typ == "gauss":
                            return kd_tree.resample_gauss(source, dat, tgt, radius, sig if nch else sig[0], neighbours=k, epsilon=0, fill_value=None,
                                                          reduce_data=reduce_data, segments=1, with_uncert=True)
                        return kd_tree.resample_custom(source, dat, tgt, radius, funcs if nch else funcs[0], neighbours=k, epsilon=0, fill_value=None,
                                                       reduce_data=reduce_data, segments=1, with_uncert=True)
                try:
                    res, std, cnt = call(src, data)
                except Exception as e:  # noqa
                    ctx.fail(site, f"source swath with masked coordinate arrays: raised {type(e).__name__}: {str(e)[:150]}", {**inp, **geo}, tags={"cause": "raises"}, size=n_src + n_tgt)
                    continue
                ctx.case("masked_src_coords", (pi, name, pattern, which, under, one_d, typ, reduce_data, k, nch, float(radius), float(raw_lon.ravel()[0])), nontrivial=sensitive,
                         sample={"input": inp} if sensitive and typ == "gauss" and not reduce_data else None)
                refs = [(f"the same swath with these locations invalid in plain arrays ({inv_value})", src_invalid, data)]
                if one_d:
                    keep = ~excluded
                    refs.append(("the swath with these locations and their data removed", SwathDefinition(raw_lon[keep], raw_lat[keep]), data[keep]))
                failed = False
                for rname, rsrc, rdata in refs:
                    res2, std2, cnt2 = call(rsrc, rdata)
                    diff = [nm for nm, a, b in (("weighted mean", res, res2), ("standard deviation", std, std2), ("count", cnt, cnt2)) if not _same_ma(a, b)]
                    if diff:
                        a_, b_ = np.ma.filled(np.ma.asarray(res).astype(float), np.nan).reshape(n_tgt, -1), np.ma.filled(np.ma.asarray(res2).astype(float), np.nan).reshape(n_tgt, -1)
                        rows = np.nonzero(~((a_ == b_) | (np.isnan(a_) & np.isnan(b_))).all(axis=1))[0]
                        obs = {"differing": diff, "n_target_locations_with_another_mean": int(rows.size)}
                        if rows.size:
                            j = int(rows[0])
                            obs["first"] = {"target_index": j, "got": a_[j].tolist(), "reference": b_[j].tolist(),
                                            "count_got": np.ma.getdata(cnt).reshape(n_tgt, -1)[j].tolist(), "count_reference": np.ma.getdata(cnt2).reshape(n_tgt, -1)[j].tolist()}
                        ctx.fail(site, f"{int(excluded.sum())} of {n_src} source locations have a masked longitude / latitude ({pattern}, {which}; {under} under the mask): "
                                 f"{', '.join(diff)} differ from {rname}", {**inp, **geo}, obs, tags={"cause": "masked-source-coordinates", "reference": rname.split(" (")[0]}, size=n_src + n_tgt)
                        failed = True
                        break
                if failed or reduce_data:
                    continue        # (what the reduction of the source to the target's surroundings may drop is another property's: known finding F7 of C03)
                # (c) brute force over the unmasked valid locations
                Rv = np.ma.filled(np.ma.asarray(res).astype(float), np.nan).reshape(n_tgt, max(nch, 1))
                Cv = np.ma.getdata(cnt).reshape(n_tgt, max(nch, 1))
                D = vals.reshape(n_src, max(nch, 1))
                for j in np.flatnonzero(tv):
                    near = order[j][:k + 1]
                    within = [s_ for s_ in near if d[j, s_] <= radius]
                    tie = len(within) > k and abs(d[j, within[k]] - d[j, within[k - 1]]) <= 1e-9 * max(1.0, d[j, within[k - 1]])
                    nearthr = any(abs(d[j, s_] - radius) <= 1e-9 * max(1.0, radius) for s_ in near if np.isfinite(d[j, s_]))
                    if tie or nearthr:
                        continue
                    contrib = within[:k]
                    bad = None
                    for c in range(max(nch, 1)):
                        wb = np.asarray(funcs[c](d[j, contrib]), float) * np.ones(len(contrib)) if contrib else np.array([])
                        norm = float(wb.sum()) if contrib else 0.0
                        if not norm > 0:
                            if not math.isnan(Rv[j, c]):
                                bad = ("location without any unmasked neighbour of positive weight in range is not masked", {"got": float(Rv[j, c])})
                        else:
                            want = float((wb * D[contrib, c]).sum() / norm)
                            if not abs(Rv[j, c] - want) <= 1e-6 * max(1.0, abs(want)):
                                bad = ("value is not sum(w*x)/sum(w) over the nearest unmasked valid source locations in range",
                                       {"got": float(Rv[j, c]), "expected": want, "neighbours": [int(v) for v in contrib], "distances": [float(v) for v in d[j, contrib]]})
                        if bad is None and int(Cv[j, c]) != len(contrib):
                            bad = ("count differs from the number of unmasked valid neighbours in range", {"count": int(Cv[j, c]), "neighbours": len(contrib)})
                        if bad:
                            ctx.fail(site, "source swath with masked coordinate arrays: " + bad[0], {**inp, **geo, "target_index": int(j), "channel": c}, bad[1],
                                     tags={"cause": "masked-source-coordinates", "reference": "brute force"}, size=n_src + n_tgt)
                            break
                    if bad:
                        break


def run(ctx):
    suite_no_neighbour_locations(ctx)
    n = 40 if ctx.quick else 400
    lim = (80, 60) if ctx.quick else (250, 200)
    for _ in range(n):
        src, tgt, radius, desc = kc.geometry_pair(ctx.rng, *lim)
        if radius == 0.0:
            radius = 1000.0
        check(ctx, src, tgt, radius, desc)
        ctx.count("pairs")
    suite_integer_data_near_dtype_max(ctx)
    suite_masked_source_coordinates(ctx)
