"""Source of MANIFEST.json (regenerate with ./tools_gen_manifest.py)."""

CHECKS = [
 {"property_id": "C19",
  "text": "Unbounded Lean theorems over the model of the five helpers: row segments partition [0,size) for every size "
          "and segment count (getSlice_partition, getSlice_length_le); chunk-slice enumeration selects, per axis, the "
          "slice with offset = sum of preceding chunks for every chunk tuple of any rank (axisSlices_chain/_get, "
          "enumerate_mem_iff, enumerate_length); RowAppendableArray.to_array equals the concatenation for every "
          "capacity and append sequence (append_eq_concat, cursor_le_buffer); the divisibility contract for every "
          "slice/axis/factor (divisible_contract); overlap merging conserves ids, returns the union of the named "
          "members and ends in a non-overlapping fixpoint for every family and order (merge_ids_perm, merge_values, "
          "merge_nonoverlapping). The model is tied to /repo by exhaustive small-scope + random differential runs of "
          "the real helpers against the compiled model, plus a model-free oracle (partition / concatenation / contract / "
          "connected components, all input orders).",
  "note": "Trusted: Lean kernel + 3 standard axioms; the hand-written model (checked by sampling only); numpy "
          "slicing/append/vstack; exact ceil for size < 2^25. 'Connected components' and order-independence of the merge "
          "are carried by the oracle (union-find on every generated family and order), the theorems give id "
          "conservation, value = union of members and the non-overlapping fixpoint."},
]

_TODO = "check not built yet in this session; will be claimed once its model, theorems and correspondence exist"
NOT_APPLICABLE = [{"property_id": f"C{i:02d}", "reason": _TODO} for i in range(1, 21)
                  if f"C{i:02d}" not in {c["property_id"] for c in CHECKS}]
